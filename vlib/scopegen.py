"""Type-directed generator of small samlang programs for the scope/inference properties (C13, C15).

Everything of value type is `int`, so every inferred type is known by construction: `let` bindings
and lambda parameters are `int`, the generic `Main.id`/`Main.ap` are instantiated at `int`.
Programs are trees (nested tuples) so that the C13 rewrites can be applied structurally and the
text re-rendered.  All local names are unique inside a function (the implementation rejects any
rebinding, see Model/Scope.lean), fields/methods/classes use disjoint name pools.
"""

LIB = {
    "Box": "class Box(val fa: int, val fb: int) {\n  method sum(): int = this.fa + this.fb\n  function mk(x: int): Box = Box.init(x, x + 1)\n}",
    "Sh": "class Sh(Ci(int), Re(int, int), Em) {\n  method area(): int = match this { Ci(r) -> r * r, Re(w, h) -> w * h, Em -> 0 }\n}",
    "Opt": "class Opt(No, So(int)) {\n  function of(x: int): Opt = if x % 2 == 0 { Opt.So(x) } else { Opt.No() }\n}",
}


class Gen:
    def __init__(self, rng, broken=None):
        self.rng = rng
        self.n = 0
        self.broken = broken      # None | 'unbound' | 'dup' | 'type'
        self.broke = False
        self.forms = set()

    def fresh(self):
        self.n += 1
        return f"v{self.n}"

    def int_expr(self, env, depth):
        r = self.rng
        if depth <= 0 or r.chance(1, 5):
            if env and r.chance(3, 4):
                v = r.pick(env)
                if self.broken == "unbound" and not self.broke and r.chance(1, 3):
                    self.broke = True
                    return ("var", "nope")
                return ("var", v)
            if self.broken == "type" and not self.broke and r.chance(1, 3):
                self.broke = True
                return ("raw", "true")
            return ("lit", r.range(0, 9))
        k = r.below(13)
        d = depth - 1
        if k <= 1:
            return ("bin", r.pick(["+", "-", "*"]), self.int_expr(env, d), self.int_expr(env, d))
        if k == 2:
            self.forms.add("if")
            return ("if", ("bin", r.pick(["<", "==", ">="]), self.int_expr(env, d), self.int_expr(env, d)),
                    self.int_expr(env, d), self.int_expr(env, d))
        if k == 3:
            self.forms.add("let")
            v = self.fresh()
            if self.broken == "dup" and not self.broke and env and r.chance(1, 2):
                self.broke = True
                v = r.pick(env)
            e = self.int_expr(env, d)
            return ("block", [("let", ("pid", v), e, False)], self.int_expr(env + [v], d))
        if k == 4:
            self.forms.add("tuple-pattern")
            a, b = self.fresh(), self.fresh()
            pat = ("ptuple", [("pid", a), ("pwild",) if r.chance(1, 4) else ("pid", b)])
            env2 = env + [a] + ([b] if pat[1][1][0] == "pid" else [])
            return ("block", [("let", pat, ("tuple", [self.int_expr(env, d), self.int_expr(env, d)]), None)],
                    self.int_expr(env2, d))
        if k == 5:
            self.forms.add("struct-pattern")
            a, b = self.fresh(), self.fresh()
            pat = ("pobj", [("fa", a if r.chance(2, 3) else None), ("fb", b)])
            env2 = env + [pat[1][0][1] or "fa", b]
            if pat[1][0][1] is None and "fa" in env:
                pat = ("pobj", [("fa", a), ("fb", b)])
                env2 = env + [a, b]
            return ("block", [("let", pat, ("raw2", "Box.init(", [self.int_expr(env, d), self.int_expr(env, d)], ")"), None)],
                    self.int_expr(env2, d))
        if k == 6:
            self.forms.add("match-variant")
            x, w, h = self.fresh(), self.fresh(), self.fresh()
            scrut = self.sh_expr(env, d)
            return ("match", scrut, [(("pvar", "Ci", [("pid", x)]), self.int_expr(env + [x], d)),
                                     (("pvar", "Re", [("pid", w), ("pid", h)]), self.int_expr(env + [w, h], d)),
                                     (("pvar", "Em", []), self.int_expr(env, d))])
        if k == 7:
            self.forms.add("or-pattern")
            x = self.fresh()
            scrut = self.sh_expr(env, d)
            return ("match", scrut, [(("por", [("pvar", "Ci", [("pid", x)]), ("pvar", "Re", [("pid", x), ("pwild",)])]),
                                      self.int_expr(env + [x], d)),
                                     (("pvar", "Em", []), self.int_expr(env, d))])
        if k == 8:
            self.forms.add("if-let")
            x = self.fresh()
            return ("iflet", ("pvar", "So", [("pid", x)]), ("raw2", "Opt.of(", [self.int_expr(env, d)], ")"),
                    self.int_expr(env + [x], d), self.int_expr(env, d))
        if k == 9:
            self.forms.add("lambda-let")
            g, x = self.fresh(), self.fresh()
            body = self.int_expr(env + [x], d)     # may capture anything in env
            return ("block", [("let", ("pid", g), ("lam", [(x, True)], body), None)],
                    ("call", ("var", g), [self.int_expr(env + [g], d) if False else self.int_expr(env, d)]))
        if k == 10:
            self.forms.add("lambda-arg")
            x = self.fresh()
            if r.chance(1, 3):
                y = self.fresh()
                self.forms.add("nested-lambda")
                inner = ("lam", [(y, False)], ("bin", "+", ("var", y), self.int_expr(env + [x, y], d)))
                body = ("gcall", "Main.ap", [inner, ("var", x)])
            else:
                body = self.int_expr(env + [x], d)
            return ("gcall", "Main.ap", [("lam", [(x, False)], body), self.int_expr(env, d)])
        if k == 11:
            self.forms.add("generic-call")
            return ("gcall", "Main.id", [self.int_expr(env, d)])
        self.forms.add("method")
        return ("raw2", "Box.mk(", [self.int_expr(env, d)], ").sum()")

    def sh_expr(self, env, d):
        k = self.rng.below(3)
        if k == 0:
            return ("raw2", "Sh.Ci(", [self.int_expr(env, d)], ")")
        if k == 1:
            return ("raw2", "Sh.Re(", [self.int_expr(env, d), self.int_expr(env, d)], ")")
        return ("raw", "Sh.Em()")

    def function(self, name, depth):
        nparams = self.rng.range(1, 3)
        ps = [self.fresh() for _ in range(nparams)]
        return {"name": name, "params": ps, "body": self.int_expr(list(ps), depth)}


def gen_program(rng, broken=None, nfun=None, depth=None):
    g = Gen(rng, broken)
    nfun = nfun or rng.range(1, 3)
    funs = [g.function(f"f{i}", depth or rng.range(2, 4)) for i in range(nfun)]
    args = [[rng.range(0, 20) for _ in f["params"]] for f in funs]
    return {"funs": funs, "args": args, "classes": ["Box", "Sh", "Opt", "Main"], "split": None,
            "forms": sorted(g.forms), "broken": broken if g.broke else None}


# ---------------------------------------------------------------- rendering

def pat_s(p):
    k = p[0]
    if k == "pid":
        return p[1]
    if k == "pwild":
        return "_"
    if k == "ptuple":
        return "(" + ", ".join(pat_s(q) for q in p[1]) + ")"
    if k == "pobj":
        return "{ " + ", ".join(f if v is None else f"{f} as {v}" for f, v in p[1]) + " }"
    if k == "pvar":
        return p[1] + ("(" + ", ".join(pat_s(q) for q in p[2]) + ")" if p[2] else "")
    if k == "por":
        return " | ".join(pat_s(q) for q in p[1])
    raise ValueError(k)


def expr_s(e):
    k = e[0]
    if k == "lit":
        return str(e[1])
    if k == "var":
        return e[1]
    if k == "raw":
        return e[1]
    if k == "raw2":
        return e[1] + ", ".join(expr_s(x) for x in e[2]) + e[3]
    if k == "bin":
        def opnd(x):
            t = expr_s(x)
            return f"({t})" if x[0] in ("if", "iflet", "match", "lam", "block", "wrap") else t
        return f"({opnd(e[2])} {e[1]} {opnd(e[3])})"
    if k == "if":
        return f"if {expr_s(e[1])} {{ {expr_s(e[2])} }} else {{ {expr_s(e[3])} }}"
    if k == "iflet":
        return f"if let {pat_s(e[1])} = {expr_s(e[2])} {{ {expr_s(e[3])} }} else {{ {expr_s(e[4])} }}"
    if k == "tuple":
        return "(" + ", ".join(expr_s(x) for x in e[1]) + ")"
    if k == "block":
        ss = "".join(f"let {pat_s(p)}{': int' if ann else ''} = {expr_s(x)}; " for _, p, x, ann in e[1])
        return "{ " + ss + expr_s(e[2]) + " }"
    if k == "match":
        return "match " + expr_s(e[1]) + " { " + ", ".join(f"{pat_s(p)} -> {expr_s(b)}" for p, b in e[2]) + " }"
    if k == "lam":
        return "(" + ", ".join(f"{x}: int" if ann else x for x, ann in e[1]) + ") -> " + expr_s(e[2])
    if k == "call":
        return expr_s(e[1]) + "(" + ", ".join(expr_s(x) for x in e[2]) + ")"
    if k == "gcall":
        return e[1] + ("<int>" if len(e) > 3 and e[3] else "") + "(" + ", ".join(expr_s(x) for x in e[2]) + ")"
    if k == "paren":
        return "(" + expr_s(e[1]) + ")"
    if k == "wrap":
        return "{ " + expr_s(e[1]) + " }"
    raise ValueError(k)


def main_class(p):
    ms = []
    for f in p["funs"]:
        ms.append(("f", f"  function {f['name']}({', '.join(x + ': int' for x in f['params'])}): int = {expr_s(f['body'])}"))
    ms.append(("id", "  function <T> id(x: T): T = x"))
    ms.append(("ap", "  function ap(g: (int) -> int, x: int): int = g(x)"))
    calls = "".join(f" Process.println(Str.fromInt(Main.{f['name']}({', '.join(str(a) for a in args)})));"
                    for f, args in zip(p["funs"], p["args"]))
    ms.append(("main", "  function main(): unit = {" + calls + " }"))
    order = p.get("member_order") or list(range(len(ms)))
    return "class Main {\n" + "\n".join(ms[i][1] for i in order) + "\n}"


def render(p):
    """-> {module name: text}; entry module is `Main`."""
    texts = {c: (LIB[c] if c != "Main" else main_class(p)) for c in p["classes"]}
    if p["split"]:
        moved = [c for c in p["classes"] if c in p["split"]]
        kept = [c for c in p["classes"] if c not in p["split"]]
        lib_imports = ""
        return {"Lib": lib_imports + "\n".join(texts[c] for c in moved),
                "Main": "import { " + ", ".join(moved) + " } from Lib;\n" + "\n".join(texts[c] for c in kept)}
    return {"Main": "\n".join(texts[c] for c in p["classes"])}


# ---------------------------------------------------------------- structural helpers

def map_expr(e, f):
    """bottom-up map over expressions; f(node) -> node. Patterns are passed through f too."""
    k = e[0]
    if k in ("lit", "var", "raw", "pid", "pwild"):
        return f(e)
    if k == "raw2":
        return f((k, e[1], [map_expr(x, f) for x in e[2]], e[3]))
    if k == "bin":
        return f((k, e[1], map_expr(e[2], f), map_expr(e[3], f)))
    if k == "if":
        return f((k, map_expr(e[1], f), map_expr(e[2], f), map_expr(e[3], f)))
    if k == "iflet":
        return f((k, map_expr(e[1], f), map_expr(e[2], f), map_expr(e[3], f), map_expr(e[4], f)))
    if k == "tuple":
        return f((k, [map_expr(x, f) for x in e[1]]))
    if k == "block":
        return f((k, [(s[0], map_expr(s[1], f), map_expr(s[2], f), s[3]) for s in e[1]], map_expr(e[2], f)))
    if k == "match":
        return f((k, map_expr(e[1], f), [(map_expr(p, f), map_expr(b, f)) for p, b in e[2]]))
    if k == "lam":
        return f((k, e[1], map_expr(e[2], f)))
    if k == "call":
        return f((k, map_expr(e[1], f), [map_expr(x, f) for x in e[2]]))
    if k == "gcall":
        return f((k, e[1], [map_expr(x, f) for x in e[2]]) + tuple(e[3:]))
    if k in ("paren", "wrap"):
        return f((k, map_expr(e[1], f)))
    if k == "ptuple":
        return f((k, [map_expr(q, f) for q in e[1]]))
    if k == "pobj":
        return f(e)
    if k == "pvar":
        return f((k, e[1], [map_expr(q, f) for q in e[2]]))
    if k == "por":
        return f((k, [map_expr(q, f) for q in e[1]]))
    raise ValueError(k)


def rename_name(p, old, new):
    """consistent renaming of the local variable name `old` to `new` in the whole program"""
    def f(e):
        if e[0] in ("var", "pid") and e[1] == old:
            return (e[0], new)
        if e[0] == "lam":
            return ("lam", [(new if x == old else x, a) for x, a in e[1]], e[2])
        if e[0] == "pobj":
            out = []
            for fld, v in e[1]:
                if v == old:
                    out.append((fld, new))
                elif v is None and fld == old:
                    out.append((fld, new))
                else:
                    out.append((fld, v))
            return ("pobj", out)
        return e
    q = dict(p)
    q["funs"] = [{"name": fn["name"], "params": [new if x == old else x for x in fn["params"]],
                  "body": map_expr(fn["body"], f)} for fn in p["funs"]]
    return q


def local_names(p):
    names = []
    def f(e):
        if e[0] == "pid":
            names.append(e[1])
        if e[0] == "lam":
            names.extend(x for x, _ in e[1])
        if e[0] == "pobj":
            names.extend(v or fld for fld, v in e[1])
        return e
    for fn in p["funs"]:
        names.extend(fn["params"])
        map_expr(fn["body"], f)
    return sorted(set(names))
