"""C12 — compilation results depend only on the sources (not on hash seeds, module enumeration
order, worker-thread count).

Proof: lean/SamVerif/Props/C12.lean over Model/ErrorSet.lean, Model/Layout.lean, Model/MirFull.lean.
Tie 1 (`errset` protocol): the real samlang_errors::ErrorSet (real Location / ModuleReference / PStr
        values, handles allocated in a generated order) against the Lean model, line by line, plus
        an independent Python ordering oracle and the merge-order metamorphic check.
Tie 2 (fresh processes): harness/src/bin/c12.rs, ONE invocation = ONE fresh process (fresh
        RandomState keys, RAYON_NUM_THREADS from the environment) compiling the given sources with a
        given allocation order of the module references; N invocations per program are compared:
        verdict + rendered diagnostics exactly, behaviour of the emitted wasm and TS under Node 22,
        MIR before/after optimisation up to a bijective renaming constructed here (canon_mir).
Oracle: the comparison across processes *is* the implementation-side property oracle (it does not
        use the model).  Findings C12-F1..F4 are all fixed in /repo (regressions are violations; their witnesses run
        first from corpus/C12/).
"""
import json, os, re, subprocess, concurrent.futures as cf
from . import common
try:                      # C13's generator; C12 degrades (and says so in evidence) if it is mid-edit
    from . import scopegen
except Exception as _ex:  # noqa
    scopegen = None
from .common import hexs

BIN = lambda: common.harness_bin("C12")
THREADS = [1, 2, 4, 8, 16, 3, 5, 12]
WORKERS = min(12, os.cpu_count() or 4)

# --------------------------------------------------------------------------- process runs

def run_proc(req, threads):
    """One fresh process for one request."""
    env = dict(os.environ)
    env["RAYON_NUM_THREADS"] = str(threads)
    try:
        p = subprocess.run([BIN()], input=(json.dumps(req) + "\n").encode(), stdout=subprocess.PIPE,
                           stderr=subprocess.PIPE, env=env, timeout=120)
    except subprocess.TimeoutExpired:
        return {"verdict": "timeout", "diag": "harness process timed out"}
    out = [l for l in p.stdout.decode("utf-8", "replace").split("\n") if l.strip()]
    if not out:
        return {"verdict": "died", "diag": f"rc={p.returncode} {p.stderr.decode('utf-8', 'replace')[-300:]}"}
    try:
        return json.loads(out[-1])
    except ValueError:
        return {"verdict": "died", "diag": out[-1][:300]}


def run_configs(jobs):
    """jobs: list of (req, threads) -> list of answers, run in parallel (each its own process)."""
    with cf.ThreadPoolExecutor(max_workers=WORKERS) as ex:
        return list(ex.map(lambda j: run_proc(j[0], j[1]), jobs))


def mk_req(prog, order, run=False, mir=False, std_last=False):
    return {"sources": [[m, prog["sources"][m]] for m in order], "entry": [prog["entry"]],
            "missing_entry": prog.get("missing_entry"),
            "std": prog.get("std", True), "std_last": std_last, "run": run, "mir": mir,
            "timeout_ms": 15000}

# --------------------------------------------------------------------------- MIR up to renaming

TOK = re.compile(r'"(?:[^"\\]|\\.)*"|\'(?:[^\'\\]|\\.)*\'|[A-Za-z_$][A-Za-z0-9_$]*|\d+|\s+|.')
IDENT = re.compile(r'^[A-Za-z_$][A-Za-z0-9_$]*$')
FIXED = {"let", "if", "else", "return", "while", "break", "as", "is", "Closure", "fun", "context",
         "int", "i31", "function", "true", "undefined", "closure", "object", "variant", "type",
         "Boxed", "Unboxed", "name", "initial_value", "loop_value", "typeof", "const"}


def split_mir(text):
    consts, types, funcs, mains, cur = [], {}, {}, [], None
    for line in text.split("\n"):
        if cur is not None:
            cur[1].append(line)
            if line == "}":
                funcs[cur[0]] = "\n".join(cur[1]); cur = None
            continue
        if line.startswith("function "):
            name = line[9:line.index("(")]
            cur = (name, [line])
            if line.rstrip().endswith("}") and not line.rstrip().endswith("{"):
                funcs[name] = line; cur = None
        elif line.startswith(("closure type ", "object type ", "variant type ")):
            name = line.split(" ")[2]
            types[name] = line
        elif line.startswith("const GLOBAL_STRING_"):
            consts.append(line[line.index("=") + 1:].strip())
        elif line.startswith("sources.mains = ["):
            mains = [x.strip() for x in line[len("sources.mains = ["):-1].split(",") if x.strip()]
    return consts, types, funcs, mains


def canon_mir(text):
    """Canonical form of a MIR dump: functions in discovery order from the (sorted) entry points,
    synthetic function names, all type names and all local names replaced by first-occurrence
    indices.  Two dumps have the same canonical form iff they are equal up to a bijective renaming
    of (synthetic functions, types, locals/temps) and reordering of top-level items."""
    consts, types, funcs, mains = split_mir(text)
    fnames = set(funcs)
    tnames = set(types)
    def base_type(tok):
        if tok in tnames:
            return tok, ""
        m = re.match(r"^(.*)(\$_Sub\d+)$", tok)
        if m and m.group(1) in tnames:
            return m.group(1), m.group(2)
        return None, None
    fren, tren, order, torder = {}, {}, [], []
    def fcanon(name):
        if "GenFn" not in name:
            return name
        if name not in fren:
            fren[name] = f"G{len(fren)}"
        return fren[name]
    def tcanon(tok):
        b, suf = base_type(tok)
        if b is None:
            return None
        if b not in tren:
            tren[b] = f"T{len(tren)}"; torder.append(b)
        return tren[b] + suf
    out = []
    queue = sorted(m for m in mains if m in funcs)
    seen = set(queue)
    def walk(text, local):
        res = []
        for tok in TOK.findall(text):
            if IDENT.match(tok):
                if tok in fnames or tok.startswith("__"):
                    if tok in fnames and tok not in seen:
                        seen.add(tok); queue.append(tok)
                    res.append(fcanon(tok)); continue
                t = tcanon(tok)
                if t is not None:
                    res.append(t); continue
                if tok in FIXED or local is None:
                    res.append(tok); continue
                if tok not in local:
                    local[tok] = f"v{len(local)}"
                res.append(local[tok])
            else:
                res.append(tok)
        return "".join(res)
    i = 0
    while i < len(queue):
        out.append(walk(funcs[queue[i]], {})); i += 1
    unreachable = sorted(walk(funcs[f], {}) for f in funcs if f not in seen)
    j = 0
    tout = []
    while j < len(torder):
        tout.append(walk(types[torder[j]], None)); j += 1
    rest_types = sorted(re.sub(r"^(\w+ type) \S+", r"\1 ?", types[t]) for t in types if t not in tren)
    return "\n".join(["consts " + " ".join(sorted(consts))] + out + ["-- unreachable"] + unreachable +
                     ["-- types"] + tout + ["-- other types"] + rest_types +
                     ["mains " + " ".join(sorted(mains))])


def multi_capture(mir0):
    """A lambda capturing >= 2 variables: its context fields are laid out in HashMap order
    (hir_lowering.rs:1067); equality up to *renaming* is then not expected (ctx_layout_perm_invariant
    covers the field permutation)."""
    return re.search(r"\(_this: [^)]*\)\[[1-9]", mir0) is not None


def variant_lines(mir):
    return sorted(l for l in mir.split("\n") if l.startswith("variant type "))

# --------------------------------------------------------------------------- diagnostics

def blocks(diag):
    diag = re.sub(r"(?m)^Found \d+ errors?\.\s*\Z", "", diag)
    parts = re.split(r"(?m)^(?=Error -{5,} )", diag)
    return [p.rstrip("\n") for p in parts if p.startswith("Error -")]


def block_module(b):
    m = re.match(r"Error -+ (\S+?)\.sam:", b)
    return m.group(1) if m else "?"


def block_kind(b):
    lines = [l for l in b.split("\n")[1:] if l.strip()]
    first = lines[0] if lines else ""
    first = re.sub(r"`[^`]*`", "`_`", first)
    return first[:60]

# --------------------------------------------------------------------------- generators

LONG_M = ["firstVeryLongMemberName", "secondVeryLongMemberName", "thirdQuiteLongMemberName"]
LONG = ["VeryLongVariantNameOne", "VeryLongVariantNameTwo", "AnotherQuiteLongNameThree", "YetAnotherLongishNameFour"]
WORDS = ["alpha", "beta", "gamma", "a somewhat longer literal", "delta", "", "x"]


def gen_accepted(rng, idx):
    """Multi-module program that compiles: scopegen functions over the library classes spread over
    several modules + string literals + non-entry `Main.main`s + long shared identifiers +
    recursion/loops for the optimiser."""
    if scopegen is None:
        return gen_accepted_fallback(rng, idx)
    p = scopegen.gen_program(rng.fork(), nfun=rng.range(1, 3))
    nlib = rng.range(1, 3)
    libmods = ["LibA", "util.LibB", "deep.er.LibC"][:nlib]
    where = {c: rng.pick(libmods) for c in scopegen.LIB_ORDER}
    # which library classes a library class mentions (scopegen's LIB grows over time)
    all_names = list(scopegen.LIB)
    deps = {c: [d for d in all_names if d != c and re.search(rf"\b{d}\b", scopegen.LIB[c])] for c in all_names}
    where.update({c: rng.pick(libmods) for c in all_names if c not in where})
    src = {}
    for m in libmods:
        cls = [c for c in all_names if where[c] == m]
        imports = {}
        for c in cls:
            for d in deps.get(c, []):
                if where[d] != m:
                    imports.setdefault(where[d], []).append(d)
        text = "".join(f"import {{ {', '.join(sorted(set(v)))} }} from {k};\n" for k, v in sorted(imports.items()))
        text += "\n".join(scopegen.LIB[c] for c in cls) + "\n"
        src[m] = text
    imports = {}
    for c in all_names:
        imports.setdefault(where[c], []).append(c)
    extra_calls, extra_imports = [], []
    # string literals shared between modules
    lits = [rng.pick(WORDS) for _ in range(rng.range(2, 4))]
    src["Txt"] = "class Txt {\n" + "\n".join(f'  function s{i}(): Str = "{l}"' for i, l in enumerate(lits)) + "\n}\n"
    extra_imports.append("import { Txt } from Txt;")
    for i in range(len(lits)):
        extra_calls.append(f" Process.println(Txt.s{i}());")
    extra_calls.append(f' Process.println("{rng.pick(WORDS)}");')
    # long identifiers (heap strings) shared by two modules in opposite order
    if rng.chance(2, 3):
        names = rng.shuffle(LONG)[:rng.range(2, 3)]
        def enum(cls, ns, k):
            vs = ", ".join(f"{n}(int)" if j != k else f"{n}(int, int)" for j, n in enumerate(ns))
            arms = ", ".join((f"{n}(a) -> a" if j != k else f"{n}(a, b) -> a + b") for j, n in enumerate(ns))
            return f"class {cls}({vs}, Sm{cls}) {{\n  method pick(): int = match (this) {{ {arms}, Sm{cls} -> 0 }}\n}}\n"
        m1, m2 = rng.pick([("names.One", "names.Two"), ("ModuleWithLongNameAlpha", "ModuleWithLongNameBeta"),
                           ("pkg.ModuleWithLongNameBeta", "AnotherVeryLongPackageName.Sel"), ("sixteenByteNameX", "fifteenByteName")])
        src[m1] = enum("Sel", names, 0)
        src[m2] = enum("Les", list(reversed(names)), 1)
        extra_imports += [f"import {{ Sel }} from {m1};", f"import {{ Les }} from {m2};"]
        extra_calls.append(f" Process.println(Str.fromInt(Sel.{names[1]}({rng.range(1, 9)}).pick() + Les.{names[-1]}({rng.range(1, 9)}).pick()));")
    # recursion / loops: work for the per-function parallel optimiser
    n = rng.range(3, 12)
    src["Rec"] = (
        "class Lst(Nil, Cons(int, Lst)) {\n"
        "  function upto(n: int): Lst = if n <= 0 { Lst.Nil() } else { Lst.Cons(n, Lst.upto(n - 1)) }\n"
        "  method sum(acc: int): int = match (this) { Nil -> acc, Cons(h, t) -> t.sum(acc + h) }\n"
        "}\n"
        "class Loop {\n"
        f"  function run(i: int, acc: int): int = if i >= {n} {{ acc }} else {{ Loop.run(i + 1, acc + i * {rng.range(2, 5)} + {rng.range(0, 3)}) }}\n"
        f"  function twice(i: int, acc: int): int = if i >= {n + 2} {{ acc }} else {{ Loop.twice(i + 2, acc + Loop.run(0, i)) }}\n"
        "}\n")
    extra_imports.append("import { Lst, Loop } from Rec;")
    extra_calls.append(f" Process.println(Str.fromInt(Lst.upto({n}).sum(0) + Loop.twice(0, 1)));")
    # non-entry modules with their own Main.main (every such main is a specialisation root)
    nmain = rng.weighted([(0, 2), (1, 3), (2, 3)])
    cellmod = where["Cell"]
    auxnames = rng.pick([["aux.Side0", "aux.Side1"], ["aux", "aux.Side1"], ["Main.Aux", "Main.Aux.More"], ["Txt.Extra", "Txt.Extra.Extra"]])
    for k in range(nmain):
        body = rng.pick([
            'let c = Cell.init(true); let _ = Process.println(if c.get() { "yes" } else { "no" });',
            'let c = Cell.init("s").map((s) -> s :: "!"); let _ = Process.println(c.get());',
            'let c = Cell.init(Cell.init(3)); let _ = Process.println(Str.fromInt(c.get().get()));',
            'let c = Cell.init((1, true)); let (a, _) = c.get(); let _ = Process.println(Str.fromInt(a));',
        ])
        src[auxnames[k]] = f"import {{ Cell }} from {cellmod};\nclass Main {{\n  function main(): unit = {{ {body} }}\n}}\n"
    if rng.chance(1, 2):
        # mutually recursive enums used by two Main.main in opposite order (C12-F3 shape)
        src["mut.T"] = ("class Ma(NilA, ConsA(Mb)) {\n  method tag(): int = match (this) { NilA -> 0, ConsA(_) -> 1 }\n}\n"
                        "class Mb(NilB, ConsB(Ma)) {\n  method tag(): int = match (this) { NilB -> 0, ConsB(_) -> 1 }\n}\n"
                        "class Mc(OnlyC(Mb)) {\n  method tag(): int = match (this) { OnlyC(b) -> b.tag() + 2 }\n}\n"
                        "class Mx(OnlyX(My)) {\n  function mk(): Mx = Mx.OnlyX(My.NilY())\n  method depth(): int = match (this) { OnlyX(y) -> y.depth() + 1 }\n}\n"
                        "class My(NilY, ConsY(Mx)) {\n  method depth(): int = match (this) { NilY -> 0, ConsY(x) -> x.depth() + 1 }\n}\n")
        side = rng.pick(["mut.Side", "Main.Side", "Main.Main", "Main.Side.Deep"])     # `Main.*`: the entry module's name is a prefix
        src[side] = ("import { Ma, Mb, Mc, Mx, My } from mut.T;\nclass Main {\n  function main(): unit = { let x0 = Mx.mk(); let _ = Process.println(Str.fromInt(x0.depth())); let y = My.ConsY(Mx.OnlyX(My.NilY())); let _ = Process.println(Str.fromInt(y.depth())); let c = Mc.OnlyC(Mb.NilB()); let b = Mb.ConsB(Ma.NilA()); "
                           "let a = Ma.ConsA(Mb.NilB()); let _ = Process.println(Str.fromInt(b.tag() + a.tag() + c.tag())); }\n}\n")
        extra_imports.append("import { Ma, Mb, Mc, Mx, My } from mut.T;")
        # the entry main mentions My first, the side main Mx first (Mx.mk()): opposite demand orders
        extra_calls.append(" Process.println(Str.fromInt(My.NilY().depth())); Process.println(Str.fromInt(Mx.OnlyX(My.ConsY(Mx.mk())).depth()));"
                           # `==` on objects is reference identity: true iff ConsY is laid out unboxed over its payload
                           " let sharedX = Mx.mk(); Process.println(if My.ConsY(sharedX) == My.ConsY(sharedX) { \"same cell\" } else { \"different cells\" });")
        extra_calls.append(" Process.println(Str.fromInt(Ma.ConsA(Mb.NilB()).tag() * 10 + Mb.ConsB(Ma.NilA()).tag()));"
                           " Process.println(Str.fromInt(Mc.OnlyC(Mb.ConsB(Ma.NilA())).tag()));")
    main = scopegen.main_class(p)
    main = main.replace("function main(): unit = {", "function main(): unit = {" + "".join(extra_calls), 1)
    head = "".join(f"import {{ {', '.join(v)} }} from {k};\n" for k, v in sorted(imports.items()))
    src["Main"] = head + "\n".join(extra_imports) + "\n" + main + "\n"
    return {"sources": src, "entry": "Main", "std": True, "kind": "accepted", "id": idx,
            "forms": p["forms"], "nmain": nmain + 1}


def gen_accepted_fallback(rng, idx):
    """Used only when vlib/scopegen.py cannot be imported: string literals, recursion/loops, two mains."""
    n = rng.range(3, 12)
    src = {
        "Txt": "class Txt {\n" + "\n".join(f'  function s{i}(): Str = "{rng.pick(WORDS)}"' for i in range(3)) + "\n}\n",
        "Rec": ("class Lst(Nil, Cons(int, Lst)) {\n  function upto(n: int): Lst = if n <= 0 { Lst.Nil() } else { Lst.Cons(n, Lst.upto(n - 1)) }\n"
                "  method sum(acc: int): int = match (this) { Nil -> acc, Cons(h, t) -> t.sum(acc + h) }\n}\n"),
        "aux.Side": "import { Lst } from Rec;\nclass Main {\n  function main(): unit = Process.println(Str.fromInt(Lst.upto(2).sum(1)))\n}\n",
        "Main": ("import { Txt } from Txt;\nimport { Lst } from Rec;\nclass Main {\n  function main(): unit = { Process.println(Txt.s0()); Process.println(Txt.s1() :: Txt.s2()); "
                 f"let f = (a: int, b: int) -> a * {rng.range(2, 9)} + b; Process.println(Str.fromInt(f(Lst.upto({n}).sum(0), {rng.range(0, 9)}))); }}\n}}\n"),
    }
    return {"sources": src, "entry": "Main", "std": True, "kind": "accepted", "id": idx, "forms": [], "nmain": 2}


def err_snippets(rng, i, avoid_known=True):
    """Self-contained classes each provoking diagnostics; `i` keeps names unique per module."""
    nv = rng.range(2, 6)
    vs = ["P", "Q", "R", "S", "T", "U"][:nv]
    gaps = [rng.pick(["X", "Y", "Z"]) for _ in vs]
    full = rng.below(nv) if rng.chance(1, 3) else -1
    arms = ", ".join((f"{v}(_) -> {k}" if k == full else f"{v}({g}) -> {k}") for k, (v, g) in enumerate(zip(vs, gaps)))
    nested = (f"class In{i}(X, Y, Z) {{}}\nclass Out{i}({', '.join(v + '(In' + str(i) + ')' for v in vs)}) {{\n"
              f"  function f(o: Out{i}): int = match o {{ {arms} }}\n}}")
    mv = ["Aa", "Bb(int)", "Cc", "Dd(int, int)", "Ee(bool)"]
    present = [m for m in mv if rng.chance(1, 2)] or ["Bb(int)"]
    def arm(m, k):
        n = m.split("(")[0]
        args = m.count(",") + 1 if "(" in m else 0
        return f"{n}({', '.join('_' for _ in range(args))}) -> {k}" if args else f"{n} -> {k}"
    missing = (f"class Mv{i}({', '.join(mv)}) {{\n  function f(v: Mv{i}): int = match v {{ "
               + ", ".join(arm(m, k) for k, m in enumerate(present[:4])) + " }\n}")
    pool = [
        f"class Ea{i} {{ function f(): int = true }}",
        f"class Eb{i} {{ function f(): int = undefinedName{i} + alsoUndefined{i} }}",
        f"class Ec{i} {{ function f(): int = Missing{i}.g() }}",
        f"class Ed{i} {{ function f(): int = Ed{i}.nope() }}",
        nested, nested, missing, missing,
        (f"class Tu{i}(K, L(int), M(bool)) {{ function f(a: Tu{i}, b: Tu{i}): int = match (a, b) {{ (K, _) -> 1, (_, L(_)) -> 2, (M(true), M(_)) -> 3 }} }}"),
        f"class Us{i}(A, B(int)) {{ function f(v: Us{i}): int = match v {{ A -> 1, A -> 2, _ -> 3, B(_) -> 4 }} }}",
        f"interface J{i} {{ method only(): int }}\nclass K{i} : J{i} {{ }}",
        f"class Ar{i} {{ function g(a: int): int = a\n  function f(): int = Ar{i}.g(1, 2) + Ar{i}.g(true) }}",
        f"class Tb{i} {{ function f(): int = {{ let (a, b, c) = (1, 2); a }} }}",
        f"class Du{i} {{ function f(a: int, a: int): int = a }}\nclass Du{i} {{ }}",
        f"import {{ Nope{i} }} from Not.There{i};",
        f"class Sy{i} {{ function f(): int = }}",
        f"class Sz{i} {{ function f(): int = 1 + + ; function g(: int = 2 }}",
        f"interface Ca{i} : Cb{i} {{ }}\ninterface Cb{i} : Ca{i} {{ }}",
        f"class Un{i}<T>(N, S(T)) {{ function f(): int = {{ let x = Un{i}.N(); 1 }} }}",
        f"class Ns{i} {{ function f(): int = {{ let {{ a }} = 3; a }}\n  function g(): int = match 3 {{ A -> 1 }} }}",
        f"class Or{i}(Ci(int), Re(int, int), Em) {{ function f(s: Or{i}): int = match s {{ Ci(r) | Re(w, h) -> 1, Em -> 0 }} }}",
        f"class St{i}(val a: int, val b: bool) {{ function f(s: St{i}): int = {{ let {{ a, c }} = s; a }}\n  function g(): St{i} = St{i}.init(true, 3, 4) }}",
        f"class Gn{i} {{ function <T> id(x: T): T = x\n  function f(): int = Gn{i}.id<int, bool>(3) + Gn{i}.id(\"s\") }}",
        f"class Lm{i} {{ function f(): int = {{ let g = (x) -> x; 1 }} }}",
        f"interface Fi{i} {{ function notAllowed(): int }}",
        # long identifiers (heap strings) shared with other modules in a different order (C12-F2 shape)
        (f"class Lg{i}(Sh{i}(int), {', '.join(n + '(int)' for n in (LONG if i % 2 == 0 else list(reversed(LONG))))}) {{\n"
         f"  function f(e: Lg{i}): int = match (e) {{ Sh{i}(_) -> 1 }}\n  function g(e: Lg{i}): int = match (e) {{ {LONG[i % 4]}(_) -> 1, Sh{i}(0) -> 2 }}\n}}"),
        ("interface Jl%d { %s }\nclass Kl%d : Jl%d { }" % (i, " ".join(f"method {n}(): int" for n in ((LONG_M + ["short"]) if i % 2 == 0 else (["short"] + list(reversed(LONG_M))))), i, i)),
        (f"class Sl{i}(val {LONG_M[i % 3]}: int, val {LONG_M[(i + 1) % 3]}: int, val sh: int) {{ function f(s: Sl{i}): int = {{ let {{ sh }} = s; sh }} }}"),
        f"class Pr{i} {{ private function p(): int = 1 }}\nclass Pq{i} {{ function f(): int = Pr{i}.p() }}",
    ]
    if True:
        pool.append(f"interface Jm{i} {{ method a(): int method b(): int method c(): int }}\nclass Km{i} : Jm{i} {{ }}")
    return pool


def gen_rejected(rng, idx):
    nmod = rng.weighted([(1, 3), (2, 3), (3, 3), (4, 1)])
    names = ["Main"] + gen_module_names(rng, 3)
    names = [x for i, x in enumerate(names) if x not in names[:i]][:nmod]
    src, nerr = {}, 0
    for k, m in enumerate(names):
        pool = err_snippets(rng, k)
        n = rng.weighted([(0, 1), (1, 3), (2, 3), (4, 2), (7, 1)]) if k else rng.range(1, 4)
        parts = [rng.pick(pool) for _ in range(n)]
        # imports must come first
        parts.sort(key=lambda s: 0 if s.startswith("import") else 1)
        seen, uniq = set(), []
        for s in parts:
            if s not in seen:
                seen.add(s); uniq.append(s)
        nerr += len(uniq)
        head = ""
        if k and rng.chance(1, 2):
            head = f"import {{ Ok0 }} from Main;\n" if "Main" in names and not any(u.startswith("import") for u in uniq) else ""
        ok = f"class Ok{k} {{ function v(): int = {k} }}\n"
        imps = [u for u in uniq if u.startswith("import")]
        rest = [u for u in uniq if not u.startswith("import")]
        src[m] = head + "\n".join(imps) + ("\n" if imps else "") + ok + "\n".join(rest) + "\n"
    if "Main" in src:
        src["Main"] += "class Main { function main(): unit = Process.println(\"hi\") }\n"
    return {"sources": src, "entry": "Main", "std": rng.chance(1, 3), "kind": "rejected", "id": idx}


def gen_rejected_longnames(rng, idx):
    """2-4 modules whose names have parts of > 15 bytes (heap strings, ordered by allocation id), each
    mentioning the same long identifiers first in a different order, with diagnostics that sort or
    select by those identifiers (missing members, unbound fields, counterexample choice)."""
    nmod = rng.range(2, 4)
    names = []
    if rng.chance(1, 2):
        b = rng.pick(NAME_PARTS_LONG)
        names = [b, f"{b}.{rng.pick(NAME_PARTS_LONG + NAME_PARTS_SHORT)}"]
    while len(names) < nmod:
        x = ".".join([rng.pick(NAME_PARTS_SHORT)] * rng.below(2) + [rng.pick(NAME_PARTS_LONG) + rng.pick(["", "0", "1"])])
        if x not in names:
            names.append(x)
    src = {}
    for k, m in enumerate(names):
        pool = err_snippets(rng, k)
        special = [sn for sn in pool if sn.startswith((f"interface Jl{k}", f"class Sl{k}", f"class Lg{k}"))]
        parts = rng.shuffle(special)[:rng.range(1, 3)] + [rng.pick(pool) for _ in range(rng.below(3))]
        parts = [x for i, x in enumerate(parts) if x not in parts[:i] and not x.startswith("import")]
        src[m] = f"class Ok{k} {{ function v(): int = {k} }}\n" + "\n".join(parts) + "\n"
    return {"sources": src, "entry": names[0], "std": False, "kind": "rejected", "id": idx}


def seed_shape(rng, idx):
    """Every variant at the root, >= 2 variants with their own nested gaps (the exhaustiveness search
    must report the same counterexample in every process)."""
    nv = rng.range(2, 6)
    vs = ["P", "Q", "R", "S", "T", "U"][:nv]
    inner = rng.pick([("X", "Y"), ("X", "Y", "Z")])
    arms = ", ".join(f"{v}({rng.pick(inner)}) -> {k}" for k, v in enumerate(vs))
    text = (f"class Inner({', '.join(inner)}) {{}}\nclass Outer({', '.join(v + '(Inner)' for v in vs)}) {{\n"
            f"  function f(o: Outer): int = match o {{ {arms} }}\n"
            f"  function g(a: Outer, b: Outer): int = match (a, b) {{ ({vs[0]}(X), {vs[1]}(X)) -> 1, ({vs[1]}(_), _) -> 2 }}\n}}\n"
            "class Main { function main(): unit = {} }\n")
    return {"sources": {"Main": text}, "entry": "Main", "std": False, "kind": "rejected", "id": idx}

COV_ACCEPTED = {
 "shapes.Lib": '''interface HasArea { method area(): int }
class Re(val w: int, val h: int) : HasArea { method area(): int = this.w * this.h }
class Wrap<T: HasArea>(val inner: T) : HasArea { method area(): int = this.inner.area() + 1 }
class Opt<T>(None, Some(T)) {}
class Tri(A(Opt<int>), B(int, Opt<Opt<int>>), C) {}
class Hold(val o: Opt<int>, val n: int) {}
class Measure {
  function <T: HasArea> of(t: T): int = t.area()
  function <T: HasArea> twice(t: T): int = Measure.of(t) + t.area()
}
''',
 "Main": '''import { HasArea, Re, Wrap, Opt, Tri, Hold, Measure } from shapes.Lib;
class Acc(val base: int) {
  method adder(): (int) -> int = (x) -> x + this.base
  method both(k: int): (int) -> int = (x) -> x * k + this.base
}
class Main {
  function logic(a: bool, b: bool): int = {
    let n1 = if !a { 1 } else { 0 };
    let n2 = if true && b { 2 } else { 0 };
    let n3 = if false && b { 4 } else { 0 };
    let n4 = if true || b { 8 } else { 0 };
    let n5 = if false || a { 16 } else { 0 };
    let n6 = if !(a && !b) { 32 } else { 0 };
    n1 + n2 + n3 + n4 + n5 + n6
  }
  function strs(): Str = {
    let s = "lit";
    let t = s;
    let u = "con" :: "cat";
    t :: u :: ("a" :: "b")
  }
  function arith(a: int, b: int): int = a / b + a % b + { let z = a * 2; z } - (if true { 1 } else { 2 }) + (if false { 10 } else { 20 })
  function deep(t: Tri): int = match t {
    A(Some(x)) -> x,
    A(None) -> 2,
    B(n, Some(Some(k))) -> k + n,
    B(_, Some(None)) | B(_, None) -> 4,
    C -> 6,
  }
  function held(h: Hold): int = match h { { o as Some(v), n } -> v + n, { o as None, n as k } -> k }
  function asValue(): int = { let g = Wrap.init(Re.init(2, 2)).area; let h = Re.init(3, 3).area; g() + h() }
  function guard(o: Opt<Opt<int>>): int = if let Some(Some(v)) = o { v } else { 0 - 1 }
  function vec(): int = { let v = Vec.empty<int>(); let _ = v.push(3); let _ = v.push(4); v.get(0) + v.get(1) + v.length() }
  function main(): unit = {
    Process.println(Str.fromInt(Main.logic(true, false) * 100 + Main.logic(false, true)));
    Process.println(Main.strs());
    Process.println(Str.fromInt(Main.arith(17, 5)));
    Process.println(Str.fromInt(Main.deep(Tri.A(Opt.Some(3))) + Main.deep(Tri.B(0, Opt.Some(Opt.Some(40)))) + Main.deep(Tri.B(7, Opt.Some(Opt.Some(1)))) + Main.deep(Tri.C()) + Main.deep(Tri.B(1, Opt.None<Opt<int>>()))));
    Process.println(Str.fromInt(Main.guard(Opt.Some(Opt.Some(5))) + Main.guard(Opt.None<Opt<int>>())));
    Process.println(Str.fromInt(Measure.twice(Re.init(2, 3)) + Measure.of(Wrap.init(Re.init(4, 5))) + Measure.twice(Wrap.init(Wrap.init(Re.init(1, 1))))));
    Process.println(Str.fromInt(Acc.init(10).adder()(5) + Acc.init(1).both(3)(4)));
    Process.println(Str.fromInt(Main.vec()));
    Process.println(Str.fromInt(Main.held(Hold.init(Opt.Some(30), 4)) + Main.held(Hold.init(Opt.None<int>(), 5)) + Main.asValue()));
  }
}
'''}


COV_ERR_BODY = """class Bv { function f(): int = { let g = Process.println; 1 } }
class Tk { function f(): int = { let x = 3; x(1) } }
class Tf { function f(): int = 3.foo }
class Sup {}
class Sub : Sup {}
interface Ip { method m(): int }
class Cp : Ip { private method m(): int = 1 }
class Ca { function f(x: Ip): int = 1 }
class Nc {}
class Wc<T: Ip>(val v: T) { function f(x: Wc<Nc>): int = 1 }
class Gb { function <T: Ip> g(x: T): int = 1
  function f(): int = Gb.g(Nc.nope()) }
interface It { method <A> m(a: A): int }
class Ct : It { method <A, B> m(a: A): int = 1 }
class Cn : It { method <B> m(a: B): int = 1 }
interface Iq { method <A: Ip> m(a: A): int }
class Cq : Iq { method <A> m(a: A): int = 1 }
class Ns { function f(): int = { let g: (int, (bool) -> int) -> int = (a: int, h: (int) -> int) -> 1; 1 } }
class Pair<A, B>(val a: A, val b: B) { function f(): Pair<int, Pair<bool, int>> = Pair.init(1, Pair.init(2, true))
  function g(p: Pair<int, bool>): Pair<bool, int> = p }
class Ea { function f(): int = true
  function g(): int = undefinedName + alsoUndefined }
class Mv(Aa, Bb(int), Cc, Dd(int, int)) { function f(v: Mv): int = match v { Bb(_) -> 1 }
  function g(v: Mv, w: Mv): int = match (v, w) { (Aa, _) -> 1, (_, Bb(_)) -> 2 } }
interface Jm { method a(): int method firstVeryLongMemberName(): int method c(): int method secondVeryLongMemberName(): int }
class Km : Jm { }
class St(val a: int, val secondVeryLongMemberName: bool, val firstVeryLongMemberName: int) { function f(s: St): int = { let { a } = s; a }
  function g(): St = St.init(true, 3) }
class Ar { function g(a: int): int = a
  function f(): int = Ar.g(1, 2) + Ar.g(true) }
class Du { function f(a: int, a: int): int = a }
class Du { }
class Un<T>(N, S(T)) { function f(): int = { let x = Un.N(); 1 } }
class Or(Ci(int), Re(int, int), Em) { function f(s: Or): int = match s { Ci(r) | Re(w, h) -> 1, Em -> 0 }
  function g(s: Or): int = match s { Re(w, h) | Ci(r) -> 2, Em -> 0 } }
interface It2 { method <A, B> m(a: A, b: B): int }
class Cn2 : It2 { method <B, A> m(a: B, b: A): int = 1 }
interface Ca1 : Cb1 { }
interface Cb1 : Ca1 { }
interface Fi { function notAllowed(): int }
"""


def cov_family():
    """Deterministic (seed-independent) programs for code the random streams do not reach (round 5,
    coverage/C12.txt): every `ErrorDetail` kind's rendering (BuiltinMemberAsValue, IncompatibleTypeKind,
    IncompatibleSubType, MissingExport, TypeParametersArity, TypeParameterNameMismatch, nested stacked
    incompatibilities, multi-argument descriptions), > 20 diagnostics spread over 3-4 modules whose
    name order differs from every allocation order tried (stable by-name sort, class of seeded C12d),
    and lowering paths (`!`, constant `&&`/`||`, literal `::`, `/`, constant `if`, nested and or-patterns,
    `if let`, `this`-capturing lambdas, bounded generics instantiated with generic classes, `Vec`)."""
    fam = [dict(sources=dict(COV_ACCEPTED), entry="Main", std=True, kind="accepted", label="cov-accepted")]
    names = ["Zeta", "alpha.ModuleWithLongNameBeta", "Mid", "ModuleWithLongNameAlpha"]
    src = {}
    for k, m in enumerate(names):
        other = names[(k + 1) % len(names)]
        src[m] = f"import {{ Nope{k}, Sup }} from {other};\nimport {{ Gone }} from Not.There{k};\n" + COV_ERR_BODY
    fam.append(dict(sources=src, entry="Zeta", std=False, kind="rejected", label="cov-rejected-4-modules"))
    two = {"Zz": "import { Nope } from Aa;\n" + COV_ERR_BODY + "class Sz { function f(): int = 1 + + ; function g(: int = 2 }\n",
           "Aa": COV_ERR_BODY + "class Sy { function f(): int = }\nclass Sz { function f(): int = 1 + + ; function g(: int = 2 }\n"}
    fam.append(dict(sources=two, entry="Zz", std=True, kind="rejected", label="cov-rejected-2-modules"))
    fam.append(dict(sources={"Zz": "class Zz {}\n", "ModuleWithLongNameAlpha": "class Q {}\n"}, entry="Zz", std=False, kind="rejected",
                    missing_entry="not.ThereAtAllWithLongName", label="cov-invalid-entry-point"))
    return fam


def loop_family():
    """Deterministic family for the temp-number discipline across phase boundaries (round 5, class of
    seeded C12e): several tail-recursive (loop) functions, the later ones with 3-5 closure calls per
    iteration (LIR lowering needs two temporaries per closure call), an earlier long loop function
    without closure calls, lambdas with and without captures."""
    def prints(n, v):
        return "".join(f"      let _ = Process.println(Str.fromInt({v} + {k}));\n" for k in range(1, n + 1))
    fam = []
    for variant, (na, nclos) in enumerate([(12, 3), (4, 5), (20, 3)]):
        clos_params = ", ".join(f"f{j}: (int) -> int" for j in range(nclos))
        clos_calls = " + ".join(f"f{j}(i)" for j in range(nclos))
        clos_pass = ", ".join(f"f{j}" for j in range(nclos))
        lambdas = ", ".join(["(x) -> x * 2", "(x) -> x + 5", "(x) -> x * x", "(x) -> x - k", "(x) -> k * x + 1"][:nclos])
        text = ("class Main {\n"
                f"  function aaa(i: int, acc: int): int =\n    if i >= 3 {{\n      acc\n    }} else {{\n{prints(na, 'acc')}      Main.aaa(i + 1, acc + i)\n    }}\n"
                f"  function bbb(i: int, acc: int, {clos_params}): int =\n    if i >= 4 {{\n      acc\n    }} else {{\n{prints(2, 'acc')}      Main.bbb(i + 1, acc + {clos_calls}, {clos_pass})\n    }}\n"
                f"  function ccc(i: int, acc: int, g: (int) -> int): int = if i * i > 50 {{ acc }} else {{ Main.ccc(i + 2, acc + g(acc) + g(i) + g(i + 1), g) }}\n"
                "  function main(): unit = {\n    let k = 3;\n"
                "    let _ = Process.println(Str.fromInt(Main.aaa(0, 0)));\n"
                f"    let _ = Process.println(Str.fromInt(Main.bbb(0, 0, {lambdas})));\n"
                "    let _ = Process.println(Str.fromInt(Main.ccc(0, 1, (x) -> x % 7 + k)));\n  }\n}\n")
        fam.append(dict(sources={"Main": text}, entry="Main", std=False, kind="accepted", label=f"loops-{variant}"))
    return fam


TEMP_RE = re.compile(r"(?<![A-Za-z0-9$])_t(\d+)")


def temp_indices(text):
    return [int(x) for x in TEMP_RE.findall(text)]


def ts_duplicate_declarations(ts):
    """`let x` declared twice in the same block of the emitted TS (a SyntaxError when loaded)."""
    dups, stack = [], [set()]
    for tok in re.finditer(r"[{}]|\blet\s+([A-Za-z_$][A-Za-z0-9_$]*)|'(?:[^'\\\\]|\\\\.)*'|\"(?:[^\"\\\\]|\\\\.)*\"|`[^`]*`", ts):
        t = tok.group(0)
        if t == "{":
            stack.append(set())
        elif t == "}":
            if len(stack) > 1:
                stack.pop()
        elif tok.group(1):
            if tok.group(1) in stack[-1]:
                dups.append(tok.group(1))
            stack[-1].add(tok.group(1))
    return dups


def discipline_violations(a):
    """Checks on one process answer (deterministic, no race needed):
    (1) heap length handed to the next phase > every temp number present in the optimised MIR, and
        after LIR lowering > every temp number in the emitted code;
    (2) sync discipline from the heap hook: every created counter is synced before the heap issues
        a temp again / another counter is created;
    (3) no `let` declared twice in one block of the emitted TS."""
    out = []
    hl = a.get("heap_lens")
    if hl and "mir1" in a:
        m1 = max(temp_indices(a["mir1"]) or [-1])
        if m1 >= hl[1]:
            out.append(f"optimize_sources returned with heap length {hl[1]} although the optimised MIR contains the temp _t{m1}: the next phase will issue that number again")
        m2 = max(temp_indices(a.get("lir_ts", "")) or [-1])
        if m2 >= hl[2]:
            out.append(f"compile_mir_to_lir returned with heap length {hl[2]} although the emitted code contains _t{m2}")
    log = a.get("counter_log")
    if log is not None:
        open_counter = None
        for ev in [e for e in log.split(",") if e]:
            if ev[0] == "c":
                if open_counter is not None:
                    out.append(f"a temp counter created at {open_counter} was never synced before the next counter was created"); break
                open_counter = ev[1:]
            elif ev[0] == "s":
                open_counter = None
            elif ev[0] == "t" and open_counter is not None:
                out.append(f"heap.alloc_temp_str was called while the counter created at {open_counter} had not been synced (sync_temp_counter missing at a phase boundary)"); break
    for key in ("ts", "lir_ts"):
        d = ts_duplicate_declarations(a.get(key) or "")
        if d:
            out.append(f"emitted TS declares {d[0]} twice in one block"); break
    return out


# --------------------------------------------------------------------------- known findings

F1_PROBE = {"sources": {"A": "class A { function f(): int = true }\n", "B": "class B { function g(): bool = 3 }\n"},
            "entry": "A", "std": False}
F2_PROBE = {"sources": {
    "MA": "class E(Short(int), VeryLongVariantNameOne(int), VeryLongVariantNameTwo(int)) {\n  function f(e: E): int = match (e) { Short(_) -> 1 }\n}\n",
    "MB": "class F(VeryLongVariantNameTwo(int), VeryLongVariantNameOne(int)) {}\n"}, "entry": "MA", "std": False}
F3_PROBE = {"sources": {
    "T": "class A(NilA, ConsA(B)) {\n  method tag(): int = match (this) { NilA -> 0, ConsA(_) -> 1 }\n}\nclass B(NilB, ConsB(A)) {\n  method tag(): int = match (this) { NilB -> 0, ConsB(_) -> 1 }\n}\n",
    "M1": "import {A, B} from T;\nclass Main {\n  function main(): unit = {\n    let a = A.ConsA(B.NilB());\n    let b = B.ConsB(A.NilA());\n    let _ = Process.println(Str.fromInt(a.tag()));\n    let _ = Process.println(Str.fromInt(b.tag()));\n  }\n}\n",
    "M2": "import {A, B} from T;\nclass Main {\n  function main(): unit = {\n    let b = B.ConsB(A.NilA());\n    let a = A.ConsA(B.NilB());\n    let _ = Process.println(Str.fromInt(b.tag()));\n    let _ = Process.println(Str.fromInt(a.tag()));\n  }\n}\n"},
    "entry": "M1", "std": False}
F4_PROBE = {"sources": {"M": "interface I { method a(): int method b(): int method c(): int }\nclass C : I { }\n"},
            "entry": "M", "std": False}


def long_shared_idents(prog):
    """identifiers of >= 16 bytes occurring in at least two modules (heap strings whose allocation
    order depends on which module is parsed first)."""
    per = [set(re.findall(r"[A-Za-z_][A-Za-z0-9_]{15,}", t)) for t in prog["sources"].values()]
    out = set()
    for a in range(len(per)):
        for b in range(a + 1, len(per)):
            out |= per[a] & per[b]
    return out


def has_mutual_single_field_enums(prog):
    text = "\n".join(prog["sources"].values())
    enums = {}
    for m in re.finditer(r"class\s+(\w+)(?:<[^>]*>)?\s*\(([^{}]*?)\)\s*(?:\{|:|$|\n)", text):
        enums[m.group(1)] = re.findall(r"\w+\(\s*(\w+)\s*\)", m.group(2))
    return any(b in enums and a in enums[b] for a, fs in enums.items() for b in fs)


def n_mains(prog):
    return sum(1 for t in prog["sources"].values() if re.search(r"class\s+Main\b", t) and "function main()" in t)


def classify_diag_diff(ctx, prog, answers, orders):
    """All four findings C12-F1..F4 are fixed: no open finding covers a difference in verdict or
    rendered diagnostics (a regression is a violation)."""
    return None


def classify_behaviour_diff(ctx, prog, answers):
    """C12-F3 is fixed (e715c2f + 15327a3): no open finding covers a behaviour / layout difference."""
    return None

# --------------------------------------------------------------------------- checking one program

def behaviour(a):
    return (a.get("verdict"), json.dumps(a.get("wasm"), sort_keys=True), json.dumps(a.get("tsrun"), sort_keys=True))


def orders_for(rng, prog, n, permute):
    mods = list(prog["sources"])
    base = sorted(mods)
    out = [base]
    for _ in range(n - 1):
        out.append(rng.shuffle(base) if permute else base)
    return out


def check_program(ctx, prog, rng, nproc, stats, label, shrink=True):
    """Compile `prog` in nproc fresh processes; compare. Returns True if clean (or only known)."""
    accepted_expected = prog.get("kind") == "accepted"
    orders = orders_for(rng, prog, nproc, True)
    if not accepted_expected and nproc > 3:
        # diagnostics leg: half of the processes share one allocation order (pure hash-seed / thread
        # exploration), the others use permuted orders
        orders = [orders[0]] * (nproc // 2) + orders[nproc // 2:]
    jobs = []
    for k, o in enumerate(orders):
        jobs.append((mk_req(prog, o, run=True, mir=True, std_last=(k % 3 == 2)), THREADS[k % len(THREADS)]))
    answers = run_configs(jobs)
    stats["evaluations"] += len(answers)
    stats["verdicts"][answers[0].get("verdict", "?")] = stats["verdicts"].get(answers[0].get("verdict", "?"), 0) + 1
    res = compare(ctx, prog, answers, orders, stats)
    if res is None:
        return True, answers
    what, finding = res
    if finding is not None:
        ctx.known(finding)
        stats["known"][finding["id"]] = stats["known"].get(finding["id"], 0) + 1
        return True, answers
    # unknown failure: shrink (drop modules, then lines) while fresh processes still disagree
    small = prog
    if shrink:
        small = shrink_prog(ctx, prog, rng)
    o2 = orders_for(rng, small, 10, True)
    a2 = run_configs([(mk_req(small, o, run=True, mir=False), THREADS[k % len(THREADS)]) for k, o in enumerate(o2)])
    r2 = compare(ctx, small, a2, o2, None)
    if r2 is None or r2[1] is not None:
        small, o2, a2 = prog, orders, answers
        r2 = res
    payload = {"protocol": "fresh-process compile", "label": label, "sources": small["sources"], "entry": small["entry"],
               "std": small.get("std", True), "what": r2[0],
               "runs": [{"order": o, "threads": THREADS[k % len(THREADS)], "verdict": a.get("verdict"),
                         "diag": a.get("diag", "")[:3000], "wasm": a.get("wasm"), "ts": a.get("tsrun")}
                        for k, (o, a) in enumerate(zip(o2, a2))][:10]}
    internal = r2[0].startswith(("enum layouts differ", "unoptimised MIR differs", "order of the specialisation roots"))
    if internal:
        # no observable difference on this program: the tie to layout_sorted_roots_perm_invariant /
        # mir_rename_invariant_full is broken, a behaviour-level failing input was not found
        payload["broken"] = "fresh-process MIR correspondence (enum layouts / MIR up to renaming)"
    ctx.violation("identical sources, different compilation result across fresh processes: " + r2[0], payload, no_input=internal)
    cdir = os.path.join(common.VERIF, "corpus", "C12")
    os.makedirs(cdir, exist_ok=True)
    return False, answers


def compare(ctx, prog, answers, orders, stats):
    """None if all processes agree on everything observable; else (what, finding-or-None)."""
    for a in answers:
        if a.get("verdict") in ("died", "timeout", "bad-input"):
            return (f"harness process failed: {a.get('verdict')} {a.get('diag', '')[:200]}", None)
    for a in answers:
        if a.get("verdict") == "panic":     # line/offset numbers inside a panic message are not diagnostics
            a["diag"] = re.sub(r"\d+", "#", a.get("diag", ""))[:160]
    if len({(a["verdict"], a.get("diag", "")) for a in answers}) > 1:
        f = classify_diag_diff(ctx, prog, answers, orders)
        vs = sorted({a["verdict"] for a in answers})
        return (("verdict differs: " + "/".join(vs)) if len(vs) > 1 else "rendered diagnostics differ", f)
    if answers[0]["verdict"] == "panic":
        return None      # a compiler panic is C05's business; here it is the same in every process
    if answers[0]["verdict"] != "ok":
        if stats is not None:
            for b in blocks(answers[0]["diag"]):
                k = block_kind(b)
                stats["error_kinds"][k] = stats["error_kinds"].get(k, 0) + 1
            stats["diag_blocks"] += len(blocks(answers[0]["diag"]))
        return None
    for a in answers:
        dv = discipline_violations(a)
        if dv:
            return ("temp-number discipline broken: " + dv[0], None)
    if len({behaviour(a) for a in answers}) > 1:
        return ("behaviour of the emitted program differs", classify_behaviour_diff(ctx, prog, answers))
    if answers[0].get("wasm", {}).get("end", "").startswith("no-node"):
        if stats is not None:
            stats["no_node"] += 1
    # enum layouts + MIR up to renaming
    with_mir = [a for a in answers if "mir0" in a]
    if len(with_mir) >= 2:
        c0 = [canon_mir(a["mir0"]) for a in with_mir]
        c1 = [canon_mir(a["mir1"]) for a in with_mir]
        mc = any(multi_capture(a["mir0"]) for a in with_mir)
        eq0, eq1 = len(set(c0)) == 1, len(set(c1)) == 1
        if stats is not None:
            stats["mir0_equal" if eq0 else ("mir0_differs_multicapture" if mc else "mir0_differs")] += 1
            stats["mir1_equal" if eq1 else ("mir1_differs_multicapture" if mc else "mir1_differs")] += 1
            stats["traces"] += len(with_mir)
        roots = {re.search(r"(?m)^sources\.mains = .*$", a["mir0"]).group(0) if "sources.mains" in a["mir0"] else "" for a in with_mir}
        if len(roots) > 1:
            return ("order of the specialisation roots (sources.mains) differs between processes: " + " | ".join(sorted(roots))[:300],
                    classify_behaviour_diff(ctx, prog, answers))
        lay = {tuple(variant_lines(a["mir0"])) for a in with_mir}
        if len(lay) > 1:
            # enum layouts (by type name) must be the same in every process, multi-capture or not
            return ("enum layouts differ between processes (same behaviour on this program)",
                    classify_behaviour_diff(ctx, prog, answers))
        if not eq0 and not mc:
            lay = {tuple(variant_lines(a["mir0"])) for a in with_mir}
            f = classify_behaviour_diff(ctx, prog, answers)
            if len(lay) > 1:
                return ("enum layouts differ between processes (same behaviour on this program)", f)
            return ("unoptimised MIR differs by more than a bijective renaming", f)
    return None


def shrink_prog(ctx, prog, rng):
    def fails(p):
        if p["entry"] not in p["sources"]:
            return False
        o = orders_for(rng, p, 8, True)
        a = run_configs([(mk_req(p, x, run=True, mir=False), THREADS[k % len(THREADS)]) for k, x in enumerate(o)])
        r = compare(ctx, p, a, o, None)
        return r is not None and r[1] is None
    mods = list(prog["sources"])
    keep = common.ddmin(mods, lambda ms: fails(dict(prog, sources={m: prog["sources"][m] for m in ms})), 30)
    cur = dict(prog, sources={m: prog["sources"][m] for m in keep})
    if not fails(cur):
        return prog
    for m in list(cur["sources"]):
        lines = cur["sources"][m].split("\n")
        kept = common.ddmin(lines, lambda ls: fails(dict(cur, sources=dict(cur["sources"], **{m: "\n".join(ls)}))), 40)
        cand = dict(cur, sources=dict(cur["sources"], **{m: "\n".join(kept)}))
        if fails(cand):
            cur = cand
    return cur

# --------------------------------------------------------------------------- errset protocol

def gen_errset_line(rng):
    nm = rng.range(1, 4)
    ns = rng.range(0, 3)
    M = rng.shuffle(list(range(nm)))
    S = rng.shuffle(list(range(ns)))
    def pstr():
        if ns and rng.chance(1, 3):
            return f"h{rng.below(ns)}"
        n = rng.pick([0, 1, 1, 2, 3, 15])
        return "i" + hexs(bytes(rng.range(97, 100) for _ in range(n))) if n else "i-"
    def err():
        m = rng.below(nm)
        sl, sc = rng.range(1, 3), rng.range(1, 4)
        el, ec = sl + rng.below(2), sc + rng.range(0, 3)
        rank = rng.pick([0, 2, 3, 3, 6, 9, 10, 10, 14, 16, 16, 21, 22])
        if rank == 0:
            atoms = [f"m{rng.below(nm)}", pstr()]
        elif rank == 2:
            atoms = [f"m{rng.below(nm)}"]
        elif rank == 3:
            atoms = [pstr()]
        elif rank == 9:
            atoms = ["i" + hexs(bytes(rng.range(97, 99) for _ in range(rng.range(1, 20))))]
        elif rank == 10:
            atoms = [pstr() for _ in range(rng.range(0, 3))]
        elif rank == 14:
            atoms = [f"n{rng.range(0, 3)}", f"n{rng.range(0, 3)}"]
        elif rank == 16:    # a Description chain: NominalType{name, [..]} nested 0-3 deep, ending in Int / Bool / Class / nothing
            atoms = []
            for _ in range(rng.range(0, 3)):
                atoms += ["n13", pstr()]
            atoms += rng.pick([["n1"], ["n2"], ["n12", pstr()], []]) if atoms else rng.pick([["n1"], ["n2"], ["n12", pstr()]])
        elif rank == 22:
            atoms = [f"n{rng.below(2)}"]
        else:
            atoms = []
        return f"{m}.{sl}.{sc}.{el}.{ec}.{rank}." + ("+".join(atoms) if atoms else "-")
    groups = []
    pool = [err() for _ in range(rng.range(1, 6))]
    for _ in range(rng.range(1, 4)):
        groups.append([rng.pick(pool) if rng.chance(1, 2) else err() for _ in range(rng.range(0, 4))])
    fmt = lambda gs: ";".join(",".join(g) if g else "-" for g in gs)
    ms = ",".join(map(str, M)); ss = ",".join(map(str, S)) if S else "-"
    ms2 = ",".join(map(str, rng.shuffle(M)))      # another allocation order of the same modules
    return [f"merge {ms} {ss} {fmt(groups)}", f"merge {ms} {ss} {fmt(rng.shuffle(groups))}",
            f"merge {ms} {ss} {fmt([rng.shuffle([e for g in groups for e in g])])}",
            f"mergen {ms} {ss} {fmt(groups)}", f"mergen {ms2} {ss} {fmt(rng.shuffle(groups))}"]


def big_errset_lines():
    """Deterministic family (blocks of 5 like the generated ones): 24-90 errors over 2-4 modules, every
    location carries 2-3 errors of different kinds / atoms (ties on the position, decided by the detail),
    allocation orders that are not the name order (stable by-name sort: class of seeded C12d)."""
    out = []
    for nm, per, allocs in [(2, 17, ("1,0", "0,1")), (3, 8, ("2,0,1", "1,2,0")), (4, 22, ("3,1,0,2", "2,3,1,0")), (3, 12, ("0,2,1", "2,1,0"))]:
        errs = []
        for m in range(nm):
            for j in range(per):
                loc = f"{m}.{1 + j // 3}.{1 + j % 2}.{1 + j // 3}.{3 + j % 2}"
                errs += [f"{loc}.3.i{(97 + j % 5):02x}", f"{loc}.21.-", f"{loc}.3.h{j % 2}", f"{loc}.10.i61+h{(j + 1) % 2}", f"{loc}.14.n{j % 3}+n1"][: 2 + j % 3]
        # modules interleaved in the groups
        groups = [errs[i::3] for i in range(3)]
        fmt = lambda gs: ";".join(",".join(g) if g else "-" for g in gs)
        a1, a2 = allocs
        out += [f"merge {a1} 1,0 {fmt(groups)}", f"merge {a1} 1,0 {fmt(list(reversed(groups)))}", f"merge {a1} 1,0 {fmt([errs[::-1]])}",
                f"mergen {a1} 1,0 {fmt(groups)}", f"mergen {a2} 1,0 {fmt(list(reversed(groups)))}"]
    return out


def py_key(spec, M, S):
    f = spec.split(".")
    atoms = [] if f[6] == "-" else f[6].split("+")
    def ak(a):
        if a[0] == "n":
            return (0, int(a[1:]))
        if a[0] == "m":
            return (1, 1, M.index(int(a[1:])))
        if a[0] == "h":
            return (1, 1, S.index(int(a[1:])))
        return (1, 0, b"" if a[1:] == "-" else bytes.fromhex(a[1:]))
    return (M.index(int(f[0])), int(f[1]), int(f[2]), int(f[3]), int(f[4]), int(f[5]), [ak(a) for a in atoms])


def errset_leg(ctx, stats):
    rng = ctx.rng.fork()
    n = ctx.scale(300, 6000)
    lines = []
    for _ in range(n):
        lines += gen_errset_line(rng)
    lines = big_errset_lines() + lines
    impl, model = common.run_pair("C12", lines, args=("errset",))
    stats["errset_lines"] = len(lines)
    bad = None
    for i, l in enumerate(lines):
        a = impl[i] if i < len(impl) else "<missing>"
        b = model[i] if i < len(model) else "<missing>"
        t = l.split(" ")
        M = [int(x) for x in t[1].split(",")]; S = [] if t[2] == "-" else [int(x) for x in t[2].split(",")]
        uniq = {e for g in t[3].split(";") if g != "-" for e in g.split(",")}
        if t[0] == "mergen":
            # report in module-name order: independent of the allocation order M of the modules
            # (module-internal order: position, then detail; details only tie-break equal positions)
            def tok(f):
                tag = f[5] if f[5] != "3" else "3#" + f[6]
                return "M{}.sam:{}:{}-{}:{}#{}".format(f[0], *(int(x) + 1 for x in f[1:5]), tag)
            # module-name order, then the set order inside a module (allocation ids of modules play no role there)
            inner = lambda e: py_key(e, M, S)[1:]
            want = ",".join(tok(e.split(".")) for e in sorted(uniq, key=lambda e: (int(e.split(".")[0]), inner(e))))
            if a != (want if want else "-"):
                bad = ("oracle-by-name", i, a, want); break
            if i % 5 == 4 and a != impl[i - 1]:
                bad = ("module-allocation-order", i, a, impl[i - 1]); break
        else:
            specs = sorted(uniq, key=lambda s_: py_key(s_, M, S))
            want = ",".join(specs) if specs else "-"
            if a != want:
                bad = ("oracle", i, a, want); break
            if i % 5 in (1, 2) and a != impl[i - (i % 5)]:
                bad = ("merge-order", i, a, impl[i - (i % 5)]); break
        if a != b:
            bad = ("model", i, a, b); break
    if bad is None:
        stats["errset_ok"] = len(lines)
        return
    kind, i, got, want = bad
    payload = {"protocol": "errset", "line": lines[i], "impl": got, "expected": want, "kind": kind}
    if kind == "model":
        ctx.violation("model/implementation disagreement on protocol errset (Model/ErrorSet.lean vs samlang_errors::ErrorSet)",
                      dict(payload, broken="correspondence errset"), no_input=True)
    else:
        ctx.violation("samlang_errors::ErrorSet: merged order is not the sorted duplicate-free union / depends on the merge order / the by-name report depends on the allocation order of the modules", payload)

# --------------------------------------------------------------------------- layout protocol

def gen_layout_case(rng):
    """2-5 type definitions (enums and structs) referring to each other; one Main.main that first
    mentions them in a chosen order (through the parameter annotation of an unused lambda, which
    works for types without constructible values too)."""
    k = rng.range(2, 5)
    defs = []
    nested = rng.chance(1, 2)
    if nested:
        # nesting shape for the in-progress bookkeeping: while type 0 is in progress, type 1 starts and
        # finishes; type 2 has a single one-field data variant over a type that is still in progress
        k = rng.range(3, 4)
        inner = rng.pick(["0", "0", "1"])
        first = [[rng.pick(["1", "1", "3" if k == 4 else "1"])], [rng.pick(["2", "2", "i"])]]
        if rng.chance(1, 3):
            first.reverse()
        if rng.chance(2, 3):
            first.insert(rng.below(3), [])
        defs.append(("s", [x[0] for x in first if x]) if rng.chance(1, 6) else ("e", first))
        b = [[rng.pick(["i", "i", "0", "2"])] for _ in range(rng.range(0, 2))]
        b.insert(rng.below(len(b) + 1), [])
        defs.append(("e", b))
        c = [[inner]]
        if rng.chance(2, 3):
            c.insert(rng.below(2), [])
        defs.append(("e", c))
    for i in range(len(defs), k):
        ref = lambda: rng.pick(["i"] + [str(j) for j in range(k)] * 2)
        if rng.chance(1, 3):
            defs.append(("s", [ref() for _ in range(rng.range(1, 3))]))
            continue
        nv = rng.range(1, 3)
        variants = []
        for _ in range(nv):
            nf = rng.weighted([(1, 5), (2, 2)])
            variants.append([ref() for _ in range(nf)])
        if rng.chance(3, 4):
            variants.insert(rng.below(len(variants) + 1), [])
        defs.append(("e", variants))
    roots = rng.shuffle(list(range(k)))[:rng.range(1, k)]
    tname = lambda f: "int" if f == "i" else f"E{f}"
    def vsrc(i, vi, fields):
        return f"V{i}x{vi}" + ("(" + ", ".join(tname(f) for f in fields) + ")" if fields else "")
    classes = ""
    for i, (kind, body) in enumerate(defs):
        if kind == "s":
            classes += f"class E{i}({', '.join(f'val f{fi}: {tname(f)}' for fi, f in enumerate(body))}) {{}}\n"
        else:
            classes += f"class E{i}({', '.join(vsrc(i, vi, f) for vi, f in enumerate(body))}) {{}}\n"
    body = " ".join(f"let _ = (x{r}: E{r}) -> 0;" for r in roots)
    text = classes + f"class Main {{\n  function main(): unit = {{ {body} }}\n}}\n"
    parts = []
    for i, (kind, b) in enumerate(defs):
        if kind == "s":
            parts.append(f"{i}=" + "+".join(b))
        else:
            parts.append(f"{i}:" + "|".join("+".join(f) if f else "-" for f in b))
    line = "layout " + ";".join(parts) + " " + ",".join(map(str, roots))
    return {"sources": {"Main": text}, "entry": "Main", "std": False}, line, k


def real_layouts(mir0, k):
    out = []
    for i in range(k):
        if re.search(rf"(?m)^object type Main_E{i} = ", mir0):
            out.append(f"{i}:s"); continue
        m = re.search(rf"(?m)^variant type Main_E{i} = \[(.*)\]$", mir0)
        if not m:
            out.append(f"{i}:?"); continue
        items = re.findall(r"i31|Unboxed\([^)]*\)|Boxed\([^)]*\)", m.group(1))
        out.append(f"{i}:" + ",".join("i" if x == "i31" else ("u" if x.startswith("U") else "b") for x in items))
    return " ".join(out)


def layout_leg(ctx, stats):
    rng = ctx.rng.fork()
    n = ctx.scale(160, 1200)
    cases = [gen_layout_case(rng) for _ in range(n)]
    answers = run_configs([(mk_req(p, ["Main"], mir=True), THREADS[i % len(THREADS)]) for i, (p, _, _) in enumerate(cases)])
    stats["evaluations"] += n
    rc, model, err = common.run_exec(common.driver_bin("C12"), [], [l for _, l, _ in cases])
    ok = 0
    for (p, line, k), a, m in zip(cases, answers, model + ["<missing>"] * n):
        if a.get("verdict") != "ok" or "mir0" not in a:
            stats["layout_skipped"] = stats.get("layout_skipped", 0) + 1
            continue
        real = real_layouts(a["mir0"], k)
        # a type absent from the dump was never demanded (`?` in the model too) or was merged into
        # a structurally identical one by mir_type_deduplication (then only the survivor is compared)
        pairs = [(x, y) for x, y in zip(real.split(" "), m.split(" ")) if not x.endswith("?")]
        if any(x != y for x, y in pairs):
            ctx.violation("model/implementation disagreement on protocol layout (Model/Layout.lean vs mir_generics_specialization.rs enum layout choice)",
                          {"protocol": "layout", "line": line, "sources": p["sources"], "impl": real, "model": m,
                           "broken": "correspondence layout"}, no_input=True)
            return
        ok += 1
    stats["layout_ok"] = ok

# --------------------------------------------------------------------------- counterexample search under permuted constructor maps

def cex_leg(ctx, stats):
    """The exhaustiveness counterexample search (pattern_matching.rs incomplete_counterexample) walks a
    HashMap of root constructors.  Reuses C07's case generator, harness (real parser + checker on one
    generated module) and model driver: every case is checked 3 times per process (every check builds
    its HashMaps with fresh RandomState keys) in 4 fresh processes; all 12 answers must be identical;
    agreement with the Lean model of C07 (Model/Useful.lean, deterministic sorted walk) is counted."""
    try:
        from . import c07
    except Exception as ex:
        stats["cex_skipped"] = f"vlib/c07.py cannot be imported ({type(ex).__name__})"
        return
    try:
        common.build_harness("C07")
        ok, _ = common.build_lean(["drv-c07"])
    except common.BuildError:
        ok = False
    if not ok or not os.path.exists(common.harness_bin("C07")):
        stats["cex_skipped"] = "C07 harness/driver unavailable"
        return
    rng = ctx.rng.fork()
    n = ctx.scale(100, 2500)
    cases = [c07.gen_case(rng.fork()) for _ in range(n)]
    lines = [c07.case_line(c) for c in cases]
    rep = [l for l in lines for _ in range(3)]
    def one(_):
        return common.run_exec(common.harness_bin("C07"), [], rep)[1]
    with cf.ThreadPoolExecutor(max_workers=4) as ex:
        outs = list(ex.map(one, range(4)))
    rc, model, err = common.run_exec(common.driver_bin("C07"), [], lines)
    agree = differ = nonexh = 0
    for i, case in enumerate(cases):
        answers = {o[3 * i + k] if 3 * i + k < len(o) else "<missing>" for o in outs for k in range(3)}
        if len(answers) > 1:
            ctx.violation("the checker's answer for one module differs between repetitions / fresh processes (exhaustiveness counterexample search over a HashMap of root constructors)",
                          {"protocol": "cex", "source": c07.render_case(case), "answers": sorted(answers)})
            return
        iv = c07.impl_verdict(next(iter(answers)))
        if iv.get("nonexh") is not None:
            nonexh += 1
            mv = c07.model_verdict(model[i]) if i < len(model) else {}
            if mv.get("nonexh") == iv["nonexh"]:
                agree += 1
            else:
                differ += 1
    stats["evaluations"] += 12 * n
    stats["cex"] = {"cases": n, "non_exhaustive": nonexh, "answers_compared_per_case": 12,
                    "model_agrees": agree, "model_differs_(C07's business)": differ}

# --------------------------------------------------------------------------- parse order of the modules

NAME_PARTS_SHORT = ["A", "B", "lib", "pkg", "Zeta", "m", "fifteenByteName"]          # <= 15 bytes (inline PStr)
NAME_PARTS_LONG = ["ModuleWithLongNameAlpha", "ModuleWithLongNameBeta", "sixteenByteNameX",
                   "AnotherVeryLongPackageName", "ModuleWithLongName"]                 # > 15 bytes (heap PStr)


def gen_module_names(rng, n, importable=True):
    """n distinct dotted module names mixing inline (<= 15 bytes) and heap (> 15 bytes) parts. Every
    set contains prefix-related families (`X`, `X.Y`, `X.Y.Z`, `X.X`: part-wise and whole-string
    comparison differ there: a part-wise zip without length comparison ties) and, for modules that
    nobody imports (`importable=False`), pairs on which printed-name order and part-wise order
    disagree (`A-B` < `A.B` as strings because `-` < `.`, but `A` < `A-B` part-wise)."""
    out = []
    def add(x):
        if x not in out and len(out) < n:
            out.append(x)
    base = rng.pick(NAME_PARTS_LONG if rng.chance(1, 2) else NAME_PARTS_SHORT)
    sub = rng.pick(NAME_PARTS_SHORT + NAME_PARTS_LONG)
    fam = rng.pick([[base, f"{base}.{sub}"], [base, f"{base}.{base}"], [f"{base}.{sub}", f"{base}.{sub}.{rng.pick(NAME_PARTS_SHORT)}", base],
                    [f"pkg.{base}", f"pkg.{base}.{sub}"]])
    if not importable and rng.chance(1, 2):
        fam = fam + [f"{base}-{sub}"]
    for x in rng.shuffle(fam):
        add(x)
    while len(out) < n:
        k = rng.weighted([(1, 5), (2, 3), (3, 1)])
        parts = [rng.pick(NAME_PARTS_LONG if rng.chance(1, 2) else NAME_PARTS_SHORT) for _ in range(k)]
        if rng.chance(1, 4):
            parts[-1] += str(rng.below(3))
        add(".".join(parts))
    return rng.shuffle(out)


def ordkey_leg(ctx, stats):
    """Asks the real `compile_sources` in which order it parses N modules (read off the heap call
    log) under two allocation orders of the module references: the order must be the same, and be
    the name order of Model/ModuleOrder.lean (`orderByName`) and of an independent Python sort."""
    rng = ctx.rng.fork()
    n = ctx.scale(60, 600)
    lines, mlines = [], []
    for _ in range(n):
        names = gen_module_names(rng, rng.range(2, 6), importable=False)
        hx = ";".join(hexs(x) for x in names)
        idx = list(range(len(names)))
        lines += [f"po {','.join(map(str, rng.shuffle(idx)))} {hx}", f"po {','.join(map(str, rng.shuffle(idx)))} {hx}"]
        mlines.append(f"pord {hx}")
    rc, impl, err = common.run_exec(BIN(), ["ordkey"], lines)
    rc2, model, err2 = common.run_exec(common.driver_bin("C12"), [], mlines)
    long_cases = 0
    for i, ml in enumerate(mlines):
        names = [common.unhex(h).decode() for h in ml.split(" ")[1].split(";")]
        a1 = impl[2 * i] if 2 * i < len(impl) else "<missing>"
        a2 = impl[2 * i + 1] if 2 * i + 1 < len(impl) else "<missing>"
        want = ",".join(str(k) for k in sorted(range(len(names)), key=lambda k: names[k].encode()))
        if sum(1 for x in names if any(len(p_) > 15 for p_ in x.split("."))) >= 2:
            long_cases += 1
        payload = {"protocol": "ordkey", "module_names": names, "lines": lines[2 * i:2 * i + 2], "parse_orders": [a1, a2],
                   "name_order": want, "model": model[i] if i < len(model) else "<missing>"}
        if a1 != a2:
            ctx.violation("compile_sources parses the same modules in a different order when their module references are allocated in a different order "
                          "(the parse order decides heap string ids and thereby PStr-ordered diagnostics)", payload)
            return
        if a1 != want:
            ctx.violation("compile_sources does not parse the modules in module-name order", payload)
            return
        if i >= len(model) or model[i] != a1:
            ctx.violation("model/implementation disagreement on protocol ordkey (Model/ModuleOrder.lean vs compile_sources parse order)",
                          dict(payload, broken="correspondence ordkey"), no_input=True)
            return
    stats["ordkey"] = {"name_sets": n, "with_two_or_more_long_named_modules": long_cases}

def encoded_main(name):
    return "_" + name.replace("-", "_").replace(".", "$") + "_Main$main"


def lowering_order_leg(ctx, stats):
    """The order in which HIR lowering walks the modules = the order of the specialisation roots =
    `sources.mains` of the MIR dump when every module defines Main.main.  For generated name sets
    (always with prefix-related and `-`/`.` families) the order observed in 8 fresh processes (fresh
    HashMap seeds, permuted allocation order, different thread counts) must be identical and be the
    printed-name order (`sSort lexLt`, lowering_order_perm_invariant)."""
    rng = ctx.rng.fork()
    n = ctx.scale(10, 80)
    fixed = [["App", "App.Tools", "Shapes"], ["A", "A.A", "A.A.A", "A.B", "A-B", "AB"],
             ["ModuleWithLongNameAlpha", "ModuleWithLongNameAlpha.ModuleWithLongNameAlpha", "ModuleWithLongNameAlpha.B", "ModuleWithLongName"]]
    sets = fixed + [gen_module_names(rng, rng.range(3, 6), importable=False) for _ in range(n)]
    jobs, meta = [], []
    for names in sets:
        prog = {"sources": {m: f"class Main {{\n  function main(): unit = Process.println(\"{k}\")\n}}\n" for k, m in enumerate(names)},
                "entry": names[0], "std": False}
        for k in range(8):
            jobs.append((mk_req(prog, rng.shuffle(names), mir=True), THREADS[k % len(THREADS)]))
        meta.append(names)
    answers = run_configs(jobs)
    stats["evaluations"] += len(answers)
    for i, names in enumerate(meta):
        got = []
        for a in answers[8 * i:8 * i + 8]:
            m = re.search(r"(?m)^sources\.mains = \[(.*)\]$", a.get("mir0", ""))
            got.append(m.group(1) if m else f"<{a.get('verdict')}: {a.get('diag', '')[:80]}>")
        want = ", ".join(encoded_main(x) for x in sorted(names, key=lambda x: x.encode()))
        payload = {"protocol": "lowering-order", "module_names": names, "observed_root_orders": sorted(set(got)), "printed_name_order": want,
                   "sources": {m: "class Main { function main(): unit = {} }" for m in names}}
        if len(set(got)) > 1:
            ctx.violation("HIR lowering walks the same modules in a different order in different fresh processes (order of the specialisation roots; "
                          "decides synthetic numbering and enum layout choice)", payload)
            return
        if got[0] != want:
            ctx.violation("HIR lowering does not walk the modules in module-name order", payload)
            return
    stats["lowering_order"] = {"name_sets": len(sets), "processes_per_set": 8}

# --------------------------------------------------------------------------- shared temp counter / thread schedule

def tempctr_leg(ctx, stats):
    """Real `TempPStrCounter` drawn from by real threads (harness `tempctr`) vs Model/TempCounter.lean:
    the observed ids give the schedule; the model must reproduce the per-worker names from it, both
    directly (`tempName`) and by renaming the names of the sequential schedule (`renameTo`,
    temp_counter_renaming).  Oracle (no model): ids pairwise distinct, exactly the block
    [start, start+N), increasing per worker."""
    rng = ctx.rng.fork()
    n = ctx.scale(40, 400)
    lines = []
    for _ in range(n):
        k = rng.range(1, 6)
        counts = [rng.pick([0, 1, 2, 5, 20, 60, 200]) for _ in range(k)]
        if sum(counts) == 0:
            counts[0] = 3
        lines.append(f"tc {rng.pick([0, 7, 99, 1000, 99990])} " + ",".join(map(str, counts)))
    rc, impl, err = common.run_exec(BIN(), ["tempctr"], lines)
    mlines, interleaved = [], 0
    for l, a in zip(lines, impl + ["<missing>"] * len(lines)):
        t = l.split(" ")
        start, counts = int(t[1]), [int(x) for x in t[2].split(",")]
        try:
            per = {int(x.split(":")[0]): [int(y) for y in x.split(":")[1].split(",")] for x in a.split(";")}
        except ValueError:
            ctx.violation("TempPStrCounter harness answer malformed", {"protocol": "tempctr", "line": l, "impl": a}, no_input=True)
            return
        ids = sorted((i, w) for w, v in per.items() for i in v)
        ok = ([i for i, _ in ids] == list(range(start, start + sum(counts)))
              and all(per.get(w, []) == sorted(per.get(w, [])) and len(per.get(w, [])) == c for w, c in enumerate(counts)))
        if not ok:
            ctx.violation("TempPStrCounter: names handed out to concurrent workers are not pairwise distinct / not the block [start, start+N) / not increasing per worker",
                          {"protocol": "tempctr", "line": l, "impl": a})
            return
        sched = [w for _, w in ids]
        if any(sched[j] > sched[j + 1] for j in range(len(sched) - 1)):
            interleaved += 1
        mlines.append(f"tc {start} " + ",".join(map(str, sched)))
    rc, model, err = common.run_exec(common.driver_bin("C12"), [], mlines)
    for l, ml, a, m in zip(lines, mlines, impl, model + ["<missing>"] * len(lines)):
        if m != f"{a} | {a} | {a}":
            ctx.violation("model/implementation disagreement on protocol tempctr (Model/TempCounter.lean vs samlang_heap::TempPStrCounter)",
                          {"protocol": "tempctr", "line": l, "schedule_line": ml[:300], "impl": a[:300], "model": m[:600], "broken": "correspondence tempctr"}, no_input=True)
            return
    stats["tempctr"] = {"lines": n, "schedules_not_sequential": interleaved}


def schedule_leg(ctx, stats):
    """Same sources, same allocation order, RAYON_NUM_THREADS 1 vs 16 (fresh processes): behaviour and
    unoptimised MIR must agree (strict, via compare); optimised MIR up to renaming is counted only:
    common_subexpression_elimination.rs hoists common expressions in BTreeSet<BindedValue> order, which
    compares the *text* of temp names (`_t99` > `_t100`), so a pure renaming is not guaranteed."""
    rng = ctx.rng.fork()
    n = ctx.scale(8, 80)
    st = {"programs": 0, "mir1_equal_up_to_renaming": 0, "mir1_differs": 0, "mir1_differs_multicapture": 0}
    for i in range(n):
        if ctx.violations:
            break
        prog = gen_accepted(rng.fork(), 1000 + i)
        order = sorted(prog["sources"])
        answers = run_configs([(mk_req(prog, order, run=True, mir=True), th) for th in (1, 16, 16, 1)])
        stats["evaluations"] += 4
        local = {"error_kinds": {}, "diag_blocks": 0, "no_node": 0, "mir0_equal": 0, "mir0_differs": 0,
                 "mir0_differs_multicapture": 0, "mir1_equal": 0, "mir1_differs": 0, "mir1_differs_multicapture": 0, "traces": 0}
        r = compare(ctx, prog, answers, [order] * 4, local)
        if r is not None and r[1] is None:
            ctx.violation("identical sources and allocation order, RAYON_NUM_THREADS 1 vs 16: " + r[0],
                          {"protocol": "fresh-process compile", "label": f"schedule#{i}", "sources": prog["sources"], "entry": prog["entry"],
                           "std": True, "what": r[0]}, no_input=r[0].startswith(("enum layouts", "unoptimised MIR")))
            break
        st["programs"] += 1
        st["mir1_equal_up_to_renaming"] += local["mir1_equal"]
        st["mir1_differs"] += local["mir1_differs"]
        st["mir1_differs_multicapture"] += local["mir1_differs_multicapture"]
        stats["traces"] += local["traces"]
    stats["schedule"] = st

# --------------------------------------------------------------------------- run / replay

def probes(ctx, stats):
    """One dedicated probe per *open* finding: there is none (C12-F1..F4 fixed; their witnesses are
    corpus inputs that must pass)."""
    return


def load_corpus():
    cdir = os.path.join(common.VERIF, "corpus", "C12")
    out = []
    for f in sorted(os.listdir(cdir)) if os.path.isdir(cdir) else []:
        if f.endswith(".json"):
            d = json.load(open(os.path.join(cdir, f)))
            d["label"] = f"corpus/{f}"
            out.append(d)
    return out


def run(ctx):
    res = common.proof_gate(ctx, None)
    stats = {"evaluations": 0, "verdicts": {}, "known": {}, "error_kinds": {}, "diag_blocks": 0, "no_node": 0,
             "mir0_equal": 0, "mir0_differs": 0, "mir0_differs_multicapture": 0, "mir1_equal": 0,
             "mir1_differs": 0, "mir1_differs_multicapture": 0, "traces": 0, "panics": []}
    if not os.path.exists(BIN()):
        return ctx.finish(res, trusted=common.TRUSTED_COMMON)
    errset_leg(ctx, stats)
    layout_leg(ctx, stats)
    cex_leg(ctx, stats)
    ordkey_leg(ctx, stats)
    lowering_order_leg(ctx, stats)
    tempctr_leg(ctx, stats)
    schedule_leg(ctx, stats)
    rng = ctx.rng
    samples, nontrivial = [], 0
    for prog in load_corpus():
        check_program(ctx, prog, rng.fork(), 10, stats, prog["label"], shrink=False)
    for prog in cov_family():
        check_program(ctx, prog, rng.fork(), 12, stats, prog["label"], shrink=False)
    for prog in loop_family():
        # same allocation order, RAYON_NUM_THREADS 1,2,4,16 three times each
        answers = run_configs([(mk_req(prog, ["Main"], run=True, mir=True), th) for th in (1, 2, 4, 16) * 3])
        stats["evaluations"] += len(answers)
        r = compare(ctx, prog, answers, [["Main"]] * len(answers), stats)
        if r is not None and r[1] is None:
            ctx.violation("loop family (same sources, RAYON_NUM_THREADS 1/2/4/16): " + r[0],
                          {"protocol": "fresh-process compile", "label": prog["label"], "sources": prog["sources"], "entry": "Main", "std": False,
                           "what": r[0], "runs": [{"threads": th, "verdict": a.get("verdict"), "wasm": a.get("wasm"), "ts": a.get("tsrun"),
                                                   "heap_lens": a.get("heap_lens"), "counter_log": a.get("counter_log")} for th, a in zip((1, 2, 4, 16) * 3, answers)][:12]})
    n_acc = ctx.scale(36, 400)
    n_rej = ctx.scale(56, 800)
    n_seed = ctx.scale(16, 120)
    p_acc = ctx.scale(6, 16)
    p_rej = ctx.scale(8, 24)
    n_long = ctx.scale(14, 150)
    plan = ([("acc", i) for i in range(n_acc)] + [("rej", i) for i in range(n_rej)] + [("shape", i) for i in range(n_seed)]
            + [("long", i) for i in range(n_long)])
    for kind, i in plan:
        if len(ctx.violations) >= 3:
            break
        r = rng.fork()
        if kind == "acc":
            prog = gen_accepted(r, i); nproc = p_acc
        elif kind == "rej":
            prog = gen_rejected(r, i); nproc = p_rej
        elif kind == "long":
            prog = gen_rejected_longnames(r, i); nproc = p_rej
        else:
            prog = seed_shape(r, i); nproc = p_rej
        ok, answers = check_program(ctx, prog, r, nproc, stats, f"generated {kind}#{i} seed={ctx.seed}")
        a0 = answers[0]
        nb = len(blocks(a0.get("diag", "")))
        if (a0.get("verdict") == "ok" and len(prog["sources"]) >= 2) or nb >= 1:
            nontrivial += 1
        if len(samples) < 6 and (i % 9 == 0):
            samples.append({"kind": kind, "modules": list(prog["sources"]), "verdict": a0.get("verdict"),
                            "diag_blocks": nb, "wasm": a0.get("wasm"),
                            "first_module_text": prog["sources"][sorted(prog["sources"])[0]][:400]})
    probes(ctx, stats)
    ctx.cov.update({
        "evaluations": stats["evaluations"], "distinct_nontrivial": nontrivial,
        "rule": "evaluation = one fresh compiler process (fresh RandomState keys) compiling one program under one configuration "
                "(allocation order of module references, RAYON_NUM_THREADS in 1..16, std modules allocated first/last); "
                "non-trivial program = accepted with >= 2 user modules, or rejected with >= 1 rendered error block; "
                "accepted programs: scopegen functions over library classes spread over 1-3 modules + shared string literals + "
                "long shared identifiers + recursion/loops + 0-2 extra non-entry Main.main; rejected programs: 1-4 modules with 1-8 "
                "error-provoking classes from 27 templates (nested-gap matches with every variant at the root, missing variants, tuples, "
                "useless patterns, unresolved names/classes/members/modules, arity, duplicates, syntax errors, cyclic interfaces, "
                "underconstrained generics, or-pattern bindings, struct bindings, private access)",
        "samples": samples, "traces_validated_against_impl": stats["traces"] + stats.get("errset_ok", 0) + stats.get("layout_ok", 0),
        "generators_available": {"scopegen": scopegen is not None},
        "parse_order_correspondence": stats.get("ordkey"), "lowering_order_observation": stats.get("lowering_order"),
        "temp_counter_correspondence": stats.get("tempctr"), "threads_1_vs_16": stats.get("schedule"),
        "counterexample_search_permuted_maps": stats.get("cex", stats.get("cex_skipped")),
        "layout_cases_ok": stats.get("layout_ok", 0), "layout_cases_skipped": stats.get("layout_skipped", 0),
        "programs": n_acc + n_rej + n_seed + n_long, "program_streams": {"long_module_names_and_identifiers_stream": n_long, "accepted_stream": n_acc, "rejected_stream": n_rej, "root_complete_nested_gap_stream": n_seed},
        "processes_per_program": {"accepted": p_acc, "rejected": p_rej},
        "verdict_histogram": stats["verdicts"], "error_kind_histogram": stats["error_kinds"],
        "diag_blocks_total": stats["diag_blocks"],
        "mir_up_to_renaming": {k: stats[k] for k in ("mir0_equal", "mir0_differs", "mir0_differs_multicapture", "mir1_equal", "mir1_differs", "mir1_differs_multicapture")},
        "errset_lines": stats.get("errset_lines", 0), "known_finding_hits": stats["known"],
        "node_missing_programs": stats["no_node"],
        "compiler_panics_same_in_every_process": stats["panics"]})
    ctx.assumptions += [
        "diagnostics_by_name_independent_of_module_ids assumes equal ids for the handles inside error details (heap strings: ids are handed out in module-name parse order since 06eeb5e; a ModuleReference inside a detail only tie-breaks two same-kind errors at one location)",
        "rayon's scheduler and SipHash are not modelled: the theorems quantify over all merge orders / enumeration orders / id assignments, the fresh-process runs supply concrete schedules and seeds",
    ]
    return ctx.finish(res, trusted=common.TRUSTED_COMMON + [
        "hand-written models Model/ErrorSet.lean (BTreeSet as strictly sorted list, derived Ord as lexicographic key), Model/Layout.lean, Model/MirFull.lean",
        "MIR canonicaliser canon_mir (vlib/c12.py): decides 'equal up to a bijective renaming' on the debug dumps",
        "Node >= 22 as execution oracle for the emitted wasm/TS",
    ])


def replay(ctx, path):
    common.build_harness("C12")
    data = json.load(open(path))
    d = data.get("replay", data)
    if d.get("protocol") == "errset":
        impl, model = common.run_pair("C12", [d["line"]], args=("errset",))
        print(d["line"]); print("impl :", impl); print("model:", model)
        return 1 if impl != model or impl[0] != d.get("expected", impl[0]) else 0
    if "sources" not in d:
        print(json.dumps(data, indent=1)[:4000]); return 1
    prog = {"sources": d["sources"], "entry": d["entry"], "std": d.get("std", True), "kind": "replay"}
    rng = ctx.rng
    o = orders_for(rng, prog, 12, True)
    a = run_configs([(mk_req(prog, x, run=True, mir=True), THREADS[k % len(THREADS)]) for k, x in enumerate(o)])
    r = compare(ctx, prog, a, o, None)
    seen = {}
    for x, oo in zip(a, o):
        k = (x.get("verdict"), x.get("diag", ""), json.dumps(x.get("wasm")), json.dumps(x.get("tsrun")))
        seen.setdefault(k, []).append(oo)
    for k, v in seen.items():
        print(f"--- {len(v)} process(es), e.g. allocation order {v[0]}: verdict={k[0]} wasm={k[2]} ts={k[3]}")
        print(k[1][:1500])
    if r is None:
        print("all 12 fresh processes agree"); return 0
    print("DISAGREEMENT:", r[0], "| known finding:", r[1]["id"] if r[1] else None)
    return 1
