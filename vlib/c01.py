"""C01 — compiled WebAssembly behaves as the source semantics prescribe.

Proof: lean/SamVerif/Props/C01.lean over Model/EnumLayout.lean (K1: enum variant representation
chosen by generics specialisation, run-time encoding and the tests of the lowered match) and
Model/TailRec.lean (K3: tail recursion -> loop with the backends' sequential loop-variable update;
K4: the constant-parameter-elimination decision).

Tie, on every run (harness/src/bin/c01.rs = real crates in-process, lean/Driver/C01.lean = model):
  layout   generated class declarations -> real parser/checker/HIR lowering/specialisation (hook H2)
           vs `demandTy` (exact layouts, demand order included)
  tailrec  generated self-recursive functions -> real mir_tail_recursion_rewrite, run by a MIR
           interpreter with the backends' loop semantics, vs `runRec`/`runLoop` (values per input)
  cpe      generated call graphs -> real mir_constant_param_elimination vs `decide` (kept parameters)
Oracles independent of the Lean model:
  * before/after interpretation of the real passes (tailrec, cpe) on the same inputs;
  * end to end: generated source programs whose expected output is computed here, compiled with the
    real `compile_sources` and run as WebAssembly (and TS) under Node 22 (shared exec oracle).
"""
import json, os
from . import common
from .common import hexs

PROP = "C01"

# ------------------------------------------------------------------------------------------------
# layout: class declaration systems
# ------------------------------------------------------------------------------------------------

INT, VEC, STR, FN = ("int",), ("vec",), ("str",), ("fn",)


def ty_src(t):
    k = t[0]
    if k == "int":
        return t[1] if len(t) > 1 else "int"
    if k == "vec":
        return "Vec<int>"
    if k == "str":
        return "Str"
    if k == "fn":
        return "(int) -> int"
    if k == "tp":
        return t[1]
    name, targs = t[1], t[2]
    return name + ("<" + ", ".join(ty_src(a) for a in targs) + ">" if targs else "")


def subst(t, m):
    if t[0] == "tp":
        return m[t[1]]
    if t[0] == "id":
        return ("id", t[1], tuple(subst(a, m) for a in t[2]))
    return t


def enc_name(t):
    """TypeName::encoded of a closed type (samlang-ast/src/mir.rs)."""
    if t[0] == "int":
        return "int"
    if t[0] == "str":
        return "_Str"
    if t[0] == "vec":
        return "_Vec"
    if t[0] == "fn":
        return "_$SyntheticIDType0"
    name, targs = t[1], t[2]
    return "Test_" + name + ("_" + "".join("_" + enc_name(a) for a in targs) if targs else "")


def gen_decls(rng):
    """Random system of classes: structs, enums (recursive, mutually recursive, generic)."""
    classes = {}   # name -> (tparams, ("struct", [types]) | ("enum", [[types]]))
    ns, ne = rng.range(1, 3), rng.range(2, 5)
    names = [f"P{i}" for i in range(ns)] + [f"E{i}" for i in range(ne)]
    generics = ["Opt", "Box", "Two"]

    def rand_ty(tparams, depth=0):
        k = rng.below(100)
        if tparams and k < 18:
            return ("tp", rng.pick(tparams))
        if k < 30:
            return ("int", rng.pick(["int", "bool", "int"]))
        if k < 35:
            return STR
        if k < 38:
            return VEC
        if k < 42:
            return FN
        if k < 80 or depth >= 2:
            return ("id", rng.pick(names), ())
        g = rng.pick(generics)
        n = 2 if g == "Two" else 1
        return ("id", g, tuple(rand_ty(tparams, depth + 1) for _ in range(n)))

    for n in names:
        if n.startswith("P"):
            classes[n] = ((), ("struct", [rand_ty(()) for _ in range(rng.range(1, 3))]))
        else:
            shape = rng.below(10)
            vs = []
            nv = rng.range(1, 4)
            for i in range(nv):
                if shape < 5:     # option-like / nat-like: mostly constant variants + one single-field
                    nf = rng.weighted([(0, 5), (1, 4), (2, 1)])
                else:
                    nf = rng.weighted([(0, 3), (1, 3), (2, 2), (3, 1)])
                vs.append([rand_ty(()) for _ in range(nf)])
            if shape < 3 and not any(len(v) == 1 for v in vs):
                vs[rng.below(len(vs))] = [("id", rng.pick(names), ())]
            classes[n] = ((), ("enum", vs))
    classes["Opt"] = (("T",), ("enum", [[], [("tp", "T")]]))
    classes["Box"] = (("T",), ("struct", [("tp", "T")])) if rng.chance(1, 2) else \
        (("T",), ("enum", [[("tp", "T")]]))
    classes["Two"] = (("A", "B"), ("enum", [[("tp", "A")], [("tp", "B")]])) if rng.chance(1, 2) else \
        (("A", "B"), ("struct", [("tp", "A"), ("tp", "B")]))
    roots = []
    for _ in range(rng.range(1, 5)):
        roots.append(rand_ty((), 0))
    roots = [r for r in roots if r[0] == "id"] or [("id", names[-1], ())]
    return classes, roots


def decls_source(classes, roots):
    out = []
    for n, (tps, (kind, body)) in classes.items():
        head = f"class {n}" + ("<" + ", ".join(tps) + ">" if tps else "")
        if kind == "struct":
            out.append(head + "(" + ", ".join(f"val f{i}: {ty_src(t)}" for i, t in enumerate(body)) + ") {}")
        else:
            out.append(head + "(" + ", ".join(
                f"V{i}" + ("(" + ", ".join(ty_src(t) for t in v) + ")" if v else "") for i, v in enumerate(body)) + ") {}")
    out.append("class Main {\n  function <T> ign(): int = 0\n  function main(): unit = {")
    for r in roots:
        out.append(f"    let _ = Main.ign<{ty_src(r)}>();")
    out.append("  }\n}\n")
    return "\n".join(out)


def decls_model(classes, roots):
    """Closed-type table for the Lean model: instantiate generics, number the closed types."""
    table, order = {}, []

    def close(t):
        if t[0] == "int":
            return "i"
        if t[0] == "vec":
            return "v"
        key = t
        if key not in table:
            table[key] = len(order)
            order.append(key)
            if t[0] == "id":
                for a in t[2]:
                    close(a)
                tps, (kind, body) = classes[t[1]]
                m = dict(zip(tps, t[2]))
                for t2 in ([x for x in body] if kind == "struct" else [x for v in body for x in v]):
                    close(subst(t2, m))
        return f"r{table[key]}"

    rts = [close(r) for r in roots]
    i = 0
    decls = []
    while i < len(order):
        t = order[i]
        i += 1
        if t[0] == "str":
            decls.append("T 0 E 0")
        elif t[0] == "fn":
            decls.append("T 0 C 2 i i")
        else:
            tps, (kind, body) = classes[t[1]]
            m = dict(zip(tps, t[2]))
            targs = " ".join(close(a) for a in t[2])
            head = f"T {len(t[2])} {targs}".strip()
            if kind == "struct":
                decls.append(head + f" S {len(body)} " + " ".join(close(subst(x, m)) for x in body))
            else:
                decls.append(head + f" E {len(body)} " + " ".join(
                    (f"{len(v)} " + " ".join(close(subst(x, m)) for x in v)).strip() for v in body))
    line = f"{len(rts)} " + " ".join(rts) + " | " + " | ".join(decls)
    names = [enc_name(t) for t in order]
    deps = {}
    for t in order:
        if t[0] == "id":
            tps, (kind, body) = classes[t[1]]
            m = dict(zip(tps, t[2]))
            fl = body if kind == "struct" else [x for v in body for x in v]
            deps[enc_name(t)] = set(enc_name(subst(x, m)) for x in fl)
    return line, names, deps


def layout_case(rng):
    classes, roots = gen_decls(rng)
    src = decls_source(classes, roots)
    mline, names, deps = decls_model(classes, roots)
    return {"kind": "layout", "line": f"layout {hexs(src)} ## {mline}", "names": names, "source": src, "deps": deps}


def layout_compare(case, impl, model):
    """None if equal, else a description. Model indices are translated to encoded names."""
    if not impl.startswith("ok") or not model.startswith("ok"):
        return f"impl={impl[:200]} model={model[:200]}"
    names = case["names"]

    def tr(entry):
        idx, kind = entry.split("=", 1)
        n = names[int(idx)]
        out = []
        for part in kind.split(","):
            if part.startswith("U(") or part.startswith("E:U("):
                pre, num = part.split("U(")
                part = pre + "U(" + names[int(num[:-1])] + ")"
            out.append(part)
        return n, ",".join(out)
    m = dict(tr(e) for e in model[3:].split(";") if e)
    m = {k: v for k, v in m.items() if k.startswith("Test_")}
    i = dict(e.split("=", 1) for e in impl[3:].split(";") if e)
    if m != i:
        bad = sorted(k for k in set(m) | set(i) if m.get(k) != i.get(k))
        return "layouts differ for " + ", ".join(f"{k}: impl={i.get(k)} model={m.get(k)}" for k in bad[:4])
    return None


def reaches(deps, a, b):
    seen, todo = set(), [a]
    while todo:
        x = todo.pop()
        if x == b:
            return True
        if x in seen:
            continue
        seen.add(x)
        todo += list(deps.get(x, ()))
    return False


def layout_conflations(impl, deps=None):
    """Implementation-side oracle for K1 (no model): an enum with an Unboxed variant next to Int31
    variants, whose unboxed payload type can itself be a non-pointer (its own layout has an Int31 or
    Unboxed variant), conflates two values. Returns (enum, payload, recursive) triples; `recursive`
    (the payload type reaches the enum again, so it was in progress) is the signature of C01-F1."""
    if not impl.startswith("ok"):
        return []
    defs = dict(e.split("=", 1) for e in impl[3:].split(";") if e)
    bad = []
    for n, k in defs.items():
        if not k.startswith("E:"):
            continue
        vs = k[2:].split(",") if k[2:] else []
        for v in vs:
            if v.startswith("U("):
                tgt = v[2:-1]
                tk = defs.get(tgt)
                nonptr = tk is not None and tk.startswith("E:") and any(
                    x == "I" or x.startswith("U(") for x in tk[2:].split(","))
                if nonptr and ("I" in vs or len(vs) > 1):
                    bad.append((n, tgt, deps is None or reaches(deps, tgt, n)))
    return bad


# ------------------------------------------------------------------------------------------------
# tailrec: if-else trees with self tail calls
# ------------------------------------------------------------------------------------------------

OPS = ["add", "sub", "mul", "lt", "le", "eq", "ne", "gt", "ge"]


class TreeGen:
    def __init__(self, rng, nparams, allow_backward):
        self.rng, self.n, self.allow_backward = rng, nparams, allow_backward
        self.locals = 0

    def operand(self, scope):
        r = self.rng
        if r.chance(1, 4):
            return str(r.range(-3, 9))
        return r.pick(scope)

    def value_tree(self, scope, depth):
        r = self.rng
        k = r.below(10)
        if depth <= 0 or k < 4:
            return ["R", self.operand(scope)]
        if k < 7:
            x = f"x{self.locals}"; self.locals += 1
            return ["B", x, r.pick(OPS[:3]), self.operand(scope), self.operand(scope),
                    self.value_tree(scope + [x], depth - 1)]
        x = f"x{self.locals}"; self.locals += 1
        return ["B", x, r.pick(OPS[3:]), self.operand(scope), self.operand(scope),
                ["I", x, self.value_tree(scope + [x], depth - 1), self.value_tree(scope + [x], depth - 1)]]

    def tail(self, scope, counter):
        r = self.rng
        args = []
        for i in range(self.n - 1):
            k = r.below(10)
            if k < 4:
                args.append(f"p{i}")                       # forwarded in place
            elif k < 7:
                cands = [f"p{j}" for j in range(self.n - 1) if self.allow_backward or j >= i]
                args.append(r.pick(cands))                  # permuted
            else:
                args.append(self.operand(scope))
        return ["T"] + args + [counter]

    def rec_tree(self, scope, counter, depth):
        r = self.rng
        k = r.below(10)
        if depth <= 0 or k < 4:
            return self.tail(scope, counter)
        if k < 6:
            x = f"x{self.locals}"; self.locals += 1
            return ["B", x, r.pick(OPS[:3]), self.operand(scope), self.operand(scope),
                    self.rec_tree(scope + [x], counter, depth - 1)]
        x = f"x{self.locals}"; self.locals += 1
        a = self.rec_tree(scope + [x], counter, depth - 1)
        b = self.rec_tree(scope + [x], counter, depth - 1) if r.chance(1, 2) else self.value_tree(scope + [x], depth - 1)
        if r.chance(1, 2):
            a, b = b, a
        return ["B", x, r.pick(OPS[3:]), self.operand(scope), self.operand(scope), ["I", x, a, b]]

    def function(self):
        last = f"p{self.n - 1}"
        scope = [f"p{i}" for i in range(self.n)]
        base = self.value_tree(scope, 2)
        rec = ["B", "x900", "sub", last, "1", self.rec_tree(scope + ["x900"], "x900", 2)]
        t = ["B", "x901", "le", last, "0", ["I", "x901", base, rec]]
        if self.rng.chance(1, 6):     # no rewrite possible / whole body is a value
            t = self.value_tree(scope, 2)
        return t


def tree_tokens(t):
    k = t[0]
    if k == "R":
        return ["R", t[1]]
    if k == "T":
        return ["T", str(len(t) - 1)] + t[1:]
    if k == "I":
        return ["I", t[1]] + tree_tokens(t[2]) + tree_tokens(t[3])
    return ["B", t[1], t[2], t[3], t[4]] + tree_tokens(t[5])


def tree_mir(t, n, fresh):
    """(statements, value expression) of the tree in the MIR text format of harness c01/c02."""
    k = t[0]
    if k == "R":
        return [], t[1]
    if k == "T":
        rc = f"r{fresh[0]}"; fresh[0] += 1
        return [f"call f0 {n} " + " ".join(t[1:]) + f" {rc}"], rc
    if k == "B":
        s, v = tree_mir(t[5], n, fresh)
        return [f"bin {t[1]} {t[2]} {t[3]} {t[4]}"] + s, v
    s1, v1 = tree_mir(t[2], n, fresh)
    s2, v2 = tree_mir(t[3], n, fresh)
    r = f"r{fresh[0]}"; fresh[0] += 1
    return [f"if {t[1]} {{ " + " ".join(s1) + " } { " + " ".join(s2) + f" }} 1 {r} {v1} {v2}"], r


def tree_backward(t, n, merged=False):
    """Signature of C01-F2: a self tail call, whose arguments become the loop values directly (not
    through the fresh temporaries of an if-else whose both branches end in the call), passes a
    parameter in a later position than its own while that parameter is overwritten before."""
    k = t[0]
    if k == "R":
        return False
    if k == "T":
        if merged:
            return False
        args = t[1:]
        return any(args[j] == f"p{i}" for i in range(n) for j in range(i + 1, len(args))
                   if args[i] != f"p{i}")
    if k == "B":
        return tree_backward(t[5], n, merged)
    a, b = tree_has_tail(t[2]), tree_has_tail(t[3])
    if a and b:
        return False   # loop values are fresh temporaries
    return tree_backward(t[2], n, merged) or tree_backward(t[3], n, merged)


def tree_has_tail(t):
    k = t[0]
    if k == "R":
        return False
    if k == "T":
        return True
    if k == "B":
        return tree_has_tail(t[5])
    return tree_has_tail(t[2]) or tree_has_tail(t[3])


def tailrec_case(rng, allow_backward):
    n = rng.range(2, 4)
    g = TreeGen(rng, n, allow_backward)
    t = g.function()
    stmts, v = tree_mir(t, n, [0])
    mir = f"fn f0 {n} " + " ".join(stmts) + f" ret {v} end"
    args = []
    for _ in range(4):
        args.append([rng.range(-4, 9) for _ in range(n - 1)] + [rng.range(0, 6)])
    a = ";".join(",".join(str(x) for x in v) for v in args)
    return {"kind": "tailrec", "tree": t, "n": n, "args": args,
            "line": f"tailrec | {a} | {mir} ## {n} " + " ".join(tree_tokens(t)),
            "backward": tree_backward(t, n)}


def tailrec_compare(case, impl, model):
    """(tie_problem, oracle_problem): model vs implementation, and before vs after."""
    if not impl.startswith("prog "):
        return f"impl={impl[:300]}", None
    parts = impl.split(" || ")
    if len(parts) != 3:
        return f"impl={impl[:300]}", None
    prog, verdict, per = parts
    rewritten = " while " in prog
    mt = model.split(" ")
    if mt[0] not in ("rewritten", "norewrite"):
        return f"model={model[:300]}", None
    if (mt[0] == "rewritten") != rewritten:
        return f"rewrite applicability differs: impl rewritten={rewritten} model={mt[0]}", None
    runs = per.split(";")
    mruns = mt[-1].split(";")
    tie = None
    for i, (r, m) in enumerate(zip(runs, mruns)):
        b, a = r.split("/")
        b, a = b.split("|")[-1], a.split("|")[-1]
        ms = m.split("/")
        mrec = ms[0]
        mloop = ms[1] if len(ms) > 1 else ms[0]
        if b == "timeout" or mrec == "none":
            continue
        if b != mrec or a != mloop:
            tie = f"args={case['args'][i]}: impl before/after={b}/{a} model rec/loop={mrec}/{mloop}"
            break
    oracle = verdict if verdict.startswith("diff") else None
    return tie, oracle


# ------------------------------------------------------------------------------------------------
# tailstmt: full statement lists (return collectors, several final assignments, non-tail statements)
# ------------------------------------------------------------------------------------------------

class StmtGen:
    def __init__(self, rng, n):
        self.rng, self.n, self.k = rng, n, 0

    def fresh(self, pre):
        self.k += 1
        return f"{pre}{self.k}"

    def operand(self, scope):
        return str(self.rng.range(-2, 7)) if self.rng.chance(1, 4) else self.rng.pick(scope)

    def prefix(self, scope, depth):
        """Non-tail statements; returns (statements, extended scope)."""
        r, out = self.rng, []
        for _ in range(r.range(0, 2)):
            k = r.below(10)
            if k < 6:
                x = self.fresh("x")
                out.append(f"bin {x} {r.pick(OPS)} {self.operand(scope)} {self.operand(scope)}")
                scope = scope + [x]
            elif k < 8 and depth > 0:
                c = self.operand(scope)
                s1, sc1 = self.prefix(scope, depth - 1)
                s2, sc2 = self.prefix(scope, depth - 1)
                fin = []
                names = []
                for _ in range(r.range(0, 2)):
                    y = self.fresh("y")
                    fin.append(f"{y} {self.operand(sc1)} {self.operand(sc2)}")
                    names.append(y)
                out.append(f"if {c} {{ {' '.join(s1)} }} {{ {' '.join(s2)} }} {len(fin)} " + " ".join(fin))
                scope = scope + names
            else:              # non-tail self call (terminates: counter argument x900)
                rc = self.fresh("c")
                args = [self.operand(scope) for _ in range(self.n - 1)] + ["x900"]
                out.append(f"call f0 {self.n} " + " ".join(args) + f" {rc}")
                scope = scope + [rc]
        return [o.strip() for o in out], scope

    def tail(self, scope, depth, want_var):
        """Statements ending the list, and the expression holding the list's value."""
        r = self.rng
        pre, scope = self.prefix(scope, 1)
        k = r.below(10)
        if depth <= 0 or k < 4:
            if r.chance(3, 5):         # tail call
                args = []
                for i in range(self.n - 1):
                    m = r.below(10)
                    args.append(f"p{i}" if m < 4 else (r.pick([f"p{j}" for j in range(self.n - 1)]) if m < 7 else self.operand(scope)))
                if want_var:
                    rc = self.fresh("r")
                    return pre + [f"call f0 {self.n} " + " ".join(args) + f" x900 {rc}"], rc
                return pre + [f"call f0 {self.n} " + " ".join(args) + " x900 _"], str(r.range(0, 3))
            return pre, self.operand(scope)
        c = self.operand(scope)
        s1, v1 = self.tail(scope, depth - 1, want_var)
        s2, v2 = self.tail(scope, depth - 1, want_var)
        fin, res = [], None
        extra = r.range(0, 1)
        pos = r.below(extra + 1)
        for i in range(extra + 1):
            if i == pos:
                res = self.fresh("res")
                fin.append(f"{res} {v1} {v2}")
            else:
                fin.append(f"{self.fresh('z')} {self.operand(scope)} {self.operand(scope)}")
        if not want_var:   # unit-like: branch results are not carried (front-end shape)
            fin = [f for f in fin if not f.startswith(res + " ")]
            res = str(r.range(0, 3))
        return pre + [f"if {c} {{ {' '.join(s1)} }} {{ {' '.join(s2)} }} {len(fin)} " + " ".join(fin)], res


def tailstmt_case(rng):
    n = rng.range(2, 4)
    g = StmtGen(rng, n)
    last = f"p{n - 1}"
    scope = [f"p{i}" for i in range(n)] + ["x900"]
    want_var = rng.chance(4, 5)
    body, v = g.tail(scope, 2, want_var)
    base = g.operand(scope[:-1])
    res = "res0"
    mir = (f"fn f0 {n} bin x901 le {last} 0 if x901 {{ }} {{ bin x900 sub {last} 1 " + " ".join(body) +
           f" }} 1 {res} {base} {v} ret {res} end")
    if not want_var:
        # a function whose self calls drop the result returns the same literal on every path
        # (front-end shape for unit-like functions); anything else is not produced by HIR lowering
        mir = (f"fn f0 {n} bin x901 le {last} 0 if x901 {{ }} {{ bin x900 sub {last} 1 " + " ".join(body) +
               f" }} 0 ret 0 end")
    elif rng.chance(1, 6):    # no guard around it: the rewrite sees the list directly (may not terminate: timeouts tolerated)
        mir = f"fn f0 {n} bin x900 sub {last} 1 " + " ".join(body) + f" ret {v} end"
    args = [[rng.range(-3, 7) for _ in range(n - 1)] + [rng.range(0, 4)] for _ in range(3)]
    a = ";".join(",".join(str(x) for x in v) for v in args)
    return {"kind": "tailstmt", "line": f"tailstmt | {a} | {mir}"}


def canon_temps(text):
    import re
    seen = {}

    def sub(m):
        t = m.group(0)
        if t not in seen:
            seen[t] = f"_T{len(seen)}"
        return seen[t]
    return re.sub(r"\b_t\d+\b", sub, text)


def tailstmt_compare(case, impl, model):
    if not impl.startswith("prog "):
        return f"impl={impl[:300]}", None
    parts = impl.split(" || ")
    prog, verdict, per = parts[0], parts[1], parts[2]
    rewritten = " while " in prog
    mparts = model.split(" || ")
    mprog = mparts[0]
    tie = None
    if mprog == "norewrite":
        if rewritten:
            tie = "implementation rewrote the function, the model does not"
    elif not mprog.startswith("prog "):
        tie = f"model={model[:300]}"
    elif not rewritten:
        tie = "the model rewrites the function, the implementation does not"
    elif canon_temps(" ".join(prog.split())) != canon_temps(" ".join(mprog.split())):
        tie = f"rewritten program text differs: impl={canon_temps(prog)[:400]} model={canon_temps(mprog)[:400]}"
    if tie is None and len(mparts) == 3:
        # the model's own semantics (runRec / runLoop) against the interpreter runs of the harness
        for i, (r, m) in enumerate(zip(per.split(";"), mparts[1].split(";"))):
            b, a = r.split("/")
            b, a = b.split("|")[-1], a.split("|")[-1]
            ms = m.split("/")
            if not b.startswith("ret:") or ms[0] == "none":
                continue       # timeout / depth limit on either side
            if b != ms[0] or (len(ms) > 1 and a.startswith("ret:") and ms[1] != "none" and a != ms[1]):
                tie = f"values differ for argument vector {i}: impl before/after={b}/{a} model rec/loop={m}"
                break
    oracle = verdict if verdict.startswith("diff") else None
    return tie, oracle


# ------------------------------------------------------------------------------------------------
# lirloop: loop-variable update emitted by the real MIR -> LIR lowering
# ------------------------------------------------------------------------------------------------

def lirloop_case(rng):
    n = rng.range(1, 4)
    names = [f"p{i}" for i in range(n)]
    vals = []
    for i in range(n):
        k = rng.below(10)
        vals.append(names[i] if k < 3 else (rng.pick(names) if k < 6 else (f"x{rng.range(0, 3)}" if k < 8 else str(rng.range(-2, 5)))))
    body = " ".join(f"bin x{j} add p0 {j}" for j in range(4)) + " bin c lt p0 9 sif c 1 { brk p0 }"
    mir = (f"fn f0 {n} while {n} " + " ".join(f"{nm} {nm}i {v}" for nm, v in zip(names, vals)) +
           f" {{ {body} }} r ret r end").replace("p0i", "0").replace("p1i", "1").replace("p2i", "2").replace("p3i", "3")
    return {"kind": "lirloop", "line": f"lirloop | | {mir} ## {n} " + " ".join(names) + " " + " ".join(vals)}


def lirloop_compare(case, impl, model):
    a, m = canon_temps(" ".join(impl.split())), canon_temps(" ".join(model.split()))
    if not impl.startswith("vars "):
        return f"impl={impl[:300]}", None
    return (None if a == m else f"loop-variable update differs: impl={a[:300]} model={m[:300]}"), None


# ------------------------------------------------------------------------------------------------
# Deterministic tour (round 5, coverage-guided): hand-written programs that reach lowering /
# instruction-selection arms the random families do not (see reports/C01.md, coverage table). The
# expected lines are written by hand from the language semantics; every run executes them on wasm +
# TS and through the source-semantics leg.
# ------------------------------------------------------------------------------------------------

TOUR = [
    ('toint-every-digit', 'class Main {\n  function id(s: Str): Str = s\n  function p(n: int): unit = Process.println(Str.fromInt(n))\n  function main(): unit = {\n    Main.p(Main.id("0").toInt());\n    Main.p(Main.id("1").toInt());\n    Main.p(Main.id("2").toInt());\n    Main.p(Main.id("3").toInt());\n    Main.p(Main.id("4").toInt());\n    Main.p(Main.id("5").toInt());\n    Main.p(Main.id("6").toInt());\n    Main.p(Main.id("7").toInt());\n    Main.p(Main.id("8").toInt());\n    Main.p(Main.id("9").toInt());\n    Main.p(Main.id("10").toInt());\n    Main.p(Main.id("19").toInt());\n    Main.p(Main.id("90").toInt());\n    Main.p(Main.id("99").toInt());\n    Main.p(Main.id("1909").toInt());\n    Main.p(Main.id("-9").toInt());\n    Main.p(Main.id("-98").toInt());\n    Main.p(Main.id("-90").toInt());\n    Main.p(Main.id("1234567890").toInt());\n    Main.p(Main.id("987654321").toInt());\n    Main.p(Main.id("2147483647").toInt());\n    Main.p(Str.fromInt(Main.id("9").toInt() * 1111).toInt())\n  }\n}\n', ('0', '1', '2', '3', '4', '5', '6', '7', '8', '9', '10', '19', '90', '99', '1909', '-9', '-98', '-90', '1234567890', '987654321', '2147483647', '9999')),
    ('operators-strings', 'class Main {\n  function id(s: Str): Str = s\n  function lit(): Str = "const"\n  function main(): unit = {\n    let a = "17".toInt();\n    let b = "5".toInt();\n    Process.println(Str.fromInt(a / b));\n    Process.println(Str.fromInt(a % b));\n    Process.println(if a <= b { "le" } else { "gt" });\n    Process.println(if b <= b { "le" } else { "gt" });\n    Process.println(if a >= b { "ge" } else { "lt" });\n    Process.println(if b >= a { "ge" } else { "lt" });\n    Process.println(if a != b { "ne" } else { "eq" });\n    Process.println(if b != b { "ne" } else { "eq" });\n    let s = "lit";\n    let t = s;\n    Process.println(t :: "-" :: "x" :: "y");\n    Process.println("ab" :: "cd");\n    Process.println(if Main.id("ab") == "ab" { "same" } else { "diff" });\n    Process.println(if Main.id("ab") == "ac" { "same" } else { "diff" });\n    Process.println(if Main.id("ab") != "ac" { "ne" } else { "eq" });\n    Process.println(if Main.id("ab") != "ab" { "ne" } else { "eq" });\n    Process.println(Main.lit());\n    let nb = !(a < b);\n    Process.println(if nb { "T" } else { "F" });\n    let nc = !(b < a);\n    Process.println(if nc { "T" } else { "F" })\n  }\n}\n',
     ['3', '2', 'gt', 'le', 'ge', 'lt', 'ne', 'eq', 'lit-xy', 'abcd', 'same', 'diff', 'ne', 'eq', 'const', 'T', 'F']),
    ('patterns', 'class Pt(val x: int, val y: int) {}\nclass Sh(Ci(int), Re(int, int)) {}\nclass Opt<T>(None, Some(T)) {}\nclass W(Wa(Sh), Wb(int), Wc) {}\nclass Q(val a: Opt<int>, val b: int) {}\nclass Main {\n  function area(s: Sh): int = match s { Ci(r) -> r * r, Re(w, h) -> w * h }\n  function f(w: W): int = match w { Wa(Ci(v) | Re(_, v)) | Wb(v) -> v, Wc -> 0 - 1 }\n  function g(p: Pt): int = { let { x, y as z } = p; x * 10 + z }\n  function h(o: Opt<Pt>): int = match o { Some({ x, y as _ }) -> x, None -> 0 - 5 }\n  function k(o: Opt<int>): int = if let Some(v) = o { v + 1 } else { 0 }\n  function m(o: Opt<Opt<int>>): int = if let Some(Some(v)) = o { v } else { 0 - 2 }\n  function q(o: Opt<Q>): int = match o { Some({ a as Some(z), b }) -> z + b, Some({ a as None, b }) -> b, None -> 0 }\n  function p(n: int): unit = Process.println(Str.fromInt(n))\n  function main(): unit = {\n    Main.p(Main.area(Sh.Ci(3)));\n    Main.p(Main.area(Sh.Re(2, 5)));\n    Main.p(Main.f(W.Wa(Sh.Ci(4))));\n    Main.p(Main.f(W.Wa(Sh.Re(1, 6))));\n    Main.p(Main.f(W.Wb(7)));\n    Main.p(Main.f(W.Wc()));\n    Main.p(Main.g(Pt.init(3, 4)));\n    Main.p(Main.h(Opt.Some(Pt.init(8, 9))));\n    Main.p(Main.h(Opt.None<Pt>()));\n    Main.p(Main.k(Opt.Some(4)));\n    Main.p(Main.k(Opt.None<int>()));\n    Main.p(Main.m(Opt.Some(Opt.Some(3))));\n    Main.p(Main.m(Opt.Some(Opt.None<int>())));\n    Main.p(Main.m(Opt.None<Opt<int>>()));\n    Main.p(Main.q(Opt.Some(Q.init(Opt.Some(30), 4))));\n    Main.p(Main.q(Opt.Some(Q.init(Opt.None<int>(), 5))));\n    Main.p(Main.q(Opt.None<Q>()))\n  }\n}\n',
     ['9', '10', '4', '6', '7', '-1', '34', '8', '-5', '5', '0', '3', '-2', '-2', '34', '5', '0']),
    ('vec-tuples-closures-constants', 'class P(val v: int) {}\nclass A(val n: int) {}\nclass B(val n: int) {}\nclass Color(Red, Green, Blue) {}\nclass Main {\n  function paint(c: Color, n: int): int = if n <= 0 { match c { Red -> 1, Green -> 2, Blue -> 3 } } else { Main.paint(c, n - 1) + 10 }\n  function loop(n: int): unit = if n <= 0 { Process.println("done") } else { Main.loop(n - 1) }\n  function emptyThen(c: bool): int = { let r = if c { 0 } else { let _ = Process.println("else"); 1 }; r }\n  function p(n: int): unit = Process.println(Str.fromInt(n))\n  function main(): unit = {\n    let a = "6".toInt();\n    let v = Vec.of<int>(4);\n    v.push(a);\n    v.push(9);\n    Main.p(v.get(1) + v.get(2));\n    Main.p(v.pop());\n    v.set(0, 7);\n    Main.p(v.get(0));\n    Main.p(v.length());\n    let vp = Vec.of<P>(P.init(3));\n    vp.push(P.init(a));\n    Main.p(vp.get(1).v * 10 + vp.get(0).v);\n    Main.p(A.init(1).n + B.init(2).n);\n    Main.p(Main.paint(Color.Green(), 2));\n    Main.p(Main.paint(Color.Green(), 0));\n    Main.loop(3);\n    let t = (1, a);\n    let u = (a, 2);\n    Main.p(t.e0 + t.e1 * 10 + u.e0 * 100 + u.e1 * 1000);\n    let f = (x: int) -> ((y: int) -> x + y * 10 + a * 100);\n    Main.p(f(1)(2));\n    Main.p(Main.emptyThen(a < 3));\n    Main.p(Main.emptyThen(a > 3))\n  }\n}\n',
     ['15', '9', '7', '2', '63', '3', '22', '2', 'done', '2661', '621', 'else', '1', '0']),
    ('escapes-generics-erasure', 'class Opt<T>(None, Some(T)) {}\nclass Pt(val x: int, val y: int) {}\nclass G<T>(val o: Opt<T>, val t: T) {\n  method first(): int = match this.o { None -> 0 - 1, Some(_) -> 1 }\n}\nclass H(val u: unit, val o: Opt<Pt>, val n: int) {}\nclass Main {\n  function usePt(p: Pt): int = p.x * 100 + p.y\n  function pick(o: Opt<Pt>): int = match o { Some(p) -> Main.usePt(p), None -> 0 }\n  function p(n: int): unit = Process.println(Str.fromInt(n))\n  function main(): unit = {\n    let a = "8".toInt();\n    Process.println("a\\tb");\n    Process.println("x\\ny");\n    Process.println("p\\\\q");\n    Process.println("say \\"hi\\"");\n    let g = G.init(Opt.Some(a), a);\n    let { o, t } = g;\n    Main.p(g.first() * 10 + t + (match o { Some(v) -> v, None -> 0 }));\n    let g2 = G.init(Opt.None<Pt>(), Pt.init(1, 2));\n    Main.p(g2.first() + g2.t.y);\n    let h = H.init({  }, Opt.Some(Pt.init(a, 3)), 0);\n    Main.p(Main.pick(h.o) + h.n);\n    Main.p(Main.pick(Opt.None<Pt>()));\n    let m = Pt.init(4, 5);\n    let area = Main.usePt;\n    Main.p(area(m))\n  }\n}\n',
     ['a\tb', 'x', 'y', 'p\\q', 'say "hi"', '26', '1', '803', '0', '405']),
    ('closures-this-dedup-control', 'class Pt(val x: int, val y: int) {\n  method sum(): int = Main.big(this, 3)\n  method adder(): (int) -> int = (k) -> k + this.x\n}\nclass E1(A(int), B(int, int)) {}\nclass E2(C(int), D(int, int)) {}\nclass Main {\n  function big(p: Pt, n: int): int = if n <= 0 { p.x } else { Main.big(p, n - 1) + p.y }\n  function mk(n: int): Pt = { let _ = Process.println("mk"); Pt.init(n, n) }\n  function inc(x: int): int = x + 1\n  function apply(f: (int) -> int, n: int): int = if n <= 0 { f(0) } else { Main.apply(f, n - 1) + f(n) }\n  function call0(f: () -> int, n: int): int = if n <= 0 { f() } else { Main.call0(f, n - 1) + 1 }\n  function e1(e: E1): int = match e { A(v) -> v, B(v, w) -> v + w }\n  function e2(e: E2): int = match e { C(v) -> v * 2, D(v, w) -> v * w }\n  function loop(n: int): unit = if n <= 0 { Process.println("done") } else { Main.loop(n - 1) }\n  function id(s: Str): Str = s\n  function p(n: int): unit = Process.println(Str.fromInt(n))\n  function main(): unit = {\n    let a = "3".toInt();\n    let pt = Pt.init(a, 4);\n    let m = pt.sum;\n    Main.p(Main.call0(m, a));\n    Main.p(Main.apply(pt.adder(), a));\n    Main.p(Main.apply(Main.inc, a));\n    Main.p(Main.call0(() -> a * 7, 2));\n    Main.p(Main.e1(E1.A(a)) + Main.e1(E1.B(a, 10)));\n    Main.p(Main.e2(E2.C(a)) + Main.e2(E2.D(a, 10)));\n    Main.loop(a);\n    Main.mk(a);\n    let _ = if a < 2 {  } else { Process.println("else-only") };\n    let _ = if a < 5 {  } else { Process.println("never") };\n    Process.println(if Main.id("\\v\\b") != Main.id("\\f\\r") { "ctl-ne" } else { "ctl-eq" });\n    Process.println(if Main.id("a\\0b") == Main.id("a\\0b") { "nul-eq" } else { "nul-ne" })\n  }\n}\n',
     ['18', '18', '10', '23', '16', '36', 'done', 'mk', 'else-only', 'ctl-ne', 'nul-eq']),
]


def tour_cases():
    return [{"family": "tour-" + name, "src": src, "expect": list(exp), "std": True} for name, src, exp in TOUR]


# constant-parameter elimination arms that the pipeline itself never feeds (it runs before the tail
# recursion rewrite): SingleIf / Break / While statements, and an Int31 constant
TOUR_CPE = [
    "cpe | | fn f0 0 call f1 2 2 j1 c0 call print 1 c0 _ call f1 2 1 j1 c1 call print 1 c1 _ ret 0 end "
    "fn f1 2 bin x801 le p0 0 if x801 { } { bin x800 sub p0 1 call f1 2 x800 j1 x810 bin x820 add x810 p1 } 1 x802 p1 x820 ret x802 end"
    " ## 2 F f0 0 0 4 c f1 2 2 j1 c print 1 x500 c f1 2 1 j1 c print 1 x501"
    " F f1 2 0 6 r p0 r p0 c f1 2 x800 j1 r x810 r p1 r p1",
    "cpe | | fn f0 0 call f1 3 3 5 9 c0 call print 1 c0 _ ret 0 end "
    "fn f1 3 while 2 i p0 m acc 0 a2 { bin c le i 0 sif c 0 { brk acc } bin m sub i 1 bin a1 add acc p1 bin a2 add a1 p1 } r ret r end"
    " ## 2 F f0 0 0 2 c f1 3 3 5 9 c print 1 x500 F f1 3 0 3 r p0 r p1 r p1",
]


# ------------------------------------------------------------------------------------------------
# cpe: call graphs
# ------------------------------------------------------------------------------------------------

def cpe_case(rng, rotate_bias):
    nf = rng.range(1, 3)
    arity = {i: rng.range(2, 4) for i in range(1, nf + 1)}
    fns_mir, fns_model = [], []
    # f0: entry, no parameters; calls every function at least once
    stmts, atoms = [], []
    calls = [i for i in range(1, nf + 1)] + [rng.range(1, nf) for _ in range(rng.range(0, 2))]
    const_for = {i: [rng.range(0, 5) for _ in range(arity[i])] for i in arity}
    acc = "0"
    for k, i in enumerate(calls):
        args = [str(rng.range(1, 3))]
        for j in range(1, arity[i]):
            args.append(str(const_for[i][j]) if rng.chance(4, 5) else str(rng.range(0, 9)))
        stmts.append(f"call f{i} {arity[i]} " + " ".join(args) + f" c{k}")
        atoms.append(f"c f{i} {arity[i]} " + " ".join(args))
        stmts.append(f"call print 1 c{k} _")
        atoms.append(f"c print 1 x{500 + k}")
    fns_mir.append("fn f0 0 " + " ".join(stmts) + " ret 0 end")
    fns_model.append(f"F f0 0 0 {len(atoms)} " + " ".join(atoms))
    loc = [0]
    for i in range(1, nf + 1):
        n = arity[i]
        ps = [f"p{j}" for j in range(n)]
        atoms = ["r p0"]                      # counter is read by the guard
        body = ["bin x800 sub p0 1"]
        atoms.append("r p0")
        acc = "0"
        used = [p for p in ps[1:] if rng.chance(1, 2)]
        nself = rng.range(1, 2)
        for s in range(nself):
            args = ["x800"]
            k = rng.below(10)
            rest = ps[1:]
            if k < rotate_bias and len(rest) >= 2:      # rotation / permutation of the other params
                rest = rng.shuffle(rest)
                if rest == ps[1:]:
                    rest = rest[1:] + rest[:1]
            elif k < 8:
                rest = list(rest)                         # forwarded in place
                for j in range(len(rest)):
                    if rng.chance(1, 3):    # the literal every outer call site passes, or another one
                        rest[j] = str(const_for[i][j + 1]) if rng.chance(3, 4) else str(rng.range(0, 5))
            else:
                rest = [rng.pick(ps[1:]) for _ in rest]
            args += rest
            rc = f"x{810 + s}"
            body.append(f"call f{i} {n} " + " ".join(args) + f" {rc}")
            atoms.append(f"c f{i} {n} " + " ".join(args))
            if used and rng.chance(2, 3):
                pr = [rng.pick(used) for _ in range(rng.range(1, 2))]
                body.append(f"call print {len(pr) + 1} p0 " + " ".join(pr) + " _")
                atoms.append(f"c print {len(pr) + 1} p0 " + " ".join(pr))
            body.append(f"bin x{820 + s} add {acc} {rc}")
            atoms += [f"r {rc}"] + ([f"r {acc}"] if not acc.lstrip("-").isdigit() else [])
            acc = f"x{820 + s}"
        if i < nf and rng.chance(1, 2):
            j = rng.range(i + 1, nf)
            args = [str(rng.range(0, 2))] + [rng.pick(ps[1:] + [str(rng.range(0, 5))]) for _ in range(arity[j] - 1)]
            body.append(f"call f{j} {arity[j]} " + " ".join(args) + " x830")
            atoms.append(f"c f{j} {arity[j]} " + " ".join(args))
            body.append(f"bin x831 add {acc} x830")
            atoms += ["r x830"] + ([f"r {acc}"] if not acc.lstrip("-").isdigit() else [])
            acc = "x831"
        basev = rng.pick(used) if used and rng.chance(1, 2) else str(rng.range(0, 3))
        if not basev.lstrip("-").isdigit():
            atoms.append(f"r {basev}")
        if not acc.lstrip("-").isdigit():
            atoms.append(f"r {acc}")
        atoms += ["r x801", "r x802"]
        mir = (f"fn f{i} {n} bin x801 le p0 0 if x801 {{ }} {{ " + " ".join(body) +
               f" }} 1 x802 {basev} {acc} ret x802 end")
        fns_mir.append(mir)
        fns_model.append(f"F f{i} {n} 0 {len(atoms)} " + " ".join(atoms))
    return {"kind": "cpe", "line": "cpe | | " + " ".join(fns_mir) + f" ## {len(fns_model)} " + " ".join(fns_model),
            "arity": arity}


def cpe_compare(case, impl, model):
    if not impl.startswith("prog "):
        return f"impl={impl[:300]}", None
    parts = impl.split(" || ")
    prog, verdict = parts[0], parts[1]
    kept = {}
    toks = prog.split(" ")
    for i, t in enumerate(toks):
        if t == "fn":
            j = toks.index("]", i)
            kept[toks[i + 1]] = toks[i + 3:j]
    if not model.startswith("ok "):
        return f"model={model[:300]}", None
    tie = None
    for e in model[3:].split(";"):
        f, st = e.split("=")
        if st == "-":
            continue
        want = [f"p{i}" for i, s in enumerate(st.split(",")) if s == "X"] if st else []
        if kept.get(f) != want:
            tie = f"{f}: implementation keeps {kept.get(f)}, model decides {st} (keeps {want})"
            break
    oracle = verdict if verdict.startswith("diff") else None
    return tie, oracle


# ------------------------------------------------------------------------------------------------
# cpesem: one self-recursive function (self calls in any position, prints), called with literals
# ------------------------------------------------------------------------------------------------

def cpesem_case(rng):
    n = rng.range(2, 4)
    ps = [f"p{j}" for j in range(n)]
    consts = [rng.range(0, 6) for _ in range(n)]
    ncalls = rng.range(1, 3)
    calls = []
    for _ in range(ncalls):
        calls.append([str(rng.range(1, 3))] + [str(consts[j]) if rng.chance(3, 4) else str(rng.range(0, 9))
                                                for j in range(1, n)])
    mir, toks = ["bin x800 sub p0 1"], ["B", "x800", "sub", "p0", "1"]
    acc, loc = "0", [0]
    scope = []
    for sidx in range(rng.range(1, 3)):
        k = rng.below(10)
        if k < 6:          # self call
            rest = ps[1:]
            m = rng.below(10)
            if m < 3 and len(rest) >= 2:
                rest = rng.shuffle(rest)
            elif m < 8:
                rest = [(str(consts[j + 1]) if rng.chance(1, 3) else r) for j, r in enumerate(rest)]
            else:
                rest = [rng.pick(ps[1:] + scope + [str(rng.range(0, 5))]) for _ in rest]
            args = ["x800"] + rest
            rc = f"x{810 + sidx}"
            mir.append(f"call f1 {n} " + " ".join(args) + f" {rc}")
            toks += ["C", rc, str(n)] + args
            nx = f"x{820 + sidx}"
            mir.append(f"bin {nx} add {acc} {rc}")
            toks += ["B", nx, "add", acc, rc]
            acc = nx
            scope.append(rc)
        elif k < 8:        # print
            es = ["p0"] + [rng.pick(ps[1:] + scope) for _ in range(rng.range(0, 2))]
            mir.append(f"call print {len(es)} " + " ".join(es) + " _")
            toks += ["P", str(len(es))] + es
        else:              # arithmetic on a parameter
            nx = f"x{830 + sidx}"
            a, b = rng.pick(ps[1:] + scope + ["3"]), rng.pick(ps[1:] + ["2"])
            mir.append(f"bin {nx} {rng.pick(['add', 'mul', 'sub'])} {a} {b}")
            toks += ["B", nx, mir[-1].split(" ")[2], a, b]
            nx2 = f"x{840 + sidx}"
            mir.append(f"bin {nx2} add {acc} {nx}")
            toks += ["B", nx2, "add", acc, nx]
            acc = nx2
            scope.append(nx)
    basev = rng.pick(ps[1:]) if rng.chance(1, 3) else str(rng.range(0, 3))
    f1 = (f"fn f1 {n} bin x801 le p0 0 if x801 {{ }} {{ " + " ".join(mir) + f" }} 1 x802 {basev} {acc} ret x802 end")
    body = ["B", "x801", "le", "p0", "0", "I", "x801", "R", basev] + toks + ["R", acc]
    f0 = []
    for i, c in enumerate(calls):
        f0.append(f"call f1 {n} " + " ".join(c) + f" c{i}")
        f0.append(f"call print 1 c{i} _")
    prog = "fn f0 0 " + " ".join(f0) + " ret 0 end " + f1
    model = f"{n} {len(calls)} " + " ".join(" ".join(c) for c in calls) + " " + " ".join(body)
    return {"kind": "cpesem", "line": f"cpesem | | {prog} ## {model}"}


def cpesem_compare(case, impl, model):
    if not impl.startswith("prog "):
        return f"impl={impl[:300]}", None
    parts = impl.split(" || ")
    prog, verdict, per = parts[0], parts[1], parts[2]
    toks = prog.split(" ")
    kept = None
    for i, t in enumerate(toks):
        if t == "fn" and toks[i + 1] == "f1":
            kept = toks[i + 3:toks.index("]", i)]
    mt = model.split(" ")
    if mt[0] != "ok" or len(mt) != 4:
        return f"model={model[:300]}", None
    states = mt[1].split(",")
    want = [f"p{i}" for i, st in enumerate(states) if st == "X"]
    tie = None
    b, a = per.split("/")
    if kept != want:
        tie = f"implementation keeps {kept}, model decides {mt[1]} (keeps {want})"
    elif "timeout" not in b and mt[2] != "none" and (b != mt[2] or a != mt[3]):
        tie = f"outputs differ: impl before/after={b[:120]} / {a[:120]} model before/after={mt[2][:120]} / {mt[3][:120]}"
    oracle = verdict if verdict.startswith("diff") else None
    return tie, oracle


# ------------------------------------------------------------------------------------------------
# cpeprog: several mutually calling functions (every call passes the decreasing counter first)
# ------------------------------------------------------------------------------------------------

def cpeprog_case(rng):
    nf = rng.range(2, 3)
    arity = {i: rng.range(2, 4) for i in range(1, nf + 1)}
    consts = {i: [rng.range(0, 6) for _ in range(arity[i])] for i in arity}
    mirs, toks = [], []
    f0m, f0t = [], []
    calls = list(range(1, nf + 1)) + [rng.range(1, nf) for _ in range(rng.range(0, 1))]
    for k, i in enumerate(calls):
        args = [str(rng.range(1, 2))] + [str(consts[i][j]) if rng.chance(4, 5) else str(rng.range(0, 9))
                                         for j in range(1, arity[i])]
        f0m += [f"call f{i} {arity[i]} " + " ".join(args) + f" x{700 + k}", f"call print 1 x{700 + k} _"]
        f0t += ["C", f"x{700 + k}", f"f{i}", str(arity[i])] + args + ["P", "1", f"x{700 + k}"]
    mirs.append("fn f0 0 " + " ".join(f0m) + " ret 0 end")
    toks.append("F f0 0 " + " ".join(f0t) + " R 0")
    for i in range(1, nf + 1):
        n = arity[i]
        ps = [f"p{j}" for j in range(n)]
        m, t = ["bin x800 sub p0 1"], ["B", "x800", "sub", "p0", "1"]
        acc, scope = "0", []
        for sidx in range(rng.range(1, 3)):
            k = rng.below(10)
            if k < 7:
                g = i if rng.chance(1, 2) else rng.range(1, nf)
                if g == i:
                    rest = ps[1:]
                    mm = rng.below(10)
                    if mm < 3 and len(rest) >= 2:
                        rest = rng.shuffle(rest)
                    elif mm < 8:
                        rest = [(str(consts[i][j + 1]) if rng.chance(1, 3) else r) for j, r in enumerate(rest)]
                    else:
                        rest = [rng.pick(ps[1:] + scope + [str(rng.range(0, 5))]) for _ in rest]
                else:
                    rest = [(str(consts[g][j]) if rng.chance(1, 2) else rng.pick(ps[1:] + scope + [str(rng.range(0, 5))]))
                            for j in range(1, arity[g])]
                args = ["x800"] + rest
                rc = f"x{810 + sidx}"
                m.append(f"call f{g} {arity[g]} " + " ".join(args) + f" {rc}")
                t += ["C", rc, f"f{g}", str(arity[g])] + args
                nx = f"x{820 + sidx}"
                m.append(f"bin {nx} add {acc} {rc}")
                t += ["B", nx, "add", acc, rc]
                acc = nx
                scope.append(rc)
            elif k < 9:
                es = ["p0"] + [rng.pick(ps[1:] + scope) for _ in range(rng.range(0, 2))]
                m.append(f"call print {len(es)} " + " ".join(es) + " _")
                t += ["P", str(len(es))] + es
            else:
                nx = f"x{830 + sidx}"
                a, b = rng.pick(ps[1:] + scope + ["3"]), rng.pick(ps[1:] + ["2"])
                op = rng.pick(["add", "mul", "sub"])
                m.append(f"bin {nx} {op} {a} {b}")
                t += ["B", nx, op, a, b]
                nx2 = f"x{840 + sidx}"
                m.append(f"bin {nx2} add {acc} {nx}")
                t += ["B", nx2, "add", acc, nx]
                acc = nx2
                scope.append(nx)
        basev = rng.pick(ps[1:]) if rng.chance(1, 3) else str(rng.range(0, 3))
        mirs.append(f"fn f{i} {n} bin x801 le p0 0 if x801 {{ }} {{ " + " ".join(m) + f" }} 1 x802 {basev} {acc} ret x802 end")
        toks.append(f"F f{i} {n} B x801 le p0 0 I x801 R {basev} " + " ".join(t) + f" R {acc}")
    return {"kind": "cpeprog", "line": "cpeprog | | " + " ".join(mirs) + f" ## {len(toks)} " + " ".join(toks)}


def cpeprog_permutation_cases():
    """Deterministic: f1(p0 = counter, p1..pk) whose self call passes a permutation of p1..pk (all k! for
    k <= 3, rotations and transpositions for 4), every used-in-the-base-case / forwarded-only mask, tail and
    non-tail. A forwarded-only parameter may be removed only if every self call passes it in its OWN slot
    (`mem_selfCallReads`, `cpe_anyslot_counterexample`; seeded faults C01 / C03f drop that clause)."""
    import itertools
    out = []
    idx = 0
    for k in (2, 3, 4):
        if k <= 3:
            perms = list(itertools.permutations(range(k)))
        else:
            perms = [tuple((i + r) % 4 for i in range(4)) for r in range(4)]
            for a in range(4):
                for b in range(a + 1, 4):
                    pm = list(range(4)); pm[a], pm[b] = pm[b], pm[a]; perms.append(tuple(pm))
        for perm in perms:
            for mask in range(1 << k):
                tail = idx % 2 == 0
                idx += 1
                used = [f"p{i + 1}" for i in range(k) if (mask >> i) & 1]
                n = k + 1
                args = ["x800"] + [f"p{perm[j] + 1}" for j in range(k)]
                base_m = [f"call print {len(used) + 1} p0 " + " ".join(used) + " _"]
                base_t = ["P", str(len(used) + 1), "p0"] + used
                rec_m = ["bin x800 sub p0 1", f"call f1 {n} " + " ".join(args) + " x810"]
                rec_t = ["B", "x800", "sub", "p0", "1", "C", "x810", "f1", str(n)] + args
                if tail:
                    val = "x810"
                else:
                    rec_m.append("bin x820 add x810 1"); rec_t += ["B", "x820", "add", "x810", "1"]; val = "x820"
                f1m = (f"fn f1 {n} bin x801 le p0 0 if x801 {{ " + " ".join(base_m) + " } { " + " ".join(rec_m) +
                       f" }} 1 x802 7 {val} ret x802 end")
                f1t = f"F f1 {n} B x801 le p0 0 I x801 " + " ".join(base_t) + " R 7 " + " ".join(rec_t) + f" R {val}"
                vals = ["3"] + [str(11 * (i + 1)) for i in range(k)]
                f0m = f"fn f0 0 call f1 {n} " + " ".join(vals) + " x700 call print 1 x700 _ ret 0 end"
                f0t = f"F f0 0 C x700 f1 {n} " + " ".join(vals) + " P 1 x700 R 0"
                out.append({"kind": "cpeprog", "line": f"cpeprog | | {f0m} {f1m} ## 2 {f0t} {f1t}"})
    return out


def c03_permutation_sources():
    """builder-C03's source-level family for the same clause (read-only import; skipped when unavailable)."""
    try:
        from . import c03_gates
        d = c03_gates.permutation_recursion_programs()
    except Exception:
        return []
    return [{"family": "c03-permutation-recursion", "src": src, "expect": list(exp), "end": "ok", "std": False,
             "both": True, "name": name} for name, (src, exp) in d.items()]


def cpeprog_compare(case, impl, model):
    if not impl.startswith("prog "):
        return f"impl={impl[:300]}", None
    parts = impl.split(" || ")
    prog, verdict, per = parts[0], parts[1], parts[2]
    kept = {}
    tk = prog.split(" ")
    for i, t in enumerate(tk):
        if t == "fn":
            kept[tk[i + 1]] = tk[i + 3:tk.index("]", i)]
    mt = model.split(" ")
    if mt[0] != "ok" or len(mt) != 4:
        return f"model={model[:300]}", None
    tie = None
    for e in mt[1].split(";"):
        f, st = e.split("=")
        want = [f"p{i}" for i, x in enumerate(st.split(",")) if x == "X"] if st else []
        if kept.get(f) != want:
            tie = f"{f}: implementation keeps {kept.get(f)}, model decides {st} (keeps {want})"
            break
    b, a = per.split("/")
    if tie is None and "timeout" not in b and mt[2] != "none" and (b != mt[2] or (mt[3] != "none" and a != mt[3])):
        tie = f"outputs differ: impl before/after={b[:150]} / {a[:150]} model before/after={mt[2][:150]} / {mt[3][:150]}"
    oracle = verdict if verdict.startswith("diff") else None
    return tie, oracle


# ------------------------------------------------------------------------------------------------
# end to end: source programs with expected output computed here
# ------------------------------------------------------------------------------------------------

def w32(x):
    return (x + 2 ** 31) % 2 ** 32 - 2 ** 31


def e2e_nat(rng, probe):
    """Recursive enum: `consts` constant variants and one recursive variant with `extra` more
    fields. extra == 0 is the signature of C01-F1 (single-field variant of the enum itself)."""
    consts = rng.range(1, 3)
    extra = 0 if probe else rng.range(1, 2)
    depth = rng.range(1, 5)
    base = rng.below(consts)
    cs = [f"Z{i}" for i in range(consts)]
    fields = ["Nat"] + ["int"] * extra
    pos = rng.below(consts + 1)
    variants = cs[:pos] + [f"S({', '.join(fields)})"] + cs[pos:]
    binds = ["m"] + [f"k{i}" for i in range(extra)]
    arms = [f"{c} -> {10 * (i + 1)}" for i, c in enumerate(cs)]
    arms.insert(pos, f"S({', '.join(binds)}) -> 1 + Nat.toInt(m)" + "".join(f" + {b}" for b in binds[1:]))
    val = f"Nat.{cs[base]}()"
    expect = 10 * (base + 1)
    for d in range(depth):
        ks = [rng.range(0, 4) for _ in range(extra)]
        val = f"Nat.S({', '.join([val] + [str(k) for k in ks])})"
        expect += 1 + sum(ks)
    src = (f"class Nat({', '.join(variants)}) {{\n  function toInt(n: Nat): int = match n {{ " + ", ".join(arms) +
           " }\n}\nclass Main {\n  function main(): unit = {\n    let _ = Process.println(Str.fromInt(Nat.toInt(" + val + ")));\n  }\n}\n")
    return {"family": "recursive-enum", "src": src, "expect": [str(expect)],
            "sig_f1": extra == 0, "sig_f2": False}


def e2e_mutual(rng, probe):
    """Mutually recursive enums A(X, Y(B)), B(P, Q(A)): the second one specialised sees the first
    still in progress."""
    d = rng.range(0, 4)
    first = rng.pick(["A", "B"])
    wrap = "" if probe else ", int"
    warg = "" if probe else ", 1"
    wpat = "" if probe else ", _"
    val, expect, cur = "A.X()", 0, "A"
    for _ in range(d):
        if cur == "A":
            val, cur = f"B.Q({val}{warg})", "B"
        else:
            val, cur = f"A.Y({val}{warg})", "A"
        expect += 1
    src = (f"class A(X, Y(B{wrap})) {{ function d(a: A): int = match a {{ X -> 0, Y(b{wpat}) -> 1 + B.d(b) }} }}\n"
           f"class B(P, Q(A{wrap})) {{ function d(b: B): int = match b {{ P -> 100, Q(a{wpat}) -> 1 + A.d(a) }} }}\n"
           "class Main {\n  function <T> ign(): int = 0\n  function main(): unit = {\n"
           f"    let _ = Main.ign<{first}>();\n"
           f"    let _ = Process.println(Str.fromInt({cur}.d({val})));\n  }}\n}}\n")
    return {"family": "mutual-enum", "src": src, "expect": [str(expect)], "sig_f1": probe, "sig_f2": False}


def e2e_option(rng):
    """Opt<Opt<..<P>>> chains: Some(None) vs None must stay distinct at every level."""
    depth = rng.range(1, 3)
    ty = "P"
    for _ in range(depth):
        ty = f"Opt<{ty}>"
    lines, stmts = [], []
    for case in range(depth + 1):
        # case k: k Somes around a None (k < depth) or depth Somes around a P
        if case == depth:
            v = f"P.init({case + 5})"
            t = "P"
            for _ in range(depth):
                v = f"Opt.Some({v})"
            code = case + 5
        else:
            inner = "P"
            for _ in range(depth - case - 1):
                inner = f"Opt<{inner}>"
            v = f"Opt.None<{inner}>()"
            for _ in range(case):
                v = f"Opt.Some({v})"
            code = -(case + 1)
        stmts.append(f"    let _ = Process.println(Str.fromInt(Main.look{depth}({v})));")
        lines.append(str(code))
    fs = ["  function look0(p: P): int = p.v"]
    t = "P"
    for d in range(1, depth + 1):
        t2 = f"Opt<{t}>"
        fs.append(f"  function look{d}(o: {t2}): int = match o {{ None -> {-(1)} , Some(x) -> {{ let r = Main.look{d - 1}(x); if r < 0 {{ r - 1 }} else {{ r }} }} }}")
        t = t2
    order = rng.shuffle(list(range(len(stmts))))
    src = ("class P(val v: int) {}\nclass Opt<T>(None, Some(T)) {}\nclass Main {\n" + "\n".join(fs) +
           "\n  function main(): unit = {\n" + "\n".join(stmts[i] for i in order) + "\n  }\n}\n")
    # look_d(None)= -1; each enclosing Some subtracts 1 from a negative code
    exp = []
    for i in order:
        exp.append(lines[i])
    return {"family": "nested-option", "src": src, "expect": exp, "sig_f1": False, "sig_f2": False}


def e2e_tailperm(rng, probe):
    """Tail-recursive function permuting its arguments; inputs via toInt so nothing is folded."""
    n = rng.range(2, 4)
    ps = [f"a{i}" for i in range(n)]
    if probe:
        perm = rng.shuffle(list(range(n)))
        if perm == list(range(n)):
            perm = perm[1:] + perm[:1]
    else:
        # forward-only reads: argument j reads parameter >= j
        perm = [rng.range(j, n - 1) for j in range(n)]
    adds = [rng.range(0, 3) if rng.chance(1, 2) else 0 for _ in range(n)]
    # `+ 0` / `* 1` are folded by the optimizer after the rewrite: the loop values become the
    # parameters themselves only then (C01-F4)
    ident = [rng.pick(["", " + 0", " * 1", " - 0"]) for _ in range(n)]
    args = [f"{ps[perm[j]]}" + (f" + {adds[j]}" if adds[j] else ident[j]) for j in range(n)]
    weights = [rng.range(1, 9) for _ in range(n)]
    ret = " + ".join(f"{ps[j]} * {weights[j]}" for j in range(n))
    init = [rng.range(1, 9) for _ in range(n)]
    steps = rng.range(1, 7)
    vals = list(init)
    for _ in range(steps):
        vals = [w32(vals[perm[j]] + adds[j]) for j in range(n)]
    expect = w32(sum(vals[j] * weights[j] for j in range(n)))
    backward = any(perm[j] < j and (perm[perm[j]] != perm[j] or adds[perm[j]]) for j in range(n))
    src = ("class Main {\n  function go(" + ", ".join(f"{p}: int" for p in ps) + ", n: int): int =\n"
           f"    if n == 0 {{ {ret} }} else {{ Main.go({', '.join(args)}, n - 1) }}\n"
           "  function main(): unit = {\n"
           f"    let _ = Process.println(Str.fromInt(Main.go({', '.join(str(x) for x in init)}, \"{steps}\".toInt())));\n  }}\n}}\n")
    return {"family": "tail-permutation", "src": src, "expect": [str(expect)], "sig_f1": False,
            "sig_f2": backward}


def e2e_hanoi(rng):
    """Non-tail recursion that rotates its parameters (some are only ever passed on)."""
    n = rng.range(3, 4)         # number of rotating parameters
    ps = [f"q{i}" for i in range(n)]
    perm1 = rng.shuffle(list(range(n)))
    perm2 = rng.shuffle(list(range(n)))
    shown = sorted(rng.shuffle(list(range(n)))[:rng.range(1, n - 1)])
    init = [rng.range(1, 9) for _ in range(n)]
    depth = rng.range(2, 3)
    out = []

    def run(k, vals):
        if k == 0:
            return 0
        a = run(k - 1, [vals[perm1[j]] for j in range(n)])
        out.append(" ".join([str(k)] + [str(vals[j]) for j in shown]))
        b = run(k - 1, [vals[perm2[j]] for j in range(n)])
        return a + b + 1
    total = run(depth, init)
    out.append(str(total))
    show = " :: \" \" :: ".join(["Str.fromInt(k)"] + [f"Str.fromInt({ps[j]})" for j in shown])
    src = ("class Main {\n  function solve(k: int, " + ", ".join(f"{p}: int" for p in ps) + "): int =\n"
           "    if k == 0 { 0 } else {\n"
           f"      let a = Main.solve(k - 1, {', '.join(ps[perm1[j]] for j in range(n))});\n"
           f"      let _ = Process.println({show});\n"
           f"      let b = Main.solve(k - 1, {', '.join(ps[perm2[j]] for j in range(n))});\n"
           "      a + b + 1\n    }\n  function main(): unit = {\n"
           f"    let _ = Process.println(Str.fromInt(Main.solve({depth}, {', '.join(str(x) for x in init)})));\n  }}\n}}\n")
    return {"family": "rotating-recursion", "src": src, "expect": out, "sig_f1": False, "sig_f2": False}


def e2e_list(rng):
    """Boxed two-variant recursive enum + closures + tail-recursive accumulator (in-place forward)."""
    xs = [rng.range(-5, 20) for _ in range(rng.range(0, 6))]
    k = rng.range(1, 4)
    val = "L.Nil()"
    for x in reversed(xs):
        val = f"L.Cons({x}, {val})"
    mapped = [w32(x * k) for x in xs]
    src = ("class L(Nil, Cons(int, L)) {\n"
           "  function sum(l: L, acc: int): int = match l { Nil -> acc, Cons(h, t) -> L.sum(t, acc + h) }\n"
           "  function map(l: L, f: (int) -> int): L = match l { Nil -> L.Nil(), Cons(h, t) -> L.Cons(f(h), L.map(t, f)) }\n"
           "  function len(l: L): int = match l { Nil -> 0, Cons(_, t) -> 1 + L.len(t) }\n"
           "  function last(l: L, d: int): int = match l { Nil -> d, Cons(h, Nil) -> h, Cons(_, t) -> L.last(t, d) }\n}\n"
           "class Main {\n  function main(): unit = {\n"
           f"    let k = \"{k}\".toInt();\n    let l = {val};\n"
           "    let m = L.map(l, (x) -> x * k);\n"
           "    let _ = Process.println(Str.fromInt(L.sum(l, 0)));\n"
           "    let _ = Process.println(Str.fromInt(L.sum(m, 0)));\n"
           "    let _ = Process.println(Str.fromInt(L.len(m)));\n"
           "    let _ = Process.println(Str.fromInt(L.last(m, -1)));\n  }\n}\n")
    exp = [str(w32(sum(xs))), str(w32(sum(mapped))), str(len(xs)), str(mapped[-1] if mapped else -1)]
    return {"family": "list-closure", "src": src, "expect": exp, "sig_f1": False, "sig_f2": False}


def e2e_constparam(rng):
    """Parameters that are constant at every call site, only forwarded in place, or unused."""
    c = rng.range(2, 9)
    n = rng.range(1, 6)
    base = rng.range(0, 5)
    # f(n, c, dead, acc): c constant everywhere, dead only forwarded in place, acc accumulates
    expect = base
    for i in range(n, 0, -1):
        expect = w32(expect + c * i)
    src = ("class Main {\n  function f(n: int, c: int, dead: int, acc: int): int =\n"
           "    if n == 0 { acc } else { Main.f(n - 1, c, dead, acc + c * n) }\n"
           "  function g(n: int, c: int, dead: int): int =\n"
           "    if n == 0 { 0 } else { c * n + Main.g(n - 1, c, dead) }\n"
           "  function main(): unit = {\n"
           f"    let _ = Process.println(Str.fromInt(Main.f(\"{n}\".toInt(), {c}, 77, {base})));\n"
           f"    let _ = Process.println(Str.fromInt(Main.g(\"{n}\".toInt(), {c}, 78) + {base}));\n  }}\n}}\n")
    return {"family": "const-param", "src": src, "expect": [str(expect), str(expect)], "sig_f1": False, "sig_f2": False}


def e2e_iface(rng):
    """Interfaces with bounded generics, function and method references, closures capturing both."""
    n, k = rng.range(1, 6), rng.range(1, 9)
    a, b = rng.range(1, 9), rng.range(1, 9)
    w1, h1, w2, h2 = (rng.range(1, 9) for _ in range(4))
    c = rng.range(-3, 9)
    pick = (w1, h1) if w1 * h1 >= w2 * h2 else (w2, h2)
    field = rng.pick(["w", "h"])
    g = w32(w32((c + 2 * k) * n) + n * n)
    src = ("interface HasArea { method area(): int }\n"
           "class Sq(val s: int) : HasArea { method area(): int = this.s * this.s }\n"
           "class Re(val w: int, val h: int) : HasArea { method area(): int = this.w * this.h }\n"
           "class Wrap<T: HasArea>(val inner: T, val bonus: int) : HasArea { method area(): int = this.inner.area() + this.bonus }\n"
           "class Main {\n"
           "  function <T: HasArea> total(a: T, b: T): int = a.area() + b.area()\n"
           "  function <T: HasArea> pick(a: T, b: T): T = if a.area() >= b.area() { a } else { b }\n"
           "  function twice(f: (int) -> int, x: int): int = f(f(x))\n"
           f"  function addK(x: int): int = x + {k}\n"
           "  function main(): unit = {\n"
           f"    let n = \"{n}\".toInt();\n    let f = Main.addK;\n    let sq = Sq.init(n);\n    let m = sq.area;\n"
           "    let g = (x: int) -> Main.twice(f, x) * n + m();\n"
           f"    let _ = Process.println(Str.fromInt(Main.total(Sq.init({a}), Sq.init({b}))));\n"
           f"    let _ = Process.println(Str.fromInt(Main.pick(Re.init({w1}, {h1}), Re.init({w2}, {h2})).{field}));\n"
           f"    let _ = Process.println(Str.fromInt(Main.total(Wrap.init(Re.init({w1}, {h1}), {a}), Wrap.init(Re.init({w2}, {h2}), n))));\n"
           f"    let _ = Process.println(Str.fromInt(g({c})));\n  }}\n}}\n")
    exp = [str(a * a + b * b), str(pick[0] if field == "w" else pick[1]), str(w1 * h1 + a + w2 * h2 + n), str(g)]
    return {"family": "interface-closure", "src": src, "expect": exp, "std": False}


def e2e_std(rng):
    """std.list / std.option through generic code and closures."""
    xs = [rng.range(-4, 12) for _ in range(rng.range(1, 5))]
    n = rng.range(1, 5)
    t = rng.range(-2, 8)
    val = f"List.of({xs[-1]})"
    for x in reversed(xs[:-1]):
        val += f".cons({x})"
    mapped = [w32(x * n) for x in xs]
    found = next((x for x in xs if x > t), None)
    src = ("import { List } from std.list;\nimport { Option } from std.option;\n"
           "class Main {\n  function main(): unit = {\n"
           f"    let n = \"{n}\".toInt();\n    let l = {val};\n"
           "    let _ = Process.println(Str.fromInt(l.map((x) -> x * n).fold((a, x) -> a + x, 0)));\n"
           f"    let _ = Process.println(Str.fromInt(l.filter((x) -> x > {t}).length()));\n"
           "    let _ = Process.println(Str.fromInt(l.reverse().first().valueMap(0 - 1, (x) -> x + 100)));\n"
           f"    let _ = Process.println(Str.fromInt(l.find((x) -> x > {t}).map((x) -> x * 2).valueMap(0 - 7, (x) -> x)));\n"
           "    let _ = Process.println(Str.fromInt(l.append(l.reverse()).length() + l.foldRight((x, a) -> a * 2 + x, 0)));\n"
           "  }\n}\n")
    fr = 0
    for x in reversed(xs):
        fr = w32(fr * 2 + x)
    exp = [str(w32(sum(mapped))), str(len([x for x in xs if x > t])), str(xs[-1] + 100),
           str(found * 2 if found is not None else -7), str(w32(2 * len(xs) + fr))]
    return {"family": "std-list-option", "src": src, "expect": exp, "std": True}


def e2e_effects(rng):
    """Evaluation order and short-circuiting: expressions over effectful calls (each prints its
    tag), with compile-time constant and run-time operands on either side of && / ||."""
    out = []
    ctr = [0]

    def gen_b(d):
        k = rng.below(12)
        if d <= 0 or k < 2:
            v = rng.chance(1, 2)
            return ("lit", v)
        if k < 5:
            ctr[0] += 1
            return ("tb", ctr[0], rng.chance(1, 2))
        if k < 8:
            return ("and", gen_b(d - 1), gen_b(d - 1))
        if k < 10:
            return ("or", gen_b(d - 1), gen_b(d - 1))
        if k < 11:
            return ("not", gen_b(d - 1))
        return ("lt", gen_i(d - 1), gen_i(d - 1))

    def gen_i(d):
        k = rng.below(10)
        if d <= 0 or k < 2:
            return ("lit", rng.range(0, 9))
        if k < 5:
            ctr[0] += 1
            return ("ti", ctr[0], rng.range(0, 9))
        if k < 7:
            return ("add", gen_i(d - 1), gen_i(d - 1))
        if k < 8:
            return ("mul", gen_i(d - 1), gen_i(d - 1))
        return ("if", gen_b(d - 1), gen_i(d - 1), gen_i(d - 1))

    def src(e):
        t = e[0]
        if t == "lit":
            return ("true" if e[1] else "false") if isinstance(e[1], bool) else str(e[1])
        if t == "tb":
            return f"Main.tb({e[1]}, {'true' if e[2] else 'false'})"
        if t == "ti":
            return f"Main.ti({e[1]}, {e[2]})"
        if t == "and":
            return f"({src(e[1])} && {src(e[2])})"
        if t == "or":
            return f"({src(e[1])} || {src(e[2])})"
        if t == "not":
            return f"!({src(e[1])})"
        if t == "lt":
            return f"({src(e[1])} < {src(e[2])})"
        if t == "add":
            return f"({src(e[1])} + {src(e[2])})"
        if t == "mul":
            return f"({src(e[1])} * {src(e[2])})"
        return f"(if {src(e[1])} {{ {src(e[2])} }} else {{ {src(e[3])} }})"

    def ev(e):
        t = e[0]
        if t == "lit":
            return e[1]
        if t in ("tb", "ti"):
            out.append(str(e[1]))
            return e[2]
        if t == "and":
            return ev(e[1]) and ev(e[2])
        if t == "or":
            return ev(e[1]) or ev(e[2])
        if t == "not":
            return not ev(e[1])
        if t == "lt":
            a = ev(e[1]); b = ev(e[2])
            return a < b
        if t == "add":
            a = ev(e[1]); b = ev(e[2])
            return w32(a + b)
        if t == "mul":
            a = ev(e[1]); b = ev(e[2])
            return w32(a * b)
        return ev(e[2]) if ev(e[1]) else ev(e[3])
    stmts = []
    for _ in range(rng.range(2, 4)):
        if rng.chance(1, 2):
            e = gen_b(3)
            stmts.append(f"    let _ = if {src(e)} {{ Process.println(\"T\") }} else {{ Process.println(\"F\") }};")
            out.append("T" if ev(e) else "F")
        else:
            e = gen_i(3)
            stmts.append(f"    let _ = Process.println(Str.fromInt({src(e)}));")
            out.append(str(ev(e)))
    srct = ("class Main {\n  function tb(k: int, v: bool): bool = { let _ = Process.println(Str.fromInt(k)); v }\n"
            "  function ti(k: int, v: int): int = { let _ = Process.println(Str.fromInt(k)); v }\n"
            "  function main(): unit = {\n" + "\n".join(stmts) + "\n  }\n}\n")
    return {"family": "effects-order", "src": srct, "expect": out, "std": False}


def e2e_mapset(rng):
    """std.map / std.set (AVL trees over a user class implementing Comparable) through closures."""
    ks = [rng.range(0, 9) for _ in range(rng.range(2, 6))]
    vs = [rng.range(1, 40) for _ in ks]
    n = ks[0]
    probe = rng.range(0, 9)
    rem = rng.pick(ks)
    m = {}
    ins = "Map.empty<K, int>()"
    for i, (k, v) in enumerate(zip(ks, vs)):
        ins += f".insert(K.init({'n' if i == 0 else k}), {v})"
        m[k] = v
    fold = 0
    for k in sorted(m):
        fold = w32(fold * 3 + k + m[k])
    sset = sorted(set(ks))
    sins = "Set.empty<K>()" + "".join(f".insert(K.init({'n' if i == 0 else k}))" for i, k in enumerate(ks))
    sfold = 0
    for k in sset:
        sfold = w32(sfold * 10 + k)
    other = sorted(set(rng.range(0, 9) for _ in range(3)))
    oins = "Set.empty<K>()" + "".join(f".insert(K.init({k}))" for k in other)
    src = ("import { Comparable } from std.interfaces;\nimport { Map } from std.map;\nimport { Set } from std.set;\n"
           "import { Option } from std.option;\n"
           "class K(val v: int) : Comparable<K> { method compare(other: K): int = this.v - other.v }\n"
           "class Main {\n  function main(): unit = {\n"
           f"    let n = \"{n}\".toInt();\n    let m = {ins};\n"
           "    let _ = Process.println(Str.fromInt(m.size()));\n"
           f"    let _ = Process.println(Str.fromInt(m.get(K.init({probe})).valueMap(0 - 1, (x) -> x)));\n"
           "    let _ = Process.println(Str.fromInt(m.fold(0, (a, k, v) -> a * 3 + k.v + v)));\n"
           f"    let _ = Process.println(Str.fromInt(m.remove(K.init({rem})).size()));\n"
           f"    let s = {sins};\n    let o = {oins};\n"
           "    let _ = Process.println(Str.fromInt(s.size()));\n"
           f"    let _ = Process.println(if s.contains(K.init({probe})) {{ \"yes\" }} else {{ \"no\" }});\n"
           "    let _ = Process.println(Str.fromInt(s.fold(0, (a: int, k: K) -> a * 10 + k.v)));\n"
           "    let _ = Process.println(Str.fromInt(s.union(o).size() * 100 + s.intersection(o).size() * 10 + s.diff(o).size()));\n"
           "  }\n}\n")
    so = set(other)
    exp = [str(len(m)), str(m.get(probe, -1)), str(fold), str(len(m) - 1), str(len(sset)),
           "yes" if probe in sset else "no", str(sfold),
           str(len(set(sset) | so) * 100 + len(set(sset) & so) * 10 + len(set(sset) - so))]
    return {"family": "std-map-set", "src": src, "expect": exp, "std": True, "extra": "set"}


def e2e_vecenum(rng):
    """Vec whose elements are enum values (constant variants = i31, boxed / unboxed payloads)."""
    xs = [rng.range(-1, 9) for _ in range(rng.range(1, 5))]     # -1 = None
    cs = [rng.range(0, 2) for _ in range(rng.range(1, 4))]
    mk = lambda x: "Opt.None<int>()" if x < 0 else f"Opt.Some({x})"
    mkp = lambda x: "Opt.None<P>()" if x < 0 else f"Opt.Some(P.init({x}))"
    col = ["Red", "Green", "Blue"]
    st = [f"    let v = Vec.of<Opt<int>>({mk(xs[0])});", f"    let u = Vec.of<Opt<P>>({mkp(xs[0])});",
          f"    let w = Vec.of<Color>(Color.{col[cs[0]]}());"]
    for x in xs[1:]:
        st += [f"    let _ = v.push({mk(x)});", f"    let _ = u.push({mkp(x)});"]
    for c in cs[1:]:
        st.append(f"    let _ = w.push(Color.{col[c]}());")
    exp = []
    for i, x in enumerate(xs):
        st.append(f"    let _ = Process.println(Str.fromInt(Main.show(v.get({i})) * 100 + Main.showP(u.get({i}))));")
        exp.append(str(x * 100 + x))
    for i, c in enumerate(cs):
        st.append(f"    let _ = Process.println(Str.fromInt(Main.code(w.get({i}))));")
        exp.append(str(c + 1))
    st.append("    let _ = Process.println(Str.fromInt(Main.show(v.pop()) + Main.code(w.pop())));")
    exp.append(str(xs[-1] + cs[-1] + 1))
    src = ("class P(val v: int) {}\nclass Opt<T>(None, Some(T)) {}\nclass Color(Red, Green, Blue) {}\nclass Main {\n"
           "  function show(o: Opt<int>): int = match o { None -> 0 - 1, Some(x) -> x }\n"
           "  function showP(o: Opt<P>): int = match o { None -> 0 - 1, Some(p) -> p.v }\n"
           "  function code(c: Color): int = match c { Red -> 1, Green -> 2, Blue -> 3 }\n"
           "  function main(): unit = {\n" + "\n".join(st) + "\n  }\n}\n")
    return {"family": "vec-of-enum", "src": src, "expect": exp, "std": False}


# ------------------------------------------------------------------------------------------------
# Deterministic boundary family for the runtime builtins (libsam.wat / TS prelude): every operation
# with a precondition or a size-dependent path is probed AT its boundary, after histories that make
# len < cap, len == cap and post-growth. Expected outcome (lines, then ok | panic:<message>) is
# computed here from the language rules; wasm AND TS must both produce it (an engine trap where a
# panic message is prescribed is a violation).
# ------------------------------------------------------------------------------------------------

VEC_OOB, VEC_POP = "panic:Vec index out of bounds", "panic:pop from empty Vec"


def vec_histories():
    """(name, source statements building `v`, contents, model ops). Values are n + k with n = "1".toInt()."""
    def pushes(k, start=0):
        xs = [1 + start + i for i in range(k)]
        return [f"    let _ = v.push(n + {start + i});" for i in range(k)], xs, [t for x in xs for t in ("P", str(x))]
    hs = [("empty", ["    let v = Vec.empty<int>();"], [], ["E"])]
    hs.append(("of", ["    let v = Vec.of<int>(n + 6);"], [7], ["O", "7"]))
    for k in (1, 3, 4, 5, 9):       # len < cap, len == cap (4), after the first and the second growth
        st, xs, ops = pushes(k)
        hs.append((f"push{k}", ["    let v = Vec.empty<int>();"] + st, xs, ["E"] + ops))
    st, xs, ops = pushes(2)
    hs.append(("cap2-full", ["    let v = Vec.withCapacity<int>(2);"] + st, xs, ["W", "2"] + ops))
    st, xs, ops = pushes(3)
    hs.append(("cap2-grown", ["    let v = Vec.withCapacity<int>(2);"] + st, xs, ["W", "2"] + ops))
    st, xs, ops = pushes(4)
    hs.append(("push4-pop", ["    let v = Vec.empty<int>();"] + st + ["    let _ = v.pop();"], xs[:-1], ["E"] + ops + ["Q"]))
    hs.append(("of-pop", ["    let v = Vec.of<int>(n + 6);", "    let _ = v.pop();"], [], ["O", "7", "Q"]))
    st, xs, ops = pushes(1)
    hs.append(("reserve3-push1", ["    let v = Vec.empty<int>();", "    let _ = v.reserve(3);"] + st, xs, ["E", "R", "3"] + ops))
    return hs


def boundary_cases():
    out = []
    head = "class Main {\n  function p(x: int): unit = Process.println(Str.fromInt(x))\n  function main(): unit = {\n    let n = \"1\".toInt();\n"
    tail = "\n  }\n}\n"
    for name, st, xs, hops in vec_histories():
        L = len(xs)
        # in range: read everything, overwrite everything, read back, pop everything
        body, exp = list(st), []
        body.append("    Main.p(v.length());"); exp.append(str(L)); mops = ["L"]
        for i in range(L):
            body.append(f"    Main.p(v.get(n - 1 + {i}));"); exp.append(str(xs[i])); mops += ["G", str(i)]
        for i in range(L):
            body.append(f"    let _ = v.set(v.length() - {L - i}, 100 + {i});"); mops += ["S", str(i), str(100 + i)]
        for i in (0, L - 1):
            if 0 <= i < L:
                body.append(f"    Main.p(v.get({i}));"); exp.append(str(100 + i)); mops += ["G", str(i)]
        body.append("    let _ = v.push(n + 41);"); mops += ["P", "42"]
        body.append("    Main.p(v.get(v.length() - 1));"); exp.append("42"); mops += ["G", str(L)]
        body.append("    Main.p(v.length());"); exp.append(str(L + 1)); mops += ["L"]
        for i in range(L + 1):
            body.append("    Main.p(v.pop());"); mops.append("Q")
        exp += [str(42)] + [str(100 + i) for i in reversed(range(L))]
        body.append("    Main.p(v.length())"); exp.append("0"); mops.append("L")
        out.append({"family": "boundary-vec", "src": head + "\n".join(body) + tail, "expect": exp, "end": "ok",
                    "std": False, "both": True, "name": f"{name}/in-range", "hops": hops, "mops": mops})
        # capacity after the history: expected value comes from the Lean runtime model (filled in by run).
        # Capacity is implementation-defined (the reference semantics flags it; the TS backend reports the
        # length): only the WebAssembly runtime, which the model mirrors, is compared.
        out.append({"family": "boundary-vec", "src": head + "\n".join(list(st) + ["    Main.p(v.capacity())"]) + tail,
                    "expect": None, "end": "ok", "std": False, "both": False, "name": f"{name}/capacity", "hops": hops, "mops": ["C"]})
        # out of range, one probe per program (the run ends at the panic)
        probes = [("get(-1)", "Main.p(v.get(0 - n))", VEC_OOB, ["G", "-1"]), ("get(len)", "Main.p(v.get(v.length()))", VEC_OOB, ["G", str(L)]),
                  ("get(len+1)", "Main.p(v.get(v.length() + n))", VEC_OOB, ["G", str(L + 1)]),
                  ("set(-1)", "let _ = v.set(0 - n, 5)", VEC_OOB, ["S", "-1", "5"]), ("set(len)", "let _ = v.set(v.length(), 5)", VEC_OOB, ["S", str(L), "5"]),
                  ("set(len+1)", "let _ = v.set(v.length() + n, 5)", VEC_OOB, ["S", str(L + 1), "5"])]
        for pn, code, end, mo in probes:
            body = list(st) + ['    Process.println("before");', f"    {code};", '    Process.println("after")']
            out.append({"family": "boundary-vec", "src": head + "\n".join(body) + tail, "expect": ["before"], "end": end,
                        "std": False, "both": True, "name": f"{name}/{pn}", "hops": hops, "mops": mo, "probe": True})
        body = list(st) + [f"    let _ = v.pop();" for _ in range(L)] + ['    Process.println("before");', "    Main.p(v.pop());",
                                                                       '    Process.println("after")']
        out.append({"family": "boundary-vec", "src": head + "\n".join(body) + tail, "expect": ["before"], "end": VEC_POP,
                    "std": False, "both": True, "name": f"{name}/pop-empty", "hops": hops, "mops": ["Q"] * (L + 1), "probe": True, "pops": L})
    # strings, integers at the extremes, Process.panic
    src = ("class Main {\n  function id(s: Str): Str = s\n  function deep(k: int): int = if k <= 0 { Process.panic<int>(\"deep \" :: Str.fromInt(k)) } else { Main.deep(k - 1) + 1 }\n"
           "  function main(): unit = {\n"
           "    let mx = \"2147483647\".toInt();\n    let mn = \"-2147483648\".toInt();\n    let z = \"0\".toInt();\n"
           "    Process.println(Str.fromInt(mx));\n    Process.println(Str.fromInt(mn));\n    Process.println(Str.fromInt(z));\n"
           "    Process.println(Str.fromInt(\"-13\".toInt() + \"7\".toInt()));\n"
           "    Process.println(if mn < mx { \"lt\" } else { \"ge\" });\n    Process.println(if mx <= mx { \"le\" } else { \"gt\" });\n"
           "    Process.println(if mn >= mx { \"ge\" } else { \"lt\" });\n    Process.println(if mx > mn { \"gt\" } else { \"le\" });\n"
           "    Process.println(if mn == mn { \"eq\" } else { \"ne\" });\n    Process.println(if mn != mx { \"ne\" } else { \"eq\" });\n"
           "    Process.println(Str.fromInt(mx / mx) :: Str.fromInt(mn / mn) :: Str.fromInt(mx % mx) :: Str.fromInt(z / mx));\n"
           "    Process.println(\"\" :: Main.id(\"\") :: \"x\" :: Main.id(\"\"));\n"
           "    Process.println(if Main.id(\"\") == \"\" { \"empty-eq\" } else { \"empty-ne\" });\n"
           "    Process.println(if Main.id(\"a\") == Main.id(\"ab\") { \"prefix-eq\" } else { \"prefix-ne\" });\n"
           "    Process.println(Str.fromInt(Main.deep(3)));\n    Process.println(\"unreachable\")\n  }\n}\n")
    out.append({"family": "boundary-str-int", "src": src,
                "expect": ["2147483647", "-2147483648", "0", "-6", "lt", "le", "lt", "gt", "eq", "ne", "1100", "x",
                           "empty-eq", "prefix-ne"], "end": "panic:deep 0", "std": False, "both": True, "name": "extremes+panic"})
    return out


def vec_model_tie(ctx, cases, stats):
    """Runs the Lean Vec runtime model (drv-c01 `vecrt`) on the op history of every boundary-vec case:
    its observations must equal the expectation computed here (which wasm and TS must meet); the
    capacity cases get their expectation from the model. Returns the cases to execute."""
    vc = [c for c in cases if c.get("mops") is not None]
    lines = []
    for c in vc:
        hops = [t for t in c["hops"]]
        lines.append("vecrt " + " ".join(hops + c["mops"]))
    try:
        rc, out, err = common.run_exec(common.driver_bin(PROP), [], lines)
    except Exception as ex:
        out = []
    if len(out) != len(vc):
        stats["vecrt"] = "driver unavailable"
        return [c for c in cases if c.get("expect") is not None]
    n = 0
    for c, o in zip(vc, out):
        vals, end = o.rsplit("|", 1)
        vals = [v for v in vals.split(",") if v != ""]
        # values printed by the history itself (its own pops) precede the probe's observations
        hist_prints = sum(1 for t in c["hops"] if t == "Q")
        vals = vals[hist_prints:]
        if c["expect"] is None:
            c["expect"] = vals
            n += 1
            continue
        if c.get("probe"):
            want_vals, want_end = [str(100 + i) for i in []], c["end"]
            got_vals = vals if not c.get("pops") else vals[c["pops"]:]
            ok = (end == want_end.replace("panic:", "panic:")) and got_vals == []
        else:
            ok = end == "ok" and vals == c["expect"]
        n += 1
        if not ok:
            ctx.violation(f"Vec runtime model (Model/VecRt.lean) and the expectation of boundary case {c['name']} differ: model says {o}",
                          {"broken": "vecrt model tie", "case": c["name"], "model": o, "expected": c["expect"], "end": c["end"],
                           "source": c["src"]}, no_input=True)
    stats["vecrt"] = n
    return cases


# ------------------------------------------------------------------------------------------------
# String constants of every byte class, in every position of the shared data segment
# ------------------------------------------------------------------------------------------------

STR_CLASSES = [
    ("ascii", "zeta"), ("latin1-letter", "caf\u00e9"), ("latin1-letters", "\u00df\u00b5m"),
    ("latin1-nonletter", "\u00d7\u00f7\u00a7"), ("nbsp", "a\u00a0b"), ("c1-control", "u\u0081v"),
    ("three-byte", "\u65e5\u672c"), ("four-byte", "\U0001d538x"), ("ascii-tail", "omega9"),
]


def unicode_cases():
    """One program per rotation step: every class is first, in the middle and last in some program.
    Each constant is printed, concatenated with its neighbour, and compared (== / !=) with an equal
    string built at run time from two pieces, and with a different string of the same length."""
    out = []
    n = len(STR_CLASSES)
    for rot in (0, 3, 6):
        order = STR_CLASSES[rot:] + STR_CLASSES[:rot]
        body, exp, consts = [], [], []
        for k, (cls, v) in enumerate(order):
            body.append(f'    Process.println("{v}");'); exp.append(v); consts.append(v)
        for k in range(n - 1):
            a, b = order[k][1], order[k + 1][1]
            body.append(f'    Process.println(Main.id("{a}") :: "|" :: Main.id("{b}"));'); exp.append(a + "|" + b)
        for cls, v in order:
            h = max(1, len(v) // 2)
            l, r = v[:h], v[h:]
            other = v[:-1] + ("q" if v[-1] != "q" else "r")
            body.append(f'    Process.println(if Main.id("{l}") :: Main.id("{r}") == "{v}" {{ "eq" }} else {{ "ne" }});'); exp.append("eq")
            body.append(f'    Process.println(if Main.id("{l}") :: Main.id("{r}") != "{v}" {{ "ne" }} else {{ "eq" }});'); exp.append("eq")
            body.append(f'    Process.println(if Main.id("{other}") == "{v}" {{ "eq" }} else {{ "ne" }});'); exp.append("ne")
            consts += [l, r, other]
        body.append('    Process.println(Str.fromInt("12".toInt()) :: "\u00e9" :: Str.fromInt(3))'); exp.append("12\u00e93")
        src = ("class Main {\n  function id(s: Str): Str = s\n  function main(): unit = {\n" + "\n".join(body) + "\n  }\n}\n")
        out.append({"family": "unicode-constants", "src": src, "expect": exp, "end": "ok", "std": False, "both": True,
                    "name": f"rotation {rot}", "consts": consts})
    return out


def dataseg_tie(ctx, cases, stats):
    """`print_byte_vec` against Model/DataSeg.lean: the WAT literal of the shared string data segment
    of the really compiled program must (1) assemble, (2) be exactly what the model prints for the
    assembled bytes, (3) contain the UTF-8 bytes of every string constant of the program."""
    lines = ["dataseg " + hexs(c["src"]) for c in cases]
    try:
        rc, impl, err = common.run_exec(common.harness_bin(PROP), [], lines)
    except Exception as ex:
        impl = []
    if len(impl) != len(cases) or not all(a.startswith("lit ") for a in impl):
        ctx.violation("dataseg protocol: the harness did not return the data segment literal",
                      {"broken": "dataseg", "impl": impl[:3]}, no_input=True)
        return
    mlines = ["dataseg " + a[4:] + " " + " ".join(hexs(k) for k in c.get("consts", []) if k) for a, c in zip(impl, cases)]
    rc, model, err = common.run_exec(common.driver_bin(PROP), [], mlines)
    for c, a, m in zip(cases, impl, model + ["<missing>"] * len(cases)):
        stats["dataseg"] = stats.get("dataseg", 0) + 1
        nk = len([k for k in c.get("consts", []) if k])
        if not (m.startswith("roundtrip=true ") and m.endswith(f"found={nk}/{nk}")):
            ctx.violation(f"the string data segment of a compiled program is not byte-exact ({c['name']}): model check says `{m}` "
                          f"(print_byte_vec must print one escape or one ASCII alphanumeric per byte, and every constant's bytes must be in the segment)",
                          {"kind": "e2e", "protocol": "dataseg", "source": c["src"], "literal_hex": a[4:260], "model": m,
                           "expected": c["expect"]})


# ------------------------------------------------------------------------------------------------
# Projects with several entry points: every emitted launcher is run (wasm and TS)
# ------------------------------------------------------------------------------------------------

def multientry_cases():
    """Deterministic: 2, 3 and 4 entry points; prefix-related module names; a dotted module; one entry
    importing a class of another entry; a non-entry library module. Each entry's Main.main prints its
    own lines: launcher i must print exactly those."""
    def mod(name, lines, extra="", imports=""):
        body = "\n".join(f'    Process.println("{l}");' for l in lines[:-1]) + f'\n    Process.println("{lines[-1]}")'
        return imports + extra + "class Main {\n  function main(): unit = {\n" + body + "\n  }\n}\n"
    lib = "class Util { function tag(s: Str): Str = \"[\" :: s :: \"]\" }\n"
    helper = "class Helper { function twice(s: Str): Str = s :: s }\n"
    projects = []
    # 2 entries, prefix-related names
    projects.append(({"Report": mod("Report", ["report 1", "report 2"]), "ReportAll": mod("ReportAll", ["all 1"])},
                     ["Report", "ReportAll"], {"Report": ["report 1", "report 2"], "ReportAll": ["all 1"]}))
    # 3 entries: one imports a class of another entry, a dotted module name
    srcs = {"Rep": mod("Rep", ["rep"], extra=helper),
            "Report": ("import { Helper } from Rep;\nclass Main {\n  function main(): unit = Process.println(Helper.twice(\"ab\"))\n}\n"),
            "audit.Log": mod("audit.Log", ["log a", "log b", "log c"])}
    projects.append((srcs, ["Rep", "Report", "audit.Log"], {"Rep": ["rep"], "Report": ["abab"], "audit.Log": ["log a", "log b", "log c"]}))
    # 4 entries + a library module; the entry order is not the alphabetical one
    srcs = {"lib.Util": lib,
            "Zeta": mod("Zeta", ["zeta"]),
            "Alpha": ("import { Util } from lib.Util;\nclass Main {\n  function main(): unit = Process.println(Util.tag(\"alpha\"))\n}\n"),
            "Alpha2": mod("Alpha2", ["alpha2 x", "alpha2 y"]),
            "a.b.Deep": mod("a.b.Deep", ["deep"])}
    projects.append((srcs, ["Zeta", "Alpha", "a.b.Deep", "Alpha2"],
                     {"Zeta": ["zeta"], "Alpha": ["[alpha]"], "a.b.Deep": ["deep"], "Alpha2": ["alpha2 x", "alpha2 y"]}))
    # the same 2-entry project with the entries listed the other way round
    projects.append(({"Report": mod("Report", ["report 1", "report 2"]), "ReportAll": mod("ReportAll", ["all 1"])},
                     ["ReportAll", "Report"], {"Report": ["report 1", "report 2"], "ReportAll": ["all 1"]}))
    return projects


def run_multientry(ctx, stats):
    projects = multientry_cases()
    lines = ["multientry " + json.dumps({"sources": srcs, "entries": entries}) for srcs, entries, _ in projects]
    rc, impl, err = common.run_exec(common.harness_bin(PROP), [], lines)
    rc2, model, err2 = common.run_exec(common.driver_bin(PROP), [], ["launcher " + " ".join(entries) for _, entries, _ in projects])
    for k, (srcs, entries, expect) in enumerate(projects):
        stats["multientry"] = stats.get("multientry", 0) + 1
        payload = {"kind": "multientry", "sources": srcs, "entries": entries, "expected": expect}
        try:
            r = json.loads(impl[k])
        except Exception:
            ctx.violation("multientry protocol: no answer from the harness", {"broken": "multientry", "impl": impl[k:k + 1]}, no_input=True)
            continue
        if r.get("compile") != "ok":
            ctx.violation(f"a project with entry points {entries} is rejected or crashes the compiler: {r.get('compile')} {(r.get('msg') or '')[:300]}",
                          payload, no_input=(r.get("compile") == "errors"))
            continue
        names = model[k].split(" ") if k < len(model) else []
        for i, (e, run) in enumerate(zip(entries, r["runs"])):
            payload_i = dict(payload, entry=e, run=run)
            for leg in ("wasm", "ts"):
                got = run[leg]
                if got.get("end") == "no-node":
                    stats["no_node"] = True
                    continue
                if (got.get("lines"), got.get("end")) != (expect[e], "ok"):
                    ctx.violation(f"launcher of entry point {e} (number {i + 1} of {entries}) on {leg} prints {got.get('lines')} / ends "
                                  f"{str(got.get('end'))[:160]}; its Main.main prints {expect[e]} / ok", payload_i)
                    break
            if i < len(names) and run.get("callee") != names[i]:
                ctx.violation(f"launcher of entry point {e} calls `{run.get('callee')}`, the model (Model/Launcher.lean) says `{names[i]}`",
                              dict(payload_i, broken="launcher tie"), no_input=True)


def e2e_case(rng):
    k = rng.below(100)
    if k < 14:
        return e2e_effects(rng)
    k = rng.below(100)
    if k < 12:
        return e2e_nat(rng, rng.chance(1, 2))
    if k < 20:
        return e2e_mutual(rng, rng.chance(1, 2))
    if k < 32:
        return e2e_option(rng)
    if k < 46:
        return e2e_tailperm(rng, rng.chance(1, 2))
    if k < 60:
        return e2e_hanoi(rng)
    if k < 70:
        return e2e_list(rng)
    if k < 78:
        return e2e_constparam(rng)
    if k < 88:
        return e2e_iface(rng)
    if k < 92:
        return e2e_mapset(rng)
    if k < 96:
        return e2e_vecenum(rng)
    return e2e_std(rng)


def src_leg(ctx, progs, res, cases, stats):
    """Extra leg (builder-SRC): every compiled program is also evaluated by the reference semantics
    `Source.eval` (Lean, lean/SamVerif/Model/Source.lean through vlib/srceval.py) and compared with
    the WebAssembly and TS runs. Degrades gracefully: skipped (and said so in the evidence) when the
    interpreter or its dump tool is not available. A disagreement in which the compiled code does
    match the output computed by the generator is a defect of the reference interpreter, not of the
    compiler: it is recorded in the evidence for builder-SRC and raises nothing here; if the compiled
    code matches neither, the ordinary end-to-end comparison below reports the violation."""
    if os.environ.get("C01_NO_SRC_LEG"):
        stats["src_leg"]["status"] = "disabled by C01_NO_SRC_LEG"
        return
    budget = stats["src_leg"].get("budget", 0)
    if budget <= 0:
        return
    try:
        from . import srceval
        if not (os.path.exists(srceval.DRV) and os.path.exists(srceval.SRCDUMP)):
            srceval.build()
        sel = list(range(min(len(progs), budget)))
        stats["src_leg"]["budget"] = budget - len(sel)
        st, bad = srceval.check_c01_leg([progs[i] for i in sel], [res[i] for i in sel], legs=("wasm", "ts"))
    except Exception as ex:     # missing drv-src / srcdump, build failure, crash of the interpreter
        stats["src_leg"]["status"] = f"unavailable: {type(ex).__name__}: {str(ex)[:160]}"
        stats["src_leg"]["budget"] = 0
        return
    sl = stats["src_leg"]
    sl["status"] = "ran"
    for k in ("programs", "compiled", "agree", "agree_flagged", "lines_compared", "model_rejects"):
        sl[k] = sl.get(k, 0) + st.get(k, 0)
    for k in ("excluded", "unevaluated"):
        for why, n in st.get(k, {}).items():
            sl.setdefault(k, {})[why] = sl.get(k, {}).get(why, 0) + n
    for b in bad:
        c = cases[sel[b["index"]]]
        r = res[sel[b["index"]]]
        w = r.get("wasm", {})
        compiled_matches_generator = (w.get("lines"), w.get("end")) == (c["expect"], "ok")
        sl["disagree"] = sl.get("disagree", 0) + 1
        if compiled_matches_generator and len(sl.setdefault("disagreements_for_SRC", [])) < 3:
            sl["disagreements_for_SRC"].append({"family": c["family"], "leg": b["leg"], "detail": str(b["detail"])[:300],
                                                "source": c["src"][:1500]})


def run_e2e(ctx, cases, label, stats):
    def sources(c):
        d = {"Main": c["src"]}
        if c.get("extra") == "set":      # std/set.sam is not among the modules the compiler embeds
            d["std.set"] = open(os.path.join(common.REPO, "std", "set.sam")).read()
        return d
    progs = [{"sources": sources(c), "entry": "Main", "std": bool(c.get("std")), "ts": True, "timeout_ms": 10000}
             for c in cases]
    try:
        res = common.exec_programs(progs)
    except Exception as ex:  # oracle infrastructure failure is a broken tie, not silence
        ctx.violation("real-execution oracle failed to run", {"broken": "exec oracle", "error": repr(ex)}, no_input=True)
        return
    src_leg(ctx, progs, res, cases, stats)
    for c, r in zip(cases, res):
        stats["e2e"] += 1
        stats["families"][c["family"]] = stats["families"].get(c["family"], 0) + 1
        if r.get("compile") == "panic" and "unknown type: failed to find name" in (r.get("msg") or ""):
            # C03-F5 (owned by C03): a struct used only as payload of an enum variant is eliminated while
            # the variant's sub-struct type still refers to it; attributed, not a C01 verdict
            stats["attributed_C03_F5"] = stats.get("attributed_C03_F5", 0) + 1
            continue
        if r.get("compile") != "ok":
            ctx.violation(f"generated {c['family']} program is rejected or crashes the compiler: {r.get('compile')}",
                          {"kind": "e2e", "label": label, "source": c["src"], "compile": r.get("compile"), "msg": (r.get("msg") or "")[:1500]},
                          no_input=(r.get("compile") == "errors"))
            continue
        w = r.get("wasm", {})
        if w.get("end") == "no-node":
            stats["no_node"] = True
            continue
        got = (w.get("lines"), w.get("end"))
        want_end = c.get("end", "ok")
        if got == (c["expect"], want_end):
            t = r.get("ts", {})
            if c.get("both") and t.get("end") not in (None, "no-node") and (t.get("lines"), t.get("end")) != (c["expect"], want_end):
                ctx.violation(f"TypeScript output of a {c['family']} program ({c.get('name', '')}) is {t.get('lines')} / {t.get('end')}; "
                              f"the language prescribes {c['expect']} / {want_end} (WebAssembly agrees with that)",
                              {"kind": "e2e", "label": label, "source": c["src"], "expected": c["expect"], "expected_end": want_end,
                               "wasm": w, "ts": t})
                continue
            stats["e2e_ok"] += 1
            continue
        # C01-F1 / C01-F2 are fixed (e715c2f, c57720b): nothing is suppressed any more
        ctx.violation(f"compiled WebAssembly of a {c['family']} program {c.get('name', '')} prints {w.get('lines')} / ends {w.get('end')}; "
                      f"the source semantics give {c['expect']} / {want_end}",
                      {"kind": "e2e", "label": label, "source": c["src"], "expected": c["expect"], "wasm": w,
                       "ts": r.get("ts")})


# ------------------------------------------------------------------------------------------------
# driver
# ------------------------------------------------------------------------------------------------

def check_protocol_cases(ctx, cases, label, stats):
    lines = [c["line"] for c in cases]
    impl, model = common.run_pair(PROP, lines)
    ties, concrete = [], set()
    for i, c in enumerate(cases):
        if len(ctx.violations) >= 3:
            break
        a = impl[i] if i < len(impl) else "<missing>"
        m = model[i] if i < len(model) else "<missing>"
        stats[c["kind"]] += 1
        tie, oracle = None, None
        if c["kind"] == "layout":
            tie = layout_compare(c, a, m)
            conf = layout_conflations(a, c.get("deps"))
            if conf:
                stats["layout_conflating"] += 1
                oracle = ("enum layout conflates two values (unboxed payload type may be a non-pointer): "
                          + ", ".join(f"{e} unboxes {t}" for e, t, _ in conf[:3]))
            if "U(" in a:
                stats["layout_unboxed"] += 1
        elif c["kind"] == "tailrec":
            tie, oracle = tailrec_compare(c, a, m)
            if " while " in a:
                stats["tailrec_rewritten"] += 1
        elif c["kind"] == "tailstmt":
            tie, oracle = tailstmt_compare(c, a, m)
            if " while " in a:
                stats["tailstmt_rewritten"] += 1
            if " cast " in a:
                stats["tailstmt_snapshots"] += 1
            if "plain=true good=true" in m and " while " in a:
                stats["tailstmt_in_theorem_shape"] += 1
        elif c["kind"] == "lirloop":
            tie, oracle = lirloop_compare(c, a, m)
            if "casts _" in a:
                stats["lirloop_snapshots"] += 1
        elif c["kind"] == "cpeprog":
            tie, oracle = cpeprog_compare(c, a, m)
            if m.startswith("ok") and any(x == "U" or x.startswith("C") for e in m.split(" ")[1].split(";")
                                          for x in e.split("=")[1].split(",")):
                stats["cpeprog_eliminated"] += 1
        elif c["kind"] == "cpesem":
            tie, oracle = cpesem_compare(c, a, m)
            if m.startswith("ok") and any(x in ("U",) or x.startswith("C") for x in m.split(" ")[1].split(",")):
                stats["cpesem_eliminated"] += 1
        else:
            tie, oracle = cpe_compare(c, a, m)
        payload = {"protocol": c["kind"], "label": label, "ops": [c["line"]], "impl": a, "model": m}
        if c.get("source"):
            payload["source"] = c["source"]
        if oracle:
            concrete.add(c["kind"])
            ctx.violation(f"the real {c['kind']} stage changes behaviour: {oracle}", payload)
        elif tie:
            payload["broken"] = (f"correspondence `{c['kind']}` (lean/SamVerif/Model vs crates/samlang-compiler): "
                                 "the theorems of Props/C01.lean no longer speak about this code")
            ties.append((c["kind"], tie, payload))
    # a broken tie is reported on its own only when the search (the implementation-side oracle over the
    # whole batch) found no concrete failing input for that stage
    seen = set()
    for kind, tie, payload in ties:
        if kind in concrete or kind in seen:
            continue
        seen.add(kind)
        if stats.get("search_rng") is not None:     # search for a concrete failing program end to end
            before = len(ctx.violations)
            srng = stats["search_rng"]
            run_e2e(ctx, [e2e_case(srng.fork()) for _ in range(150)], f"search after broken {kind} tie", stats)
            if any(not v[1] for v in ctx.violations[before:]):
                continue
        ctx.violation(f"model/implementation disagreement on protocol {kind}: {tie}", payload, no_input=True)


PROBES_F1 = ["class Nat(Z, S(Nat)) {\n  function toInt(n: Nat): int = match n { Z -> 0, S(m) -> 1 + Nat.toInt(m) }\n}\n"
             "class Main {\n  function main(): unit = {\n    let _ = Process.println(Str.fromInt(Nat.toInt(Nat.S(Nat.S(Nat.Z())))));\n  }\n}\n"]
PROBE_F2 = ("class Main {\n  function swap(a: int, b: int, n: int): int = if n == 0 { a * 10 + b } else { Main.swap(b, a, n - 1) }\n"
            "  function main(): unit = {\n    let _ = Process.println(Str.fromInt(Main.swap(1, 2, \"1001\".toInt())));\n  }\n}\n")


def run(ctx):
    res = common.proof_gate(ctx)
    rng = ctx.rng
    stats = {"src_leg": {"status": "not run", "budget": ctx.scale(120, 1500)}, "search_rng": None, "layout": 0, "tailrec": 0, "cpe": 0, "cpesem": 0, "cpesem_eliminated": 0, "cpeprog": 0, "cpeprog_eliminated": 0, "lirloop": 0, "lirloop_snapshots": 0, "tailstmt": 0, "tailstmt_rewritten": 0, "tailstmt_snapshots": 0, "tailstmt_in_theorem_shape": 0, "e2e": 0, "e2e_ok": 0, "known_hits": 0, "families": {},
             "layout_unboxed": 0, "layout_conflating": 0, "tailrec_rewritten": 0, "no_node": False}
    try:
        common.build_exec()
        have_exec = True
    except common.BuildError as e:
        have_exec = False
        ctx.violation("exec oracle build failed", {"broken": e.what, "log": e.log}, no_input=True)
    if have_exec:
        stats["search_rng"] = rng.fork()
    # corpus first
    cdir = os.path.join(common.VERIF, "corpus", PROP)
    for f in sorted(os.listdir(cdir)) if os.path.isdir(cdir) else []:
        data = json.load(open(os.path.join(cdir, f)))
        if data.get("kind") == "e2e" and have_exec:
            run_e2e(ctx, [data], f"corpus/{f}", stats)
    n_layout, n_tail, n_cpe, n_e2e = ctx.scale((400, 800, 500, 160), (6000, 15000, 9000, 2500))
    # protocol cases
    cases = [{"kind": "cpe", "line": l, "arity": {}} for l in TOUR_CPE] + cpeprog_permutation_cases()
    cases += [layout_case(rng.fork()) for _ in range(n_layout)]
    cases += [tailrec_case(rng.fork(), allow_backward=(i % 2 == 0)) for i in range(n_tail)]
    cases += [cpe_case(rng.fork(), rotate_bias=4) for _ in range(n_cpe)]
    cases += [cpesem_case(rng.fork()) for _ in range(n_cpe)]
    cases += [tailstmt_case(rng.fork()) for _ in range(n_tail)]
    cases += [cpeprog_case(rng.fork()) for _ in range(n_cpe)]
    cases += [lirloop_case(rng.fork()) for _ in range(n_layout)]
    for i in range(0, len(cases), 400):
        check_protocol_cases(ctx, cases[i:i + 400], f"generated seed={ctx.seed}", stats)
        if ctx.violations:
            break
    # end to end
    if have_exec and not ctx.violations:
        uni = unicode_cases()
        dataseg_tie(ctx, uni + tour_cases(), stats)
        run_multientry(ctx, stats)
        e2e = (tour_cases() + uni + vec_model_tie(ctx, boundary_cases(), stats) + c03_permutation_sources() +
               [e2e_case(rng.fork()) for _ in range(n_e2e)])
        # one dedicated probe per open finding
        e2e.append({"family": "probe-F1", "src": PROBES_F1[0], "expect": ["2"], "sig_f1": True, "sig_f2": False})
        e2e.append(e2e_nat(rng.fork(), True))
        e2e.append(e2e_mutual(rng.fork(), True))
        e2e.append({"family": "probe-F2", "src": PROBE_F2, "expect": ["21"], "sig_f1": False, "sig_f2": True})
        e2e.append(e2e_tailperm(rng.fork(), True))
        for i in range(0, len(e2e), 60):
            run_e2e(ctx, e2e[i:i + 60], f"generated seed={ctx.seed}", stats)
            if ctx.violations:
                break
    total = stats["layout"] + stats["tailrec"] + stats["cpe"] + stats["cpesem"] + stats["cpeprog"] + stats["tailstmt"] + stats["lirloop"] + stats["e2e"]
    ctx.cov.update({
        "evaluations": total,
        "distinct_nontrivial": stats["layout_unboxed"] + stats["tailrec_rewritten"] + stats["e2e_ok"],
        "rule": "layout: random class systems (structs, recursive/mutually recursive/generic enums, Str/Vec/function-typed fields) "
                "with a random demand order; tailrec: random if-else trees with self tail calls (in-place, permuted, literal "
                "arguments) x 4 argument vectors; tailstmt: random statement lists (non-tail binaries/ifs/self calls, nested ifs with several final assignments, collector-less calls in unit-like functions) compared as program text with the real rewrite + before/after interpretation; cpe: random call graphs (constant/varying call sites, in-place forwarding, "
                "rotation); e2e: 7 program families with expected output computed by the generator, run as wasm under Node 22. "
                "non-trivial = layout case with at least one Unboxed variant + tailrec case that was rewritten into a loop + "
                "e2e program whose wasm output matched",
        "samples": [cases[0]["line"][:300] if cases else "", cases[n_layout]["line"][:300] if len(cases) > n_layout else ""],
        "traces_validated_against_impl": stats["layout"] + stats["tailrec"] + stats["cpe"] + stats["cpesem"] + stats["cpeprog"] + stats["tailstmt"] + stats["lirloop"],
        "histogram": {k: v for k, v in stats.items() if k != "search_rng"},
        "pending": ["K3b fragment lacks non-self calls / memory statements as non-tail statements; single-assignment "
                    "well-formedness behind the iteration-state abstraction is assumed, not proved (plan: exec_agree over `closed`)",
                    "K4c: Int31/string constants; eliminations in several functions at once composed only by the driver",
                    "match lowering is covered by C03 (MatchLower), not here"]})
    if stats["no_node"]:
        ctx.assumptions.append("Node >= 22 missing: end-to-end leg skipped, coverage reduced to the stage protocols")
    ctx.assumptions += ["runs hitting 32-bit overflow or division by zero are excluded by the property; generators avoid division",
                        "locals of a loop body are single-assignment and defined before use (state carried between iterations = parameter values)"]
    return ctx.finish(res, trusted=common.TRUSTED_COMMON + [
        "hand-written models Model/EnumLayout.lean, Model/TailRec.lean; generics are instantiated by vlib/c01.py before the model sees them",
        "MIR interpreter inside harness/src/bin/c01.rs (first written for C02; loop variables assigned sequentially as in wasm_lowering.rs:425-441)",
        "Node 22 / V8 as execution oracle for the emitted WebAssembly; expected outputs computed by the generators in vlib/c01.py",
        "not modelled (only exercised end to end): HIR lowering incl. match lowering, type deduplication, closure conversion, LIR lowering, wasm instruction selection, libsam.wat/loader.js"])


def replay(ctx, path):
    data = json.load(open(path))
    rp = data.get("replay", data)
    if rp.get("ops"):
        common.build_harness(PROP); common.build_lean(["drv-c01"])
        impl, model = common.run_pair(PROP, rp["ops"])
        for l, a, m in zip(rp["ops"], impl, model):
            print("OP   ", l[:400]); print("IMPL ", a[:600]); print("MODEL", m[:600])
        if rp.get("source"):
            print(rp["source"])
        return 1
    src = rp.get("source") or rp.get("src")
    if src:
        expected = rp.get("expected") or rp.get("expect")
        common.build_exec()
        r = common.exec_programs([{"sources": {"Main": src}, "entry": "Main", "std": False, "ts": True, "timeout_ms": 10000}])[0]
        print(src); print("expected:", expected, "/ ok"); print("wasm:", r.get("wasm")); print("ts:", r.get("ts"))
        return 0 if (r.get("wasm", {}).get("lines") == expected and r["wasm"].get("end") == "ok") else 1
    print(json.dumps(data, indent=1)[:3000])
    return 1
