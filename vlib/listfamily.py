"""Bracketed, comma-separated lists of the samlang grammar — shared deterministic generator
(used by C08's reparse oracle and available to C09's comment-preservation oracle).

KINDS: name -> (module template with one `{L}` slot for the whole bracketed list, opener, closer,
element texts).  `modules()` yields (key, text) for every kind x n in {1,2,3} x comment kind
{block, doc, line} x gap {after opener, before each comma, after each comma, before closer}, plus a
comment-free variant with long elements (forces line breaking, i.e. the layout engine's own
trailing commas), `extra_modules()` (or-pattern alternatives, one-element lists with a trailing comma,
empty lists holding only a comment) and `trailing(kind, n)` texts with a hand-written trailing comma."""

COMMENTS = {"block": "/* c */", "doc": "/** d */", "line": "// l\n"}

KINDS = {
    "call-args":        ("class A { function f(): int = g{L} }", "(", ")", ["a", "b + 1", "c.d"]),
    "tuple":            ("class A { function f(): int = {L} }", "(", ")", ["1", "b", "c"]),
    "lambda-params":    ("class A { function f(): int = {L} -> 1 }", "(", ")", ["a", "b: int", "c"]),
    "fn-params":        ("class A { function f{L}: int = 1 }", "(", ")", ["a: int", "b: Str", "c: bool"]),
    "type-params":      ("class A{L} { function f(): int = 1 }", "<", ">", ["T", "R: Foo", "S"]),
    "member-tparams":   ("class A { function {L} f(): int = 1 }", "<", ">", ["T", "R: Foo", "S"]),
    "type-args-annot":  ("class A { function f(x: Foo{L}): int = 1 }", "<", ">", ["int", "Str", "Bar<int>"]),
    "type-args-member": ("class A { function f(): int = Foo.of{L}(1) }", "<", ">", ["int", "Str", "bool"]),
    "fntype-params":    ("class A { function f(g: {L} -> int): int = 1 }", "(", ")", ["int", "Str", "(int) -> int"]),
    "tuple-pattern":    ("class A { function f(): int = { let {L} = p; 1 } }", "(", ")", ["a", "_", "B(c)"]),
    "variant-pattern":  ("class A { function f(): int = match x { K{L} -> 1 } }", "(", ")", ["a", "_", "(b, c)"]),
    "object-pattern":   ("class A { function f(): int = { let {L} = r; 1 } }", "{", "}", ["f", "g as h", "i as _"]),
    "struct-fields":    ("class A{L} { function f(): int = 1 }", "(", ")", ["val a: int", "private val b: Str", "val c: bool"]),
    "variants":         ("class A{L} { function f(): int = 1 }", "(", ")", ["B", "C(int)", "D(int, Str)"]),
    "variant-payload":  ("class A(K{L}, Z) { function f(): int = 1 }", "(", ")", ["int", "Str", "Foo<int>"]),
    "imports":          ("import {L} from m.N\nclass A { function f(): int = 1 }", "{", "}", ["B", "C", "D"]),
    "extends":          ("interface I {}\nclass A : {L} { function f(): int = 1 }", "", "", ["I", "J<int>", "K"]),
    "match-cases":      ("class A { function f(): int = match x {L} }", "{", "}", ["A -> 1", "B(v) -> v", "_ -> 0"]),
}
LONG = "veryLongIdentifierNumber"


def list_text(kind, items, gaps=None):
    """items joined by commas with optional comment texts at gap positions:
    gaps: dict position -> comment; positions: ('open',), ('before', i), ('after', i), ('close',)"""
    _, op, cl, _ = KINDS[kind]
    gaps = gaps or {}
    s = op + (" " + gaps[("open",)] + " " if ("open",) in gaps else "")
    for i, it in enumerate(items):
        s += it
        if i < len(items) - 1:
            s += (" " + gaps[("before", i)] + " " if ("before", i) in gaps else "") + "," + \
                 (" " + gaps[("after", i)] + " " if ("after", i) in gaps else " ")
    s += (" " + gaps[("close",)] + " " if ("close",) in gaps else "") + cl
    return s


def module(kind, lst):
    return KINDS[kind][0].replace("{L}", lst)


def modules():
    for kind, (_, op, cl, elems) in KINDS.items():
        for n in (1, 2, 3):
            items = elems[:n]
            yield (kind, n, "plain", "-"), module(kind, list_text(kind, items))
            positions = ([("open",)] if op else []) + [("before", i) for i in range(n - 1)] + \
                [("after", i) for i in range(n - 1)] + ([("close",)] if cl else [])
            for ck, ctext in COMMENTS.items():
                for pos in positions:
                    yield (kind, n, ck, pos), module(kind, list_text(kind, items, {pos: ctext}))
        if kind not in ("match-cases",):
            yield (kind, 3, "long", "-"), module(kind, list_text(kind, long_items(kind)))
    yield from extra_modules()


def extra_modules():
    """shapes outside the kind x gap grid (requested by C09): or-pattern alternatives with comments around
    `|`, one-element lists with a trailing comma, empty lists with only a comment inside."""
    out = []
    for ck, c in COMMENTS.items():
        for i, text in enumerate([f"A {c} | B | C", f"A | {c} B | C", f"A | B {c} | C", f"A | B | {c} C", f"{c} A | B", f"A(x) | B(x {c})"]):
            out.append((("or-pattern", 3, ck, ("alt", i)), f"class A {{ function f(): int = match x {{ {text} -> 1, _ -> 0 }} }}"))
        for kind in ("call-args", "tuple", "fn-params", "type-params", "type-args-annot", "type-args-member", "fntype-params",
                     "tuple-pattern", "variant-pattern", "object-pattern", "struct-fields", "variants", "imports"):
            _, op, cl, elems = KINDS[kind]
            out.append(((kind, 1, ck, ("single-trailing",)), module(kind, f"{op}{elems[0]}, {c} {cl}")))
            out.append(((kind, 1, ck, ("single-trailing-before",)), module(kind, f"{op}{elems[0]} {c} ,{cl}")))
        for kind in ("call-args", "fn-params", "lambda-params"):
            _, op, cl, _ = KINDS[kind]
            out.append(((kind, 0, ck, ("empty",)), module(kind, f"{op} {c} {cl}")))
        out.append((("block", 0, ck, ("empty",)), f"class A {{ function f(): unit = {{ {c} }} }}"))
        out.append((("class-body", 0, ck, ("empty",)), f"class A {{ {c} }}\ninterface I {{ {c} }}"))
    return out


def long_items(kind):
    base = {"call-args": [f"{LONG}{i}" for i in range(3)], "tuple": [f"{LONG}{i}" for i in range(3)],
            "lambda-params": [f"{LONG}{i}" for i in range(3)], "fn-params": [f"{LONG}{i}: int" for i in range(3)],
            "type-params": [f"VeryLongTypeParameter{i}" for i in range(3)], "member-tparams": [f"VeryLongTypeParameter{i}" for i in range(3)],
            "type-args-annot": [f"VeryLongTypeName{i}" for i in range(3)], "type-args-member": [f"VeryLongTypeName{i}" for i in range(3)],
            "fntype-params": [f"VeryLongTypeName{i}" for i in range(3)], "tuple-pattern": [f"{LONG}{i}" for i in range(3)],
            "variant-pattern": [f"{LONG}{i}" for i in range(3)], "object-pattern": [f"{LONG}{i}" for i in range(3)],
            "struct-fields": [f"val {LONG}{i}: int" for i in range(3)], "variants": [f"VeryLongVariantName{i}(int)" for i in range(3)],
            "variant-payload": [f"VeryLongTypeName{i}" for i in range(3)], "imports": [f"VeryLongClassName{i}" for i in range(3)],
            "extends": [f"VeryLongInterfaceName{i}" for i in range(3)]}
    return base[kind]


def trailing(kind, n):
    """the list with a hand-written trailing comma (None for kinds without a closing bracket)"""
    _, op, cl, elems = KINDS[kind]
    if not cl:
        return None
    return module(kind, op + ", ".join(elems[:n]) + "," + cl)
