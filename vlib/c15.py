"""C15 — navigation and rename agree with the language's scoping rules.

Proof: lean/SamVerif/Props/C15.lean over Model/Scope.lean.
Tie: protocol `ssa` (real perform_ssa_analysis_on_module vs model) and protocol `q`
(query::definition_location / query::all_references of a real ServerState at *every* local
identifier occurrence vs the model's binding / reference set).
Oracle (model-free, `rn`): rewrite::rename at every occurrence to a fresh name: result parses, has
no diagnostics, same def/use graph, exactly the binding and its uses carry the new name, renaming
back gives the formatted original; behaviour of the renamed program under Node is unchanged.
"""
import glob, json, os, re
from . import common, scopegen
from .common import hexs, unhex
from .c13 import run_impl, run_model

PROP = "C15"


def wrap_single(p):
    """all classes in one module named Test (ServerState with a single module, no std)"""
    t = scopegen.render(p)["Main"]
    # Process/Str are builtins of the root module: available without std
    return t


def run_impl_parallel(lines, workers=8, chunk=None):
    """the harness processes are independent per line: run contiguous chunks on several processes
    and concatenate the answers in order (all random choices were drawn before; deterministic)"""
    from concurrent.futures import ThreadPoolExecutor
    if len(lines) < 2 * workers:
        return run_impl(lines, PROP)
    n = chunk or (len(lines) + workers - 1) // workers
    chunks = [lines[i:i + n] for i in range(0, len(lines), n)]
    with ThreadPoolExecutor(max_workers=workers) as ex:
        outs = list(ex.map(lambda c: run_impl(c, PROP), chunks))
    return [a for o in outs for a in o]


def pair(op, texts):
    impl = run_impl_parallel([f"{op} {hexs(t)}" for t in texts])
    idx, ml = [], []
    for i, a in enumerate(impl):
        if "=> " in a:
            idx.append(i); ml.append(f"{op} " + a.split("=> ")[0])
    model = run_model(ml, PROP) if ml else []
    res = [(texts[i], impl[i].split("=> ", 1)[1], model[j]) for j, i in enumerate(idx)]
    other = [(texts[i], impl[i]) for i in range(len(impl)) if "=> " not in impl[i]]
    return res, other


def run(ctx):
    res = common.proof_gate(ctx)
    # part b (printer round trip of the renamed tree) imports builder-C08's Props/C08: audited
    # separately; if it does not build (C08 mid-edit) it is listed as not checked, not as a C15 failure
    partb = "checked"
    okb, _ = common.build_lean(["SamVerif.Props.C15b"])
    if okb:
        rb = common.audit("C15b")
        res["obligations"] += rb["obligations"]; res["discharged"] += rb["discharged"]
        if rb["failed"]:
            ctx.violation("proof obligations of Props/C15b.lean no longer check: " + "; ".join(f"{n} ({w})" for n, w in rb["failed"][:4]),
                          {"broken_theorems": rb["failed"], "log": rb["log"][-3000:]}, no_input=True)
    else:
        res["obligations"] += ["renamed_roundtrip"]
        partb = "not checked in this run: SamVerif.Props.C15b (imports C08's Props/C08.lean) does not build"
    rng = ctx.rng
    if not os.path.exists(common.harness_bin(PROP)) or not os.path.exists(common.driver_bin(PROP)):
        return ctx.finish(res, trusted=common.TRUSTED_COMMON)
    hist, samples = {}, []
    # the cost of the rename oracle grows faster than linearly with the module size: the quick tier
    # bounds the size of a generated module (thorough: unbounded)
    progs = []
    for _ in range(ctx.scale(60, 1500)):
        p = scopegen.gen_program(rng.fork(), None)
        tries = 0
        while ctx.quick and len(wrap_single(p)) > 5200 and tries < 8:
            p = scopegen.gen_program(rng.fork(), None); tries += 1
        progs.append(p)
    texts = [wrap_single(p) for p in progs]
    texts += [wrap_single(p) for p in scopegen.sibling_programs() if p["path"][1] == "accepted"]      # sibling scopes re-binding a name
    cdir = os.path.join(common.VERIF, "corpus", PROP)
    corpus = [open(f).read() for f in sorted(glob.glob(os.path.join(cdir, "*.sam")))]
    repo = [open(f).read() for f in sorted(glob.glob(os.path.join(common.REPO, "tests", "*.sam")))]
    # ---- tie 1: ssa
    ssa_res, ssa_other = pair("ssa", corpus + repo + texts)
    for t, a in ssa_other:
        if a.startswith("locinv"):
            ctx.violation("the parser builds an `E::LocalId` whose expression location differs from its identifier's location (definition / references / rename navigate by it): " + a[7:160],
                          {"protocol": "ssa", "module": t, "impl": a})
            break
    for t, a, m in ssa_res:
        if a != m:
            ctx.violation("model/implementation disagreement on protocol ssa (Model/Scope.lean vs ssa_analysis.rs)",
                          {"protocol": "ssa", "module": t, "impl": a, "model": m, "broken": "correspondence ssa"}, no_input=True)
            break
    hist["ssa_modules_compared"] = len(ssa_res)
    # ---- tie 2: queries at every occurrence
    q_res, q_other = pair("q", corpus + texts)
    nocc = 0
    for t, a, m in q_res:
        nocc += len(a.split(",")) if a else 0
        if a != m:
            bad = [(x, y) for x, y in zip(a.split(","), m.split(",")) if x != y][:3]
            ctx.violation(f"definition_location / all_references disagree with scope resolution at occurrence(s) {bad}",
                          {"protocol": "q", "module": t, "impl": a, "model": m, "first_differences": bad})
            break
    # the deterministic family corpus/C15/forms.sam must keep a variable use in every child position
    # of every expression form (a new `E::` variant is a compile error in scopedump.rs)
    EXPECT = {"Binary.e1", "Binary.e2", "Block.final", "Block.let-value", "Block.statement", "Call.argument", "Call.callee",
              "FieldAccess.object", "IfElse.condition", "IfElse.else", "IfElse.guard-matched", "IfElse.then", "Lambda.body",
              "Match.case-body", "Match.matched", "Tuple.element", "Unary.argument"}
    fpath = os.path.join(cdir, "forms.sam")
    if os.path.exists(fpath):
        got = set(run_impl(["vp " + hexs(open(fpath).read())], PROP)[0].split(" "))
        hist["forms_family_positions"] = len(got & EXPECT)
        if EXPECT - got:
            ctx.violation("corpus/C15/forms.sam no longer places a variable use in: " + ", ".join(sorted(EXPECT - got)),
                          {"broken": "deterministic family coverage", "missing": sorted(EXPECT - got)}, no_input=True)
    # ---- tie 2b (fixed part, independent of the generator): every local occurrence of every
    # tests/*.sam file of the repository, checked as one project (the files import each other)
    repo_mods = {"tests." + os.path.basename(f)[:-4]: open(f).read()
                 for f in sorted(glob.glob(os.path.join(common.REPO, "tests", "*.sam")))}
    nrepo_occ, nrepo_mods = 0, 0
    if repo_mods:
        names = sorted(repo_mods)
        k = 6
        groups = [names[i::k] for i in range(k)]
        lines_m = ["qmulti " + hexs(json.dumps(dict(repo_mods, __only__=",".join(g)))) for g in groups if g]
        from concurrent.futures import ThreadPoolExecutor
        with ThreadPoolExecutor(max_workers=k) as ex:      # one process per group; each loads the whole project
            answers = list(ex.map(lambda l: run_impl([l], PROP)[0], lines_m))
        ans = " ||| ".join(a for a in answers if a)
        parts = sorted([x.split(" :: ", 1) for x in ans.split(" ||| ") if " :: " in x])
        if not parts:
            ctx.violation("query sweep over the repository's tests/*.sam crashed: " + ans[:160], {"protocol": "qmulti", "impl": ans[:2000]})
        good = [(n, r) for n, r in parts if "=> " in r]
        model = run_model(["q " + r.split("=> ")[0] for _, r in good], PROP) if good else []
        for (n, r), m in zip(good, model):
            a = r.split("=> ", 1)[1]
            nrepo_mods += 1
            nrepo_occ += len(a.split(",")) if a else 0
            if a != m and not ctx.violations:
                bad = [(x, y) for x, y in zip(a.split(","), m.split(",")) if x != y][:3]
                ctx.violation(f"definition_location / all_references disagree with scope resolution in the repository's own {n.replace('.', '/')}.sam at occurrence(s) {bad}",
                              {"protocol": "qmulti", "module_name": n, "module": repo_mods[n], "impl": a, "model": m, "first_differences": bad})
        for n, r in parts:
            if r.startswith("locinv") and not ctx.violations:
                ctx.violation("the parser builds an `E::LocalId` whose location differs from its identifier's location in " + n + ": " + r[7:160],
                              {"protocol": "qmulti", "module_name": n, "module": repo_mods[n], "impl": r})
        hist["q_repo_rejected_or_syntax"] = sum(1 for _, r in parts if "=> " not in r)
    hist["q_repo_modules"] = nrepo_mods; hist["q_repo_occurrences"] = nrepo_occ
    for t, a in q_other:
        if a.startswith("panic") or a.startswith("<"):
            ctx.violation("query crashed: " + a[:120], {"protocol": "q", "module": t, "impl": a}); break
    hist["q_modules"] = len(q_res); hist["q_occurrences"] = nocc
    hist["q_rejected_or_syntax"] = len(q_other)
    # ---- oracle: rename at every occurrence and back
    rn_op = "rn" if ctx.quick else "rnall"     # quick: <= 3 occurrences per binding; thorough: all
    rn = run_impl_parallel([f"{rn_op} {hexs(t)}" for t in corpus + texts], chunk=2)
    nren, renamed_samples = 0, []
    for t, a in zip(corpus + texts, rn):
        if a.startswith("ok "):
            nren += int(a.split(" ")[1])
            if a.split(" ")[2] != "-":
                for hx in a.split(" ")[2].split(","):
                    renamed_samples.append((t, unhex(hx).decode()))
        elif a.startswith("FAIL") or a.startswith("panic") or a.startswith("<"):
            f = next((f for f in ctx.open_findings
                      if all(part.split(" (")[0].strip() in a for part in f.get("signature", "x").split(";"))), None)
            if f:
                ctx.known(f); continue
            parts = a.split(" ")
            payload = {"protocol": "rn", "module": t, "answer": a[:300]}
            if parts[-1] and re.fullmatch(r"[0-9a-f]+", parts[-1] or "x"):
                payload["renamed_text"] = unhex(parts[-1]).decode("utf-8", "replace")
            ctx.violation("rewrite::rename breaks C15: " + " ".join(parts[:5])[:160], payload)
            break
    hist["renames_checked"] = nren
    # ---- behaviour of renamed programs
    beh = {"compared": 0}
    try:
        common.build_exec()
        chosen = renamed_samples[: ctx.scale(120, 1200)]
        jobs, base_ix = [], {}
        for t, t1 in chosen:        # every original runs once, every renamed text once
            if t not in base_ix:
                base_ix[t] = len(jobs)
                jobs.append({"sources": {"Main": t}, "entry": "Main", "std": True, "ts": False, "timeout_ms": 10000})
        ren_ix = []
        for t, t1 in chosen:
            ren_ix.append(len(jobs))
            jobs.append({"sources": {"Main": t1}, "entry": "Main", "std": True, "ts": False, "timeout_ms": 10000})
        outs = common.exec_programs(jobs)
        for k, (t, t1) in enumerate(chosen):
            a, b = outs[base_ix[t]], outs[ren_ix[k]]
            ka = (a["compile"], (a.get("wasm") or {}).get("lines"), (a.get("wasm") or {}).get("end"))
            kb = (b["compile"], (b.get("wasm") or {}).get("lines"), (b.get("wasm") or {}).get("end"))
            if ka[2] == "no-node":
                beh["no_node"] = beh.get("no_node", 0) + 1; continue
            beh["compared"] += 1
            if len(samples) < 3:
                samples.append({"renamed": t1[-300:], "output": ka[1]})
            if ka != kb:
                ctx.violation(f"rename changes behaviour: {ka} -> {kb}", {"original": t, "renamed": t1}); break
    except Exception as ex:
        beh["error"] = repr(ex)[:200]
    hist["behaviour"] = beh
    forms = {}
    for p in progs:
        for f in p["forms"]:
            forms[f] = forms.get(f, 0) + 1
    hist["binding_forms"] = forms
    ctx.cov.update({
        "evaluations": len(ssa_res) + nocc + nrepo_occ + nren + beh["compared"],
        "distinct_nontrivial": len(set(t for t, a, _ in q_res if re.search(r":\d+:\d+\+\d+", a))),
        "rule": "accepted generated programs (parameters, let, tuple / struct (shorthand and `as`) / variant patterns at every nesting, or-patterns over variants, struct patterns, tuples and nested or-patterns (first and later alternative), if-let, lambda parameters, captures in nested lambdas) x every local identifier occurrence as query / rename position; non-trivial = distinct module with at least one binding that has a use",
        "samples": samples, "traces_validated_against_impl": len(ssa_res) + len(q_res), "histograms": hist, "part_b_printer_roundtrip": partb,
        "partial": ["rename_preserves_resolution (general) is for modules accepted by scope analysis; rename_preserves_resolution_partial (name bound once) also covers rejected modules",
                    "rename theorems are stated on the event view and, via rename_tree_commutes / rename_member_commutes, on the trees of Model/Scope.lean; position search (location_cover.rs) and the printed text are reached by the q / rn protocols"],
        "pending": ["position search (location_cover.rs) and printer layout are protocol-only; part b holds on C08's expression model, not on the text"]})
    ctx.assumptions += ["new name is fresh and not a keyword (the property's precondition); rewrite::rename itself only checks lexical shape (fresh_check_unsound_counterexample)",
                        "single-module ServerState"]
    return ctx.finish(res, trusted=common.TRUSTED_COMMON + [
        "hand-written model Model/Scope.lean; harness/src/scopedump.rs (AST -> rose tree, occurrence list)",
        "program generator vlib/scopegen.py; Node >= 22 for the behaviour leg",
        "not modelled: location_cover.rs (position -> node search), source_printer.rs — reached by the q / rn protocols only"])


def replay(ctx, path):
    common.build_harness(PROP); common.build_lean(["drv-c15"])
    data = json.load(open(path))
    r = data["replay"]
    if r.get("protocol") in ("ssa", "q"):
        res, other = pair(r["protocol"], [r["module"]])
        for t, a, m in res:
            print("impl :", a); print("model:", m)
            return 1 if a != m else 0
        print(other); return 1
    if r.get("protocol") == "rn":
        a = run_impl([f"rn {hexs(r['module'])}"], PROP)[0]
        print(a[:400]); return 0 if a.startswith("ok") else 1
    print(json.dumps(data, indent=1)); return 1
