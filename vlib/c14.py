"""C14 — source positions attached to syntax are faithful to the text.

Proof: lean/SamVerif/Props/C14.lean — `Location::union` is the least upper bound of containment
(`union_lub`), containment is a partial order, and the scanner's position bookkeeping equals the
ground truth for whitespace, block comments and string literals (`wsPos_exact`,
`blockEnd_pos_exact`, `strEnd_no_newline` + `advanceAll_no_newline`).  Same scanner model as C05
(Model/Lexer.lean), tied by the translator extract/c05_keywords.py and by the `lex` protocol
(kinds, texts, spans compared exactly: harness/src/bin/c14.rs vs Driver/C14.lean).
Implementation-side oracles (no model involved):
  * tokens: every span is turned into byte offsets with the document's own line table; spans must
    lie in the document, be non-empty, ordered and disjoint, spell the token's text, and the gaps
    between them must be ASCII whitespace only;
  * AST walk (`walk`): imports, toplevels, type parameters, members, parameters, annotations, return
    types, bodies of syntactically valid modules with generated layouts (comments, blank lines, CRLF,
    tabs, long lines, non-ASCII in comments/strings): inside the document, start <= end, children
    enclosed, siblings ordered and disjoint, a name's span spells exactly the name; every
    diagnostic's location lies in the document.
"""
import json, os, re, sys
from . import common, c05
from .common import hexs, unhex

PROP = "C14"
WS = b" \t\n\x0c\r"


class Doc:
    def __init__(self, data):
        self.data = data
        self.starts = [0]
        for i, b in enumerate(data):
            if b == 10:
                self.starts.append(i + 1)

    def offset(self, line, col):
        """byte offset of (line, col) or None when the position is outside the document"""
        if line >= len(self.starts):
            return None
        end = self.starts[line + 1] - 1 if line + 1 < len(self.starts) else len(self.data)
        off = self.starts[line] + col
        return off if off <= end else None


def parse_span(s):
    a, b = s.split("-")
    l0, c0 = a.split("."); l1, c1 = b.split(".")
    return int(l0), int(c0), int(l1), int(c1)


def token_oracle(data, ans):
    """ground-truth check of the token spans of one `lex` answer"""
    m = re.match(r"T (\S+)( P)?$", ans)
    if not m:
        return [f"unreadable answer {ans[:60]}"]
    if m.group(2):
        return []          # a lexer panic is C05's business (finding C05-F1)
    doc = Doc(data)
    bad = []
    prev_end = 0
    if m.group(1) != "-":
        for t in m.group(1).split(";"):
            kind, r = t.split(":", 1)
            h, sp = r.split("@")
            text = unhex(h)
            l0, c0, l1, c1 = parse_span(sp)
            a, b = doc.offset(l0, c0), doc.offset(l1, c1)
            if a is None or b is None:
                bad.append(f"{kind} token span {sp} is outside the document"); break
            if not a < b:
                bad.append(f"{kind} token span {sp} is empty or reversed"); break
            if a < prev_end:
                bad.append(f"{kind} token at {sp} overlaps its predecessor"); break
            if data[prev_end:a].strip(WS):
                bad.append(f"non-whitespace text {data[prev_end:a][:20]!r} between tokens before {sp}"); break
            sl = data[a:b]
            if kind in ("kw", "op", "upper", "lower", "str", "error") or (kind == "int" and not text.startswith(b"-")):
                if sl != text:
                    bad.append(f"{kind} token {text[:20]!r} at {sp} covers {sl[:20]!r}"); break
            elif kind == "int":
                if not (sl.startswith(b"-") and sl.endswith(text[1:]) and not sl[1:len(sl) - len(text) + 1].strip(WS)):
                    bad.append(f"merged int token at {sp} covers {sl[:30]!r}"); break
            elif kind == "line" and not sl.startswith(b"//"):
                bad.append(f"line comment at {sp} covers {sl[:20]!r}"); break
            elif kind in ("block", "doc") and not (sl.startswith(b"/*") and sl.endswith(b"*/")):
                bad.append(f"block comment at {sp} covers {sl[:20]!r}"); break
            if (kind in ("upper", "lower", "kw", "op", "str", "error", "line") or (kind == "int" and not text.startswith(b"-"))) and l0 != l1:
                bad.append(f"{kind} token at {sp} spans lines"); break
            prev_end = b
    if not bad and data[prev_end:].strip(WS):
        bad.append(f"text {data[prev_end:][:20]!r} after the last token is not covered")
    return bad


def walk_oracle(data, ans):
    if ans.startswith("panic"):
        return []          # C05
    m = re.match(r"syn=(\d+) (\S+)$", ans)
    if not m:
        return [f"unreadable answer {ans[:60]}"]
    syn = int(m.group(1))
    doc = Doc(data)
    bad = []
    stack = []             # (depth, kind, a, b, last_child_end)
    if m.group(2) == "-":
        return []
    for item in m.group(2).split(";"):
        f = item.split(":")
        depth, kind, sp = int(f[0]), f[1], f[2]
        l0, c0, l1, c1 = parse_span(sp)
        a, b = doc.offset(l0, c0), doc.offset(l1, c1)
        if a is None or b is None:
            bad.append(f"{kind} location {sp} is outside the document"); continue
        if a > b:
            bad.append(f"{kind} location {sp} has start after end"); continue
        if kind == "error" or syn:
            continue       # the remaining clauses quantify over syntactically valid modules
        while stack and stack[-1][0] >= depth:
            stack.pop()
        if stack:
            pd, pk, pa, pb, last = stack[-1]
            if not (pa <= a and b <= pb):
                bad.append(f"{kind} {sp} is not enclosed by its parent {pk} [{pa},{pb})")
            if a < last:
                bad.append(f"{kind} {sp} overlaps or precedes its previous sibling under {pk}")
            stack[-1] = (pd, pk, pa, pb, b)
        if kind == "name":
            name = unhex(f[3]) if len(f) > 3 else b""
            if data[a:b] != name:
                bad.append(f"name {name!r} at {sp} covers {data[a:b][:30]!r}")
        stack.append((depth, kind, a, b, a))
    # toplevel siblings (depth 0) ordered and disjoint
    if not syn:
        last = 0
        for item in m.group(2).split(";"):
            f = item.split(":")
            if f[0] == "0" and f[1] in ("import", "toplevel"):
                l0, c0, l1, c1 = parse_span(f[2])
                a, b = doc.offset(l0, c0), doc.offset(l1, c1)
                if a is not None and b is not None:
                    if a < last:
                        bad.append(f"{f[1]} {f[2]} overlaps the previous toplevel construct")
                    last = b
    return bad


# ----------------------------------------------------------------------------------------------
# layout generator: re-lays out the tokens of real programs (syntactically valid by construction)

def relayout(rng, src):
    toks = [t for t in c05.TOKEN_RE.findall(src)]
    out = []
    for t in toks:
        if t.isspace():
            k = rng.below(14)
            if "\n" not in t and k < 6:
                out.append(t)
            else:
                out.append(rng.weighted([(" ", 4), ("\n", 4), ("\r\n", 3), ("\t", 2), ("  \n\n  ", 1), ("\n\t\n", 1),
                                         (" " * rng.range(1, 120), 1), ("\x0c", 1), ("\r", 1),
                                         (" /* c\n * \u00e9 \u3000\n */ ", 2), (" // \u65e5\u672c  \r\n", 2), ("/** d */\n", 1),
                                         (" /*\r\n*/ ", 1)]))
        else:
            out.append(t)
            # sometimes put a comment or blank lines between two tokens that had nothing between them
            if rng.chance(1, 25):
                out.append(rng.pick([" ", "\n", "\r\n", "\t", "/* x */", " /* \u00e9\n\n*/", "\n// c\n"]))
    # a `/` glued to a following `/` or `*` would open a comment: keep such neighbours apart
    parts = []
    for t in out:
        if parts and parts[-1].endswith("/") and t[:1] in ("/", "*"):
            parts.append(" ")
        parts.append(t)
    return c05.avoid_open_signatures("".join(parts))


def check_batch(ctx, kind, texts, label, stats):
    lines = [f"{kind} " + hexs(t.encode()) for t in texts]
    if kind == "lex":
        impl, model = common.run_pair(PROP, lines)
    else:
        rc, impl, err = common.run_exec(common.harness_bin(PROP), [], lines)
        model = None
    for i, t in enumerate(texts):
        data = t.encode()
        a = impl[i] if i < len(impl) else "<missing>"
        orc = (token_oracle if kind == "lex" else walk_oracle)(data, a) if not a.startswith("<") else [a]
        diff = model is not None and a != (model[i] if i < len(model) else "<missing>")
        if kind == "walk":
            m = re.match(r"syn=(\d+)", a)
            stats["walk_valid" if m and m.group(1) == "0" else "walk_syntax_error"] += 1
            stats["nodes"] += a.count(";") + 1
        if not orc and not diff:
            continue
        if stats["reported"] >= 3:
            continue
        stats["reported"] += 1

        def fails_orc(c):
            ls = [f"{kind} " + hexs(c.encode())]
            rc, i2, _ = common.run_exec(common.harness_bin(PROP), [], ls)
            return bool((token_oracle if kind == "lex" else walk_oracle)(c.encode(), i2[0]))

        def fails_diff(c):
            i2, m2 = common.run_pair(PROP, ["lex " + hexs(c.encode())])
            return i2[0] != m2[0]

        if orc:
            small = c05.shrink_text(t, fails_orc)
            if small in stats.setdefault("seen", set()):
                continue
            stats["seen"].add(small)
            rc, i2, _ = common.run_exec(common.harness_bin(PROP), [], [f"{kind} " + hexs(small.encode())])
            msgs = (token_oracle if kind == "lex" else walk_oracle)(small.encode(), i2[0]) or orc
            ctx.violation("a reported source position is not faithful to the text: " + "; ".join(msgs)[:300],
                          {"protocol": kind, "label": label, "text": small, "hex": hexs(small.encode()), "impl": i2[0],
                           "oracle": msgs})
        else:
            small = c05.shrink_text(t, fails_diff)
            i2, m2 = common.run_pair(PROP, ["lex " + hexs(small.encode())])
            # search: densify — does the ground-truth oracle fail on variations of the shrunk text?
            cands = [small, small + "\n" + small, "\n" + small, "/* \n */" + small, small + " x"]
            hit = next((c for c in cands if fails_orc(c)), None) if kind == "lex" else None
            if hit is not None:
                rc, i3, _ = common.run_exec(common.harness_bin(PROP), [], ["lex " + hexs(hit.encode())])
                ctx.violation("a reported token position is not faithful to the text: " + "; ".join(token_oracle(hit.encode(), i3[0]))[:300],
                              {"protocol": "lex", "label": label, "text": hit, "impl": i3[0]})
            else:
                ctx.violation("model/implementation disagreement on protocol lex (C14); no position-level failure found on the shrunk text",
                              {"protocol": "lex", "label": label, "text": small, "hex": hexs(small.encode()), "impl": i2[0], "model": m2[0],
                               "broken": "correspondence `lex` (Model/Lexer.lean vs crates/samlang-parser/src/lexer.rs): the theorems of Props/C14.lean no longer speak about this code"},
                              no_input=True)


def run(ctx):
    rng = ctx.rng
    extractor_ok = c05.run_extractor(ctx)
    stats = {"reported": 0, "walk_valid": 0, "walk_syntax_error": 0, "nodes": 0}

    def search():
        return False
    res = common.proof_gate(ctx, search)
    if not os.path.exists(common.harness_bin(PROP)) or not os.path.exists(common.driver_bin(PROP)):
        return ctx.finish(res, trusted=common.TRUSTED_COMMON)
    vocab = c05.load_vocab()
    sources = c05.repo_sources()
    small_sources = [s for s in sources if len(s[1]) < 12000] or sources

    # corpus (shared format with C05: `text <json>` lines)
    clex, _ = c05.read_corpus(PROP)
    check_batch(ctx, "lex", clex, "corpus", stats)
    check_batch(ctx, "walk", clex, "corpus", stats)
    # unchanged repo sources
    check_batch(ctx, "lex", [s for _, s in sources], "repo sources", stats)
    check_batch(ctx, "walk", [s for _, s in sources], "repo sources", stats)

    n_lex = ctx.scale(4000, 200000)
    n_walk = ctx.scale(1500, 60000)
    done = 0
    hist = {"soup": 0, "random": 0, "relayout": 0, "mutation": 0}
    nontrivial, distinct, samples = 0, set(), []
    while done < n_lex and not ctx.violations:
        batch = []
        for _ in range(min(1000, n_lex - done)):
            r = rng.fork()
            k = rng.weighted([("soup", 4), ("random", 2), ("relayout", 3), ("mutation", 1)])
            hist[k] += 1
            if k == "soup":
                t = c05.gen_soup(r, vocab, r.range(1, 50))
            elif k == "random":
                t = c05.gen_random_text(r, r.range(0, 80))
            elif k == "relayout":
                name, src = r.pick(small_sources)
                if len(src) > 2500:
                    a = r.below(len(src) - 2500); src = src[a:a + 2500]
                t = relayout(r, src)
            else:
                name, src = r.pick(small_sources)
                t = c05.mutate(r, src[:3000], vocab)
            batch.append(c05.avoid_open_signatures(t))
        check_batch(ctx, "lex", batch, f"generated seed={ctx.seed}", stats)
        done += len(batch)
        for t in batch:
            h = hash(t)
            if h not in distinct:
                distinct.add(h)
                if re.search(r"/\*[^*]*\n|\r|\t|[^\x00-\x7f]|\"", t):
                    nontrivial += 1
                    if len(samples) < 3 and len(t) < 70:
                        samples.append({"text": t})
    wdone = 0
    while wdone < n_walk and not ctx.violations:
        batch = []
        for _ in range(min(500, n_walk - wdone)):
            r = rng.fork()
            name, src = r.pick(small_sources)
            batch.append(relayout(r, src) if r.chance(9, 10) else c05.avoid_open_signatures(c05.mutate(r, src, vocab)))
        check_batch(ctx, "walk", batch, f"generated layouts seed={ctx.seed}", stats)
        wdone += len(batch)

    ctx.cov.update({
        "evaluations": done + wdone, "distinct_nontrivial": nontrivial,
        "rule": "lex texts: distinct texts containing a multi-line block comment, CR, tab, non-ASCII scalar or string literal "
                "(the layouts where line/column bookkeeping is non-trivial); measured by regex on the generated text",
        "samples": samples, "traces_validated_against_impl": done,
        "lex_cases": done, "walk_cases": wdone, "generator_histogram": hist,
        "walk_modules_without_syntax_error": stats["walk_valid"], "walk_modules_with_syntax_error": stats["walk_syntax_error"],
        "walk_located_nodes_checked": stats["nodes"],
        "pending": ["pos_tracking_exact / tokens_ordered for the whole token stream (the per-path exactness lemmas wsPos_exact, "
                    "blockEnd_pos_exact, strEnd_no_newline, advanceAll_no_newline are proved; their composition over `rawLoop` is "
                    "not yet; the ground-truth token oracle checks it on every run)",
                    "name_span_exact", "expression-level AST nodes in the walk (only declarations, annotations and bodies' outer locations are walked)"],
        "extractor_ok": extractor_ok,
    })
    ctx.assumptions += ["columns are byte columns (implementation convention); LSP UTF-16 columns differ on non-ASCII lines (observation)",
                        "valid UTF-8 input; texts < 4 GiB"]
    return ctx.finish(res, trusted=common.TRUSTED_COMMON + [
        "translator extract/c05_keywords.py; hand-written scanner model Model/Lexer.lean (shared with C05)",
        "not modelled (oracle only): the ~60 `union` call sites of the parser productions, services query code"])


def replay(ctx, path):
    common.build_harness(PROP); common.build_lean(["drv-c14"])
    data = json.load(open(path))
    rp = data.get("replay", {})
    if "text" in rp and rp.get("protocol") in ("lex", "walk"):
        kind = rp["protocol"]
        line = f"{kind} " + hexs(rp["text"].encode())
        rc, impl, _ = common.run_exec(common.harness_bin(PROP), [], [line])
        print("text ", json.dumps(rp["text"])); print("impl ", impl[0])
        orc = (token_oracle if kind == "lex" else walk_oracle)(rp["text"].encode(), impl[0])
        bad = bool(orc)
        if kind == "lex":
            _, model = common.run_pair(PROP, [line])
            print("model", model[0]); bad = bad or impl[0] != model[0]
        for m in orc:
            print("ORACLE", m)
        return 1 if bad else 0
    print(json.dumps(data, indent=1)[:4000])
    return 1
