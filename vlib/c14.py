"""C14 — source positions attached to syntax are faithful to the text.

Proof: lean/SamVerif/Props/C14.lean — `Location::union` is the least upper bound of containment
(`union_lub`), containment is a partial order, and the scanner's position bookkeeping equals the
ground truth for whitespace, block comments and string literals (`wsPos_exact`,
`blockEnd_pos_exact`, `strEnd_no_newline` + `advanceAll_no_newline`).  Same scanner model as C05
(Model/Lexer.lean), tied by the translator extract/c05_keywords.py and by the `lex` protocol
(kinds, texts, spans compared exactly: harness/src/bin/c14.rs vs Driver/C14.lean).
Implementation-side oracles (no model involved):
  * tokens: every span is turned into byte offsets with the document's own line table; spans must
    lie in the document, be non-empty, ordered and disjoint, spell the token's text, and the gaps
    between them must be ASCII whitespace only;
  * AST walk (`walk`): imports, toplevels, type parameters, members, parameters, annotations, return
    types, bodies of syntactically valid modules with generated layouts (comments, blank lines, CRLF,
    tabs, long lines, non-ASCII in comments/strings): inside the document, start <= end, children
    enclosed, siblings ordered and disjoint, a name's span spells exactly the name; every
    diagnostic's location lies in the document.
"""
import bisect, json, os, re, sys
from . import common, c05
from .common import hexs, unhex

PROP = "C14"
WS = b" \t\n\x0c\r"


class Doc:
    def __init__(self, data):
        self.data = data
        self.starts = [0]
        for i, b in enumerate(data):
            if b == 10:
                self.starts.append(i + 1)

    def offset(self, line, col):
        """byte offset of (line, col) or None when the position is outside the document"""
        if line >= len(self.starts):
            return None
        end = self.starts[line + 1] - 1 if line + 1 < len(self.starts) else len(self.data)
        off = self.starts[line] + col
        return off if off <= end else None


def parse_span(s):
    a, b = s.split("-")
    l0, c0 = a.split("."); l1, c1 = b.split(".")
    return int(l0), int(c0), int(l1), int(c1)


def token_oracle(data, ans):
    """ground-truth check of the token spans of one `lex` answer"""
    m = re.match(r"T (\S+)( P)?$", ans)
    if not m:
        return [f"unreadable answer {ans[:60]}"]
    if m.group(2):
        return []          # a lexer panic is C05's business (finding C05-F1)
    doc = Doc(data)
    bad = []
    prev_end = 0
    if m.group(1) != "-":
        for t in m.group(1).split(";"):
            kind, r = t.split(":", 1)
            h, sp = r.split("@")
            text = unhex(h)
            l0, c0, l1, c1 = parse_span(sp)
            a, b = doc.offset(l0, c0), doc.offset(l1, c1)
            if a is None or b is None:
                bad.append(f"{kind} token span {sp} is outside the document"); break
            if not a < b:
                bad.append(f"{kind} token span {sp} is empty or reversed"); break
            if a < prev_end:
                bad.append(f"{kind} token at {sp} overlaps its predecessor"); break
            if data[prev_end:a].strip(WS):
                bad.append(f"non-whitespace text {data[prev_end:a][:20]!r} between tokens before {sp}"); break
            sl = data[a:b]
            if kind in ("kw", "op", "upper", "lower", "str", "error") or (kind == "int" and not text.startswith(b"-")):
                if sl != text:
                    bad.append(f"{kind} token {text[:20]!r} at {sp} covers {sl[:20]!r}"); break
            elif kind == "int":
                if not (sl.startswith(b"-") and sl.endswith(text[1:]) and not sl[1:len(sl) - len(text) + 1].strip(WS)):
                    bad.append(f"merged int token at {sp} covers {sl[:30]!r}"); break
            elif kind == "line" and not sl.startswith(b"//"):
                bad.append(f"line comment at {sp} covers {sl[:20]!r}"); break
            elif kind in ("block", "doc") and not (sl.startswith(b"/*") and sl.endswith(b"*/")):
                bad.append(f"block comment at {sp} covers {sl[:20]!r}"); break
            if (kind in ("upper", "lower", "kw", "op", "str", "error", "line") or (kind == "int" and not text.startswith(b"-"))) and l0 != l1:
                bad.append(f"{kind} token at {sp} spans lines"); break
            prev_end = b
    if not bad and data[prev_end:].strip(WS):
        bad.append(f"text {data[prev_end:][:20]!r} after the last token is not covered")
    return bad


# Production table: how the location of a node is built from its first / last item.
# "first"/"last" = exactly the first / last child's start / end (loc = union of children);
# a tuple of byte strings = the node's own delimiter token found at that end of the span;
# None = not constrained.  This is the implementation-side twin of `Production` in Props/C14.lean.
B = lambda *xs: tuple(x.encode() for x in xs)
PRODUCTIONS = {
    "E.Binary": ("first", "last"), "E.Call": ("first", "last"), "E.FieldAccess": ("first", "last"),
    "E.MethodAccess": ("first", "last"), "E.Lambda": ("first", "last"), "E.Tuple": ("first", "last"),
    "P.Id": ("first", "last"), "P.Or": ("first", "last"), "P.Variant": ("first", "last"),
    "T.Fn": ("first", "last"), "T.Generic": ("first", "last"), "T.Id": ("first", "last"),
    "bound": ("first", "last"), "super": ("first", "last"), "tparam": ("first", "last"), "pfield": ("first", "last"),
    "E.IfElse": (B("if"), "last"), "E.Unary": (B("!", "-"), "last"), "extends": (B(":"), "last"),
    "member": (B("function", "method", "private"), "last"), "case": ("first", None),
    "E.Block": (B("{"), B("}")), "E.Match": (B("match"), B("}")), "P.Object": (B("{"), B("}")),
    "P.Tuple": (B("("), B(")")), "S.Let": (B("let"), B(";")), "args": (B("("), B(")")),
    "lparams": (B("("), B(")")), "params": (B("("), B(")")), "targs": (B("<"), B(">")),
    "tlist": (B("("), B(")")), "tparams": (B("<"), B(">")), "typedef": (B("(", "<"), B(")")),
    "toplevel": (B("class", "interface", "private"), None), "import": (B("import"), "last-or-;"),
    "P.Wildcard": (B("_"), B("_")),
}
NAMED = ("name", "E.LocalId", "E.ClassId")


def walk_oracle(data, ans, hist=None):
    if ans.startswith("panic"):
        return []          # C05
    m = re.match(r"syn=(\d+) (\S+)$", ans)
    if not m:
        return [f"unreadable answer {ans[:60]}"]
    syn = int(m.group(1))
    doc = Doc(data)
    bad = []
    if m.group(2) == "-":
        return []
    nodes = []             # [depth, kind, a, b, span text, name, children]
    attached = []          # (role, kind+hextext, owner node or marker [kind, a, b])
    ctoks = []             # (kind+hextext, a, b) comment tokens of the text
    owner = None
    markers = []
    for item in m.group(2).split(";"):
        f = item.split(":")
        if f[0] == "c":
            attached.append((f[1], f[2], owner)); continue
        if f[0] == "k":
            l0, c0, l1, c1 = parse_span(f[2])
            ctoks.append((f[1], doc.offset(l0, c0), doc.offset(l1, c1))); continue
        depth, kind, sp = int(f[0]), f[1], f[2]
        if kind in ("members_end", "trailing"):     # not nodes: only owners of comments
            l0, c0, l1, c1 = parse_span(sp)
            owner = [depth, kind, doc.offset(l0, c0), doc.offset(l1, c1), sp, None, []]
            continue
        l0, c0, l1, c1 = parse_span(sp)
        a, b = doc.offset(l0, c0), doc.offset(l1, c1)
        if a is None or b is None:
            bad.append(f"{kind} location {sp} is outside the document"); continue
        if a > b:
            bad.append(f"{kind} location {sp} has start after end"); continue
        if kind == "error":
            continue
        nodes.append([depth, kind, a, b, sp, unhex(f[3]) if len(f) > 3 else None, []])
        owner = nodes[-1]
    if syn:
        return bad         # the remaining clauses quantify over syntactically valid modules
    stack, roots = [], []
    for n in nodes:
        while stack and stack[-1][0] >= n[0]:
            stack.pop()
        (stack[-1][6] if stack else roots).append(n)
        stack.append(n)

    def siblings(parent_kind, kids):
        last, lastk = None, None
        for k in kids:
            # a type definition's location deliberately starts at the class's type parameters
            if last is not None and k[2] < last and not (k[1] == "typedef" and lastk == "tparams"):
                bad.append(f"{k[1]} {k[4]} overlaps or precedes its previous sibling {lastk} under {parent_kind}")
            last, lastk = k[3], k[1]

    siblings("module", [r for r in roots if r[1] in ("import", "toplevel")])
    # comments carry no location: check their owners against the comment tokens of the text
    if hist is not None and attached:
        hist["comment"] = hist.get("comment", 0) + len(attached)
    # (conservation - every comment of the text is attached exactly once - is C09's property: finding C09-F2 is open)
    if True:
        lower = {}
        parent = {}
        anc = []
        for n in nodes:               # lower bound of a leading comment: nearest ancestor starting earlier
            while anc and anc[-1][0] >= n[0]:
                anc.pop()
            if anc:
                parent[id(n)] = anc[-1]
            lb = 0
            for x in reversed(anc):
                if x[2] < n[2]:
                    lb = x[2]; break
            lower[id(n)] = lb
            anc.append(n)
        end_of_code = max([n[3] for n in roots if n[1] in ("import", "toplevel")] or [0])
        starts = sorted(n[2] for n in nodes)
        for role, c, o in attached:
            cands = [(a, b) for cc, a, b in ctoks if cc == c and a is not None and b is not None]
            if o is None:
                continue
            # Where exactly a comment is attached is the parser's (C09's) convention and has moved several times
            # (comments before a closing `)`, `,`, `}` go to the leftmost leaf / the last case / ...).  The stable,
            # position-level requirement: a comment attached to owner O lies in O's neighbourhood - not before the
            # nearest ancestor that starts earlier than O, and not after the first node that follows O's parent
            # (for a trailing module comment: after the last toplevel).
            def next_after(x):
                k = bisect.bisect_left(starts, max(x[3], x[2] + 1))
                return starts[k] if k < len(starts) else len(data)
            if role == "trailing":
                okc = any(end_of_code <= a for a, b in cands)
            else:
                top = o             # outermost node that starts where the owner starts (leftmost-leaf chain)
                while id(top) in parent and parent[id(top)][2] == o[2]:
                    top = parent[id(top)]
                par = parent.get(id(top))
                lo = lower.get(id(o), 0) if role == "lead" else min(o[2], lower.get(id(o), 0))
                hi = max(next_after(top), next_after(par) if par is not None else len(data))
                okc = any(lo <= a and b <= hi for a, b in cands)
            if not okc:
                bad.append(f"{role} comment {unhex(c[1:])[:30]!r} is attached to {o[1]} {o[4]} but no such comment lies "
                           f"{'after the last toplevel' if role == 'trailing' else 'in its neighbourhood (enclosing region up to the node after its parent)'}")
    for n in nodes:
        depth, kind, a, b, sp, name, kids = n
        if hist is not None:
            hist[kind] = hist.get(kind, 0) + 1
        if kind == "modpath":
            flat = re.sub(rb"/\*.*?\*/|//[^\n]*|\s+", b"", data[a:b], flags=re.S)
            if flat != name:
                bad.append(f"module path `{name.decode()}` at {sp} covers {data[a:b][:40]!r}")
        if kind in NAMED and data[a:b] != name:
            bad.append(f"{kind} {name!r} at {sp} covers {data[a:b][:30]!r}")
        for k in kids:
            if not (a <= k[2] and k[3] <= b):
                bad.append(f"{k[1]} {k[4]} is not enclosed by its parent {kind} {sp}")
        siblings(kind, kids)
        rule = PRODUCTIONS.get(kind)
        if rule:
            for side, r in enumerate(rule):
                if r is None:
                    continue
                if r == "last-or-;":        # `import {..} from a.b.c` ends at its path, `...;` at the semicolon
                    gap = re.sub(rb"/\*.*?\*/|//[^\n]*|\s+", b"", data[kids[-1][3]:b - 1], flags=re.S) if kids else b""
                    if kids and b != kids[-1][3] and not (data[a:b].endswith(b";") and not gap):
                        bad.append(f"{kind} {sp} ends neither at its module path ({kids[-1][4]}) nor at a `;` that follows it (only whitespace / comments in between)")
                elif r in ("first", "last"):
                    if kids:
                        want = kids[0][2] if side == 0 else kids[-1][3]
                        if (a if side == 0 else b) != want:
                            bad.append(f"{kind} {sp}: its {'start' if side == 0 else 'end'} is not its {r} child's "
                                       f"({kids[0][1] + ' ' + kids[0][4] if side == 0 else kids[-1][1] + ' ' + kids[-1][4]}): "
                                       f"loc is not the union of its children")
                else:
                    txt = data[a:b]
                    if not any((txt.startswith(t) if side == 0 else txt.endswith(t)) for t in r):
                        bad.append(f"{kind} {sp} does not {'start' if side == 0 else 'end'} with its delimiter "
                                   f"{'/'.join(t.decode() for t in r)}: covers {txt[:12]!r}..{txt[-12:]!r}")
    return bad[:12]


def parse_loc(s):
    mod, sp, inside, cov = s.split("/")
    return mod, parse_span(sp), inside == "in", (None if cov == "-" else unhex(cov))


# identifier contexts whose hover result legitimately is not the identifier itself (calibrated, see reports/C14.md)
HOVER_NOT_A_NAME = set()


def svc_oracle(module, data, ans, hist=None, exact=None):
    """LSP results at every identifier position: locations lie in their document, start <= end,
    spell the name where they denote one, and - in an error-free module - a local variable's
    definition and references exist and contain the queried occurrence."""
    if ans.startswith("panic"):
        return [f"language-service query panicked: {unhex(ans.split(' ')[1]).decode('utf-8', 'replace')[:120]}"]
    m = re.match(r"errs=(\d+) syn=(\d+) (\S+)$", ans)
    if not m:
        return [f"unreadable answer {ans[:60]}"]
    errs, syn = int(m.group(1)), int(m.group(2))
    clean = errs == 0 and syn == 0
    bad = []
    if m.group(3) == "-":
        return []
    for item in m.group(3).split(";"):
        head, _, val = item.partition("=")
        kind, _, rest = head.partition("@")
        if hist is not None:
            hist[kind] = hist.get(kind, 0) + 1
        locs = [] if (val in ("none", "syn") or val.startswith("ok") or kind == "impdiag") else [parse_loc(x) for x in val.split(",")]
        for mod, sp, inside, cov in locs:
            if not inside:
                bad.append(f"{kind} at {rest}: result {mod} {sp} is outside its document or has start after end")
        if kind in ("def", "refs"):
            at, hn, scope = rest.split(":")[:3]
            ctx = rest.split(":")[3] if rest.count(":") >= 3 else ""
            l, c = (int(x) for x in at.split("."))
            name = unhex(hn)
            if kind == "refs" and scope == "G":
                # references of a class / member / field / variant name: every reported range spells that name
                for mod, sp, inside, cov in locs:
                    if inside and cov is not None and cov != name:
                        bad.append(f"reference of the {ctx} name `{name.decode()}` (queried at {at}): range {sp} in {mod} covers {cov!r}")
            if scope == "L" and name != b"this":
                for mod, sp, inside, cov in locs:
                    if inside and cov is not None and cov != name:
                        bad.append(f"{kind} of local `{name.decode()}` at {at}: result {sp} covers {cov!r}")
                if clean and val == "none":
                    bad.append(f"{kind} of local `{name.decode()}` at {at} returns nothing in an error-free module")
                if clean and kind == "refs" and locs and not any(sp[0] == l and sp[1] == c for _, sp, _, _ in locs):
                    bad.append(f"references of local `{name.decode()}` at {at} do not include the queried occurrence")
        elif kind == "hover":
            at, tokspan, hn, ctx = rest.split(":")
            l, c = (int(x) for x in at.split("."))
            want = parse_span(tokspan)
            name = unhex(hn)
            if exact is not None:
                exact[(ctx, "none" if not locs else "exact" if locs[0][1] == want else "other")] += 1
            for mod, sp, inside, cov in locs:
                if not ((sp[0], sp[1]) <= (l, c) <= (sp[2], sp[3])):
                    bad.append(f"hover at {at} reports the range {sp} that does not contain the position")
                elif sp != want and ctx not in HOVER_NOT_A_NAME and syn == 0:
                    # (exactness of name spans is claimed for syntactically valid modules — the property's quantifier;
                    # error-recovered trees contain invented nodes whose spans border the recovery point)
                    # the position is inside an identifier token: the range reported back to the editor must be exactly
                    # that token's span (expected span = the real lexer's token, tied to Model/Lexer.lean)
                    bad.append(f"hover at {at} on the {ctx} name `{name.decode()}` reports the range {sp} instead of the "
                               f"identifier's span {want}" + (f" (covers {cov!r})" if cov is not None else ""))
        elif kind == "hoverlit" and syn == 0:      # error-recovered ASTs contain placeholder literals
            at, litspan = rest.split(":")
            want = parse_span(litspan)
            for mod, sp, inside, cov in locs:
                if sp != want:
                    bad.append(f"hover at {at} on a literal reports the range {sp} instead of the literal's span {want}")
        elif kind == "fold" and syn == 0:     # sibling/nesting clauses quantify over syntactically valid modules
            spans = sorted(sp for _, sp, _, _ in locs)
            for i in range(len(spans)):
                for j in range(i + 1, len(spans)):
                    x, y = spans[i], spans[j]
                    if (y[0], y[1]) < (x[2], x[3]) and (y[2], y[3]) > (x[2], x[3]):
                        bad.append(f"folding ranges {x} and {y} partially overlap")
        elif kind == "rename" and val == "syn":
            bad.append(f"rename at {rest} produced a module that no longer parses")
        elif kind == "rename" and val.startswith("ok:") and clean:
            # the LSP edit is one replacement of the whole document: its content must rename exactly the references
            _, n_new, n_refs = val.split(":")
            # (a parameter of a body-less interface method is found as its own single reference but is not rewritten:
            #  observation forwarded to C15, exempt here)
            if int(n_refs) > 0 and n_new != n_refs and not (n_new == "0" and n_refs == "1"):
                bad.append(f"rename at {rest} wrote the new name {n_new} time(s) but the variable has {n_refs} reference(s)")
        elif kind == "impdiag":
            if val != "-" and rest not in val.split(","):
                bad.append(f"`cannot resolve module` is reported at {rest}, which is none of the import ranges {val}")
        elif kind == "diag":
            pass    # in-document and start <= end of the diagnostic and of each of its reference locations: checked above
    return bad[:12]


# ----------------------------------------------------------------------------------------------
# layout generator: re-lays out the tokens of real programs (syntactically valid by construction)

def relayout(rng, src):
    src = vary_imports(rng, src)
    toks = [t for t in c05.TOKEN_RE.findall(src)]
    out = []
    for t in toks:
        if t.isspace():
            k = rng.below(14)
            if "\n" not in t and k < 6:
                out.append(t)
            else:
                out.append(rng.weighted([(" ", 4), ("\n", 4), ("\r\n", 3), ("\t", 2), ("  \n\n  ", 1), ("\n\t\n", 1),
                                         (" " * rng.range(1, 120), 1), ("\x0c", 1), ("\r", 1),
                                         (" /* c\n * \u00e9 \u3000\n */ ", 2), (" // \u65e5\u672c  \r\n", 2), ("/** d */\n", 1),
                                         (" /*\r\n*/ ", 1)]))
        else:
            out.append(t)
            # sometimes put a comment or blank lines between two tokens that had nothing between them
            if rng.chance(1, 25):
                out.append(rng.pick([" ", "\n", "\r\n", "\t", "/* x */", " /* \u00e9\n\n*/", "\n// c\n"]))
    # a `/` glued to a following `/` or `*` would open a comment: keep such neighbours apart
    parts = []
    for t in out:
        if parts and parts[-1].endswith("/") and t[:1] in ("/", "*"):
            parts.append(" ")
        parts.append(t)
    return c05.avoid_open_signatures("".join(parts))


# ----------------------------------------------------------------------------------------------
# grammar-directed generator: every expression / pattern / annotation production in every variant
# (syntactically valid by construction; not necessarily well typed - the walk only needs syntax)

BINOPS = [("*", 4), ("/", 4), ("%", 4), ("+", 5), ("-", 5), ("::", 5), ("<", 6), ("<=", 6), (">", 6), (">=", 6),
          ("==", 6), ("!=", 6), ("&&", 7), ("||", 8)]
VARS = ["a", "b", "c", "x", "y", "foo", "barBaz"]
CLASSES = ["Foo", "Bar", "Option", "List"]
TAGS = ["Some", "None", "A", "Bee"]


def arity(r, lo=1):
    """tuple-capable positions get the boundary arities too: 1 (with trailing comma), 16, and rarely 0 / 17"""
    k = r.below(40)
    if k == 0:
        return 16
    if k == 1:
        return 17
    if k == 2:
        return 0 if lo == 0 else 1
    return r.range(max(lo, 1), 3)


def gen_type(r, d):
    k = r.below(8) if d > 0 else r.below(3)
    if k == 0:
        return r.pick(["int", "bool", "unit"])
    if k == 1:
        return r.pick(CLASSES + ["Str"])
    if k == 2:
        return r.pick(["T", "Str", "int"])
    if k in (3, 4):
        return r.pick(CLASSES) + "<" + ", ".join(gen_type(r, d - 1 if i < 3 else 0) for i in range(arity(r))) + ">"
    if k == 5:
        return "() -> " + gen_type(r, d - 1)
    return "(" + ", ".join(gen_type(r, d - 1 if i < 3 else 0) for i in range(arity(r))) + ") -> " + gen_type(r, d - 1)


def gen_pattern(r, d, top=True):
    k = r.below(9) if d > 0 else r.below(3)
    if k == 0:
        return r.pick(VARS)
    if k == 1:
        return "_"
    if k == 2:
        return r.pick(TAGS) + r.pick(["", "(_)", "(" + r.pick(VARS) + ")"])
    if k in (3, 4):
        return "(" + ", ".join(gen_pattern(r, d - 1 if i < 3 else 0, False) for i in range(arity(r))) + r.pick(["", "", ","]) + ")"
    if k == 5:
        fields = []
        for _ in range(r.range(1, 3)):
            f = r.pick(VARS)
            fields.append(f if r.chance(1, 2) else f + " as " + gen_pattern(r, d - 1, False))
        return "{" + ", ".join(fields) + "}"
    if k in (6, 7):
        return r.pick(TAGS) + "(" + ", ".join(gen_pattern(r, d - 1 if i < 3 else 0, False) for i in range(arity(r))) + ")"
    if not top:
        return r.pick(TAGS) + "(_)"
    return " | ".join(r.pick(TAGS) + "(" + gen_pattern(r, d - 1, False) + ")" for _ in range(r.range(2, 3)))


def paren(tp, maxp):
    t, p = tp
    return "(" + t + ")" if p > maxp else t


def gen_block(r, d):
    parts = []
    for _ in range(r.below(3)):
        k = r.below(4)
        if k == 0:
            parts.append("let " + gen_pattern(r, 1, False) + " = " + gen_expr(r, d - 1)[0] + ";")
        elif k == 1:
            parts.append("let " + r.pick(VARS) + ": " + gen_type(r, 2) + " = " + gen_expr(r, d - 1)[0] + ";")
        elif k == 2:
            parts.append(paren(gen_expr(r, d - 1), 9) + ";")
        else:
            parts.append("let _ = " + gen_expr(r, d - 1)[0] + ";")
    if r.chance(3, 4):
        parts.append(paren(gen_expr(r, d - 1), 12))
    return "{ " + " ".join(parts) + " }"


def gen_expr(r, d):
    """-> (text, precedence): 0 atom, 1 postfix, 2 unary, 4..8 binary, 10 if, 11 match, 12 lambda"""
    k = r.below(20) if d > 0 else r.below(5)
    if k == 0:
        return r.pick(["0", "1", "42", "2147483647", "true", "false", '"s"', '"\\"q\\" é"', '""']), 0
    if k in (1, 2):
        return r.pick(VARS + ["this"]), 0
    if k == 3:
        return r.pick(CLASSES) + "." + r.pick(["init", "make", "of"]) + r.pick(["", "", "<int>", "<T, () -> int>"]), 1
    if k == 4:
        n = arity(r)
        if r.chance(1, 4):       # the parser's all-identifier cover path `(a, b, ...)`
            return "(" + ", ".join(r.pick(VARS) for _ in range(n)) + r.pick(["", ","]) + ")", 0
        return "(" + ", ".join(gen_expr(r, d - 1 if i < 3 else 0)[0] for i in range(n)) + r.pick(["", "", ","]) + ")", 0
    if k == 5:      # parenthesised expression: no node of its own
        return "(" + gen_expr(r, d - 1)[0] + ")", 0
    if k in (6, 7):  # field / method access chains, explicit type arguments
        return paren(gen_expr(r, d - 1), 1) + "." + r.pick(VARS) + r.pick(["", "", "", "<int>", "<Foo<bool>, int>"]), 1
    if k in (8, 9):
        args = ", ".join(gen_expr(r, d - 1 if i < 3 else 0)[0] for i in range(r.below(3) if r.chance(19, 20) else 17))
        return paren(gen_expr(r, d - 1), 1) + "(" + args + r.pick(["", "", ","] if args else [""]) + ")", 1
    if k == 10:
        return r.pick(["!", "-"]) + paren(gen_expr(r, d - 1), 1), 2
    if k in (11, 12, 13):
        op, p = r.pick(BINOPS)
        return paren(gen_expr(r, d - 1), p) + " " + op + " " + paren(gen_expr(r, d - 1), p - 1), p
    if k == 14:     # if / if-let / else-if chains
        cond = paren(gen_expr(r, d - 1), 9) if r.chance(2, 3) else "let " + gen_pattern(r, 2, False) + " = " + paren(gen_expr(r, d - 1), 9)
        tail = gen_block(r, d - 1) if r.chance(2, 3) else gen_expr_if(r, d - 1)
        return "if " + cond + " " + gen_block(r, d - 1) + " else " + tail, 10
    if k == 15:
        cases = [gen_pattern(r, 2) + " -> " + paren(gen_expr(r, d - 1), 12) for _ in range(r.range(1, 3))]
        return "match " + paren(gen_expr(r, d - 1), 9) + " { " + ", ".join(cases) + r.pick(["", ","]) + " }", 11
    if k in (16, 17):  # the five lambda shapes
        shape = r.below(6)
        body = gen_expr(r, d - 1)[0]
        ps = {0: "()", 1: "(a: int, b: " + gen_type(r, 1) + ")", 2: "(a, b: " + gen_type(r, 1) + ")", 3: "(a, b)", 4: "(a)",
              5: "(a, b, c: int, d)"}[shape]
        if r.chance(1, 20):
            ps = "(" + ", ".join(f"p{i}" for i in range(r.pick([1, 16, 17]))) + r.pick(["", ","]) + ")"
        return ps + " -> " + body, 12
    return gen_block(r, d), 1


def gen_expr_if(r, d):
    return "if " + paren(gen_expr(r, max(d - 1, 0)), 9) + " " + gen_block(r, max(d - 1, 0)) + " else " + gen_block(r, max(d - 1, 0))


def gen_imports(r):
    """0-3 imports: 1-4 path segments x with / without `;` x followed by newline / comment / another import /
    the class on the same line"""
    out = []
    for _ in range(r.pick([0, 1, 1, 2, 3])):
        segs = [r.pick(["a", "lib", "util", "x", "Helpers", "std", "B"]) for _ in range(r.range(1, 4))]
        members = ", ".join(r.pick(["Foo", "Bar", "Helper"]) for _ in range(r.range(1, 3)))
        path = r.pick([".", ".", " . ", "./* c */", "\n."]).join(segs)
        out.append("import { " + members + r.pick(["", ","]) + " } from " + path + r.pick(["", "", ";", " ;"])
                   + r.pick(["\n", "\n", " ", " // c\n", " /* c */ ", "\n\n", "\r\n"]))
    return "".join(out)


def vary_imports(r, src):
    """real programs: drop or add the `;` after an import and sometimes put the next construct on the same line"""
    def f(m):
        tail = r.pick([m.group(2), "", ";", ""])
        return m.group(1) + tail + r.pick([m.group(3), " ", m.group(3)])
    return re.sub(r"(import\s*\{[^}]*\}\s*from\s+[A-Za-z0-9.]+)(;?)([ \t]*\r?\n)", f, src)


def gen_module(r):
    members = []
    for i in range(r.range(1, 4)):
        tps = r.pick(["", "", "<T>", "<T: Foo<T>, R>"])
        params = ", ".join(f"{v}: {gen_type(r, 2)}" for v in VARS[:r.below(4)])
        kw = r.pick(["function", "method", "private function", "private method"])
        members.append(f"  {kw} {tps}{' ' if tps else ''}m{i}({params}): {gen_type(r, 2)} = {gen_expr(r, r.range(1, 4))[0]}")
    head = r.pick(["class Main", "class Main<T>", "private class Main", "class Main(val a: int, private val b: " + gen_type(r, 1) + ")",
                   "class Main<T>(A, Bee(int, T))", "class Main : Foo", "class Main<T>(val v: T) : Foo<T>, Bar"])
    imports = gen_imports(r)
    iface = r.pick(["", "", "interface I { method f(): int }\n", "interface J<T> : I { function <R> g(x: T): R method h(): unit }\n"])
    return imports + iface + head + " {\n" + "\n".join(members) + "\n}\n"


def oracle_of(kind):
    return {"lex": token_oracle, "walk": walk_oracle}[kind]


def run_svc(cases, max_pos, workers=4):
    """cases: [(module name, text)] -> answers of the `svc` protocol (parallel harness processes)"""
    import subprocess, threading
    lines = [f"svc {n} " + hexs(t.encode()) for n, t in cases]
    answers = ["<missing>"] * len(lines)

    def work(idx):
        p = subprocess.run([common.harness_bin(PROP)], input=("\n".join(lines[i] for i in idx) + "\n").encode(),
                           stdout=subprocess.PIPE, stderr=subprocess.PIPE,
                           env=dict(os.environ, C14_MAX_POS=str(max_pos), SAMVERIF_REPO=common.REPO))
        out = [l for l in p.stdout.decode("utf-8", "replace").split("\n") if l]
        for k, a in enumerate(out[:len(idx)]):
            answers[idx[k]] = a
        if len(out) < len(idx):
            answers[idx[len(out)]] = f"<harness died rc={p.returncode}: {p.stderr.decode('utf-8', 'replace').strip()[-160:]}>"
    parts = [list(range(w, len(lines), workers)) for w in range(workers)]
    ts = [threading.Thread(target=work, args=(p,)) for p in parts if p]
    [t.start() for t in ts]; [t.join() for t in ts]
    return answers


def check_svc_batch(ctx, cases, label, stats, max_pos):
    answers = run_svc(cases, max_pos)
    for (name, t), a in zip(cases, answers):
        orc = [a] if a.startswith("<") else svc_oracle(name, t.encode(), a, stats["svc_hist"])
        m = re.match(r"errs=(\d+) syn=(\d+)", a)
        if m:
            stats["svc_clean" if m.group(1) == "0" and m.group(2) == "0" else "svc_with_errors"] += 1
        if not orc or stats["reported"] >= 3:
            continue
        stats["reported"] += 1

        category = " ".join(orc[0].split(" ")[:2])     # keep the class of failure while shrinking
        was_valid = bool(m) and m.group(2) == "0"

        def fails(c):
            r = run_svc([(name, c)], max_pos, workers=1)[0]
            msgs = [r] if r.startswith("<") else svc_oracle(name, c.encode(), r)
            if was_valid and not re.match(r"errs=\d+ syn=0 ", r):
                return False       # do not shrink a failure on a valid module into an invalid one
            return any(m.startswith(category) for m in msgs)
        small = c05.shrink_text(t, fails, budget=120)
        r = run_svc([(name, small)], max_pos, workers=1)[0]
        msgs = ([r] if r.startswith("<") else svc_oracle(name, small.encode(), r)) or orc
        ctx.violation("a language-service result is not faithful to the text: " + "; ".join(msgs)[:300],
                      {"protocol": "svc", "label": label, "module": name, "text": small, "oracle": msgs})


def gap_comments(rng, src):
    """a uniquely numbered comment in (a random third of) the token gaps: every comment owner is hit"""
    out, n = [], 0
    for t in c05.TOKEN_RE.findall(src):
        out.append(t)
        if not t.isspace() and t != "-" and not t.startswith("//") and rng.chance(1, 3):
            k = rng.below(4)
            out.append(f"/*C{n}*/" if k < 2 else f"/** D{n} */" if k == 2 else f" // L{n}\n")
            n += 1
    parts = []
    for t in out:
        if parts and parts[-1].endswith("/") and t[:1] in ("/", "*"):
            parts.append(" ")
        parts.append(t)
    return "".join(parts)


def check_batch(ctx, kind, texts, label, stats):
    lines = [f"{kind} " + hexs(t.encode()) for t in texts]
    if kind == "lex":
        impl, model = common.run_pair(PROP, lines)
    else:
        rc, impl, err = common.run_exec(common.harness_bin(PROP), [], lines)
        model = None
    for i, t in enumerate(texts):
        data = t.encode()
        a = impl[i] if i < len(impl) else "<missing>"
        if a.startswith("<"):
            orc = [a]
        elif kind == "walk":
            orc = walk_oracle(data, a, stats["node_hist"])
        else:
            orc = token_oracle(data, a)
        diff = model is not None and a != (model[i] if i < len(model) else "<missing>")
        if kind == "walk":
            m = re.match(r"syn=(\d+)", a)
            stats["walk_valid" if m and m.group(1) == "0" else "walk_syntax_error"] += 1
            stats["nodes"] += a.count(";") + 1
        if not orc and not diff:
            continue
        if stats["reported"] >= 3:
            continue
        stats["reported"] += 1

        def fails_orc(c):
            ls = [f"{kind} " + hexs(c.encode())]
            rc, i2, _ = common.run_exec(common.harness_bin(PROP), [], ls)
            return bool(oracle_of(kind)(c.encode(), i2[0]))

        def fails_diff(c):
            i2, m2 = common.run_pair(PROP, ["lex " + hexs(c.encode())])
            return i2[0] != m2[0]

        if orc:
            small = c05.shrink_text(t, fails_orc)
            if small in stats.setdefault("seen", set()):
                continue
            stats["seen"].add(small)
            rc, i2, _ = common.run_exec(common.harness_bin(PROP), [], [f"{kind} " + hexs(small.encode())])
            msgs = oracle_of(kind)(small.encode(), i2[0]) or orc
            ctx.violation("a reported source position is not faithful to the text: " + "; ".join(msgs)[:300],
                          {"protocol": kind, "label": label, "text": small, "hex": hexs(small.encode()), "impl": i2[0],
                           "oracle": msgs})
        else:
            small = c05.shrink_text(t, fails_diff)
            i2, m2 = common.run_pair(PROP, ["lex " + hexs(small.encode())])
            # search: densify — does the ground-truth oracle fail on variations of the shrunk text?
            cands = [small, small + "\n" + small, "\n" + small, "/* \n */" + small, small + " x"]
            hit = next((c for c in cands if fails_orc(c)), None) if kind == "lex" else None
            if hit is not None:
                rc, i3, _ = common.run_exec(common.harness_bin(PROP), [], ["lex " + hexs(hit.encode())])
                ctx.violation("a reported token position is not faithful to the text: " + "; ".join(token_oracle(hit.encode(), i3[0]))[:300],
                              {"protocol": "lex", "label": label, "text": hit, "impl": i3[0]})
            else:
                ctx.violation("model/implementation disagreement on protocol lex (C14); no position-level failure found on the shrunk text",
                              {"protocol": "lex", "label": label, "text": small, "hex": hexs(small.encode()), "impl": i2[0], "model": m2[0],
                               "broken": "correspondence `lex` (Model/Lexer.lean vs crates/samlang-parser/src/lexer.rs): the theorems of Props/C14.lean no longer speak about this code"},
                              no_input=True)


# ----------------------------------------------------------------------------------------------
# LSP leg: the last hop - what `samlang-cli lsp` publishes - against the library and against the text.
# The JSON-RPC client and the binary build are builder-C10's (vlib/c10.py: build_cli, Lsp), used read-only.

LSP_A = """import { Option } from std.option
interface Shape { method area(): int method name(): Str }
class Circle(val r: int) : Shape { method area(): int = this.r method name(): Str = "c" }
class Util {
  function twice(x: int): int = x + x
  function opt(): Option<int> = Option.Some(1)
  function <T> pick(a: T, b: T): T = a
  function both(
    first: int,
    second: Str
  ): int = first
}
"""
LSP_B = """import { Shape, Circle, Util } from lib.A
import { Option } from std.option
import { List } from std.list
class Square(val s: int) : Shape { method area(): int = this.s }
class Main {
  function f(): int = Util.twice("no")
  function g(): Str = Util.opt()
  function h(c: Circle): bool = c.area()
  function dup(a: int, a: int): int = a
  function k(o: Option<int>): int = o
  function p(c: Circle): int = Util.pick(c, 1)
  function q(): int = Util.both("x", 2)
  function r(o: Option<int>): int = o.unwrapOr("s")
  function t(l: List<int>): List<int> = l.cons("s")
  function main(): unit = { let v = Util.twice(1); let w = v + 1; let _ = w; }
}
"""
LSP_C = """import { Util } from lib.A
class Other { function z(): bool = Util.twice(true) }
"""


def lsp_request(lsp, method, params, timeout=30):
    lsp.send(method, params, request=True)
    want = lsp.nid
    while True:
        m = lsp.read(timeout)
        if m is None:
            return None
        if m.get("id") == want and "method" not in m:
            return m.get("result")


def gen_lsp_project(rng):
    """random multi-module project: B's errors cite declarations in A (and std), with random layout"""
    nfun = rng.range(2, 5)
    funs, calls = [], []
    for i in range(nfun):
        ty = rng.pick(["int", "bool", "Str", "Option<int>"])
        sep = rng.pick([" ", "\n    ", "\n\n  ", " /* c */ "])
        funs.append(f"  function f{i}({sep}a{i}:{sep}{ty},{sep}b{i}: int{sep}): {ty} = a{i}")
        wrong = {"int": '"s"', "bool": "1", "Str": "true", "Option<int>": "2"}[ty]
        ret = rng.pick(["int", "bool", "Str"])
        calls.append(f"  function c{i}(): {ret} ={rng.pick([' ', chr(10) + '    '])}Lib.f{i}({wrong}, {rng.pick(['1', 'true'])})")
    a = "import { Option } from std.option\n" + rng.pick(["", "\n", "// header\n"]) + "class Lib {\n" + "\n".join(funs) + "\n}\n"
    b = ("import { Lib } from " + "lib.A" + rng.pick(["", ";"]) + "\n" + rng.pick(["", "\n\n", "/* c\n */\n"]) + "class Main {\n" + "\n".join(calls)
         + "\n  function same(x: int, x: int): int = x\n  function main(): unit = {}\n}\n")
    return {"lib.A": a, "app.B": b}


def lsp_project_check(ctx, binary, mods, label, stats, positions=40):
    """One project: start the server, take the published diagnostics, compare with the library (`proj`) and the text;
    then hover / definition / references over the wire at identifier positions."""
    import tempfile, shutil, glob as _glob
    from .c10 import Lsp
    std = {"std." + os.path.basename(f)[:-4]: open(f, encoding="utf-8").read()
           for f in sorted(_glob.glob(os.path.join(common.REPO, "std", "*.sam")))}
    allmods = dict(std); allmods.update(mods)
    rc, out, _ = common.run_exec(common.harness_bin(PROP), [], ["proj " + " ".join(f"{m} {hexs(t.encode())}" for m, t in allmods.items())])
    if not out or not out[0].startswith("["):
        return [f"library side failed: {(out or ['?'])[0][:100]}"]
    expected = json.loads(out[0])
    root = tempfile.mkdtemp(prefix="c14-lsp-", dir=common.SCRATCH_ROOT)
    bad = []
    try:
        os.makedirs(os.path.join(root, "src"))
        open(os.path.join(root, "sconfig.json"), "w").write('{"sourceDirectory": "src", "__dangerously_allow_libdef_shadowing__": true}')
        # all files are on disk BEFORE the server starts (it reads the source directory once at start-up)
        for m, t in allmods.items():
            fp = os.path.join(os.path.realpath(root), "src", *m.split(".")) + ".sam"
            os.makedirs(os.path.dirname(fp), exist_ok=True)
            with open(fp, "w", encoding="utf-8") as fh:
                fh.write(t)
        lsp = Lsp(binary, os.path.realpath(root))
        got = lsp.start()
        if got is None:
            lsp.close()
            return ["samlang-cli lsp did not answer initialize/initialized"]
        uri_of = {lsp.uri(m): m for m in allmods}
        docs = {m: Doc(t.encode()) for m, t in allmods.items()}

        def rng_of(r):
            return (r["start"]["line"], r["start"]["character"], r["end"]["line"], r["end"]["character"])

        def in_doc(m, sp):
            d = docs[m]
            a, b = d.offset(sp[0], sp[1]), d.offset(sp[2], sp[3])
            return a is not None and b is not None and a <= b

        # 1. every published diagnostic: uri + range of the main location and of every related location
        pub = []
        for uri, ds in got.items():
            if uri not in uri_of:
                bad.append(f"diagnostics published for {uri}, which is not a file of the project"); continue
            for d in ds:
                rel = []
                for ri in d.get("relatedInformation") or []:
                    ru, rr = ri["location"]["uri"], rng_of(ri["location"]["range"])
                    if ru not in uri_of:
                        bad.append(f"related location {ri['message']} of a diagnostic of {uri_of[uri]} points to {ru}: no such file in the project")
                        continue
                    if not in_doc(uri_of[ru], rr):
                        bad.append(f"related location {ri['message']} of the diagnostic at {rng_of(d['range'])} of {uri_of[uri]} is published as "
                                   f"{uri_of[ru]} {rr}: outside that document")
                    rel.append((uri_of[ru], rr))
                if not in_doc(uri_of[uri], rng_of(d["range"])):
                    bad.append(f"diagnostic range {rng_of(d['range'])} lies outside {uri_of[uri]}")
                pub.append((uri_of[uri], rng_of(d["range"]), tuple(rel)))
        exp = []
        for e in expected:
            rel = tuple((r["module"], tuple(r["range"])) for r in e["refs"] if r["module"] in allmods)
            exp.append((e["module"], tuple(e["range"]), rel))
        stats["lsp_diags"] += len(pub)
        stats["lsp_related"] += sum(len(r) for _, _, r in pub)
        stats["lsp_related_cross"] += sum(1 for m, _, r in pub for rm, _ in r if rm != m)
        if sorted(pub) != sorted(exp):
            only_pub = [x for x in pub if x not in exp][:3]
            only_exp = [x for x in exp if x not in pub][:3]
            for x in only_pub:
                # name the first differing related entry: that is the concrete misreport
                cand = [y for y in exp if y[0] == x[0] and y[1] == x[1]]
                if cand and cand[0][2] != x[2]:
                    for i, (pr, er) in enumerate(zip(x[2], cand[0][2])):
                        if pr != er:
                            cov = docs[er[0]].data[docs[er[0]].offset(er[1][0], er[1][1]):docs[er[0]].offset(er[1][2], er[1][3])]
                            bad.append(f"diagnostic of {x[0]} at {x[1]}: related location [{i}] is published as {pr[0]} {pr[1]} but the "
                                       f"library reports {er[0]} {er[1]} (covering {cov[:30]!r})")
                            break
                    else:
                        bad.append(f"diagnostic of {x[0]} at {x[1]}: {len(x[2])} related locations published, library has {len(cand[0][2])}")
                else:
                    bad.append(f"published diagnostic {x[0]} {x[1]} has no counterpart in the library's error set")
            for y in only_exp:
                if not any(x[0] == y[0] and x[1] == y[1] for x in pub):
                    bad.append(f"library error {y[0]} {y[1]} was not published")
        # 2. hover / definition / references over the wire: same exactness as the in-process services leg
        for m, t in mods.items():
            rc2, lx, _ = common.run_exec(common.harness_bin(PROP), [], ["lex " + hexs(t.encode())])
            toks = []
            for tk in (lx[0].split(" ")[1].split(";") if lx and lx[0].startswith("T ") and lx[0] != "T -" else []):
                k, r = tk.split(":", 1)
                h, sp = r.split("@")
                if k in ("upper", "lower"):
                    toks.append((parse_span(sp), unhex(h)))
            step = max(1, len(toks) // positions)
            for (l0, c0, l1, c1), name in toks[::step]:
                for c in sorted({c0, c1 - 1}):
                    stats["lsp_queries"] += 1
                    pos = {"textDocument": {"uri": lsp.uri(m)}, "position": {"line": l0, "character": c}}
                    h = lsp_request(lsp, "textDocument/hover", pos)
                    if h and h.get("range") and rng_of(h["range"]) != (l0, c0, l1, c1):
                        bad.append(f"LSP hover at {l0}.{c} of {m} on `{name.decode()}` answers the range {rng_of(h['range'])} instead of the "
                                   f"identifier's span {(l0, c0, l1, c1)}")
                d = lsp_request(lsp, "textDocument/definition", {"textDocument": {"uri": lsp.uri(m)}, "position": {"line": l0, "character": c0}})
                for loc in ([d] if isinstance(d, dict) else d or []):
                    if loc.get("uri") not in uri_of or not in_doc(uri_of[loc["uri"]], rng_of(loc["range"])):
                        bad.append(f"LSP definition at {l0}.{c0} of {m}: {loc.get('uri')} {rng_of(loc['range'])} is not a range of a project file")
                rf = lsp_request(lsp, "textDocument/references", {"textDocument": {"uri": lsp.uri(m)}, "position": {"line": l0, "character": c0},
                                                                  "context": {"includeDeclaration": True}})
                for loc in rf or []:
                    if loc.get("uri") not in uri_of or not in_doc(uri_of[loc["uri"]], rng_of(loc["range"])):
                        bad.append(f"LSP reference of `{name.decode()}` ({m} {l0}.{c0}): {loc.get('uri')} {rng_of(loc['range'])} is not a range of a project file")
                        continue
                    dd = docs[uri_of[loc["uri"]]]
                    sp = rng_of(loc["range"])
                    cov = dd.data[dd.offset(sp[0], sp[1]):dd.offset(sp[2], sp[3])]
                    if cov != name:
                        bad.append(f"LSP reference of `{name.decode()}` ({m} {l0}.{c0}): {uri_of[loc['uri']]} {sp} covers {cov[:30]!r}")
        lsp.close()
    finally:
        shutil.rmtree(root, ignore_errors=True)
    return bad[:10]


def lsp_leg(ctx, stats):
    from .c10 import build_cli
    try:
        binary = build_cli()
    except common.BuildError as e:
        ctx.violation("samlang-cli (LSP binary) no longer builds", {"broken": e.what, "log": e.log[-2000:]}, no_input=True)
        return
    for k in ("lsp_diags", "lsp_related", "lsp_related_cross", "lsp_queries", "lsp_projects"):
        stats.setdefault(k, 0)
    projects = [({"lib.A": LSP_A, "app.B": LSP_B, "C": LSP_C}, "deterministic project")]
    r = ctx.rng.fork()
    projects += [(gen_lsp_project(r.fork()), f"generated project seed={ctx.seed}") for _ in range(ctx.scale(3, 60))]
    for mods, label in projects:
        if ctx.violations:
            break
        stats["lsp_projects"] += 1
        msgs = lsp_project_check(ctx, binary, mods, label, stats, positions=ctx.scale(25, 400))
        if msgs:
            ctx.violation("a position published over LSP is not faithful to the library / the text: " + "; ".join(msgs)[:400],
                          {"protocol": "lsp", "label": label, "modules": mods, "oracle": msgs})


def load_catalogue(name="catalogue.sam"):
    path = os.path.join(common.VERIF, "corpus", PROP, name)
    return open(path, encoding="utf-8").read() if os.path.exists(path) else None


def run(ctx):
    rng = ctx.rng
    extractor_ok = c05.run_extractor(ctx, scripts=("c05_keywords.py",))
    stats = {"reported": 0, "walk_valid": 0, "walk_syntax_error": 0, "nodes": 0, "node_hist": {}, "svc_hist": {},
             "svc_clean": 0, "svc_with_errors": 0}

    def search():
        return False
    res = common.proof_gate(ctx, search)
    if not os.path.exists(common.harness_bin(PROP)) or not os.path.exists(common.driver_bin(PROP)):
        return ctx.finish(res, trusted=common.TRUSTED_COMMON)
    vocab = c05.load_vocab()
    sources = c05.repo_sources()
    small_sources = [s for s in sources if len(s[1]) < 12000] or sources
    catalogue = load_catalogue()
    max_pos = ctx.scale(120, 100000)

    # corpus (shared format with C05: `text <json>` lines) + the production catalogue
    clex, _ = c05.read_corpus(PROP)
    if catalogue:
        clex.append(catalogue)
    check_batch(ctx, "lex", clex, "corpus", stats)
    check_batch(ctx, "walk", clex, "corpus", stats)
    # unchanged repo sources
    check_batch(ctx, "lex", [s for _, s in sources], "repo sources", stats)
    check_batch(ctx, "walk", [s for _, s in sources], "repo sources", stats)
    if catalogue and not ctx.violations:
        check_svc_batch(ctx, [("tests.VerifCatalogue", catalogue)], "catalogue", stats, 100000)
    errfam = load_catalogue("errors.sam")
    if errfam and not ctx.violations:
        # deterministic family of declarations WITH diagnostics (unknown members, 17 fields, misplaced `private`,
        # unresolved names): diagnostic locations, and the name under the cursor on error-recovered nodes
        check_batch(ctx, "walk", [errfam], "error family", stats)
        check_svc_batch(ctx, [("tests.VerifErrors", errfam)], "error family", stats, 100000)

    n_lex = ctx.scale(3000, 200000)
    n_walk = ctx.scale(1500, 60000)
    n_svc = ctx.scale(90, 4000)
    done = 0
    hist = {"soup": 0, "random": 0, "relayout": 0, "mutation": 0, "grammar": 0}
    nontrivial, distinct, samples = 0, set(), []
    while done < n_lex and not ctx.violations:
        batch = []
        for _ in range(min(1000, n_lex - done)):
            r = rng.fork()
            k = rng.weighted([("soup", 4), ("random", 2), ("relayout", 3), ("mutation", 1), ("grammar", 1)])
            hist[k] += 1
            if k == "soup":
                t = c05.gen_soup(r, vocab, r.range(1, 50))
            elif k == "random":
                t = c05.gen_random_text(r, r.range(0, 80))
            elif k == "relayout":
                name, src = r.pick(small_sources)
                if len(src) > 2500:
                    a = r.below(len(src) - 2500); src = src[a:a + 2500]
                t = relayout(r, src)
            elif k == "grammar":
                t = relayout(r, gen_module(r))[:6000]
            else:
                name, src = r.pick(small_sources)
                t = c05.mutate(r, src[:3000], vocab)
            batch.append(t)
        check_batch(ctx, "lex", batch, f"generated seed={ctx.seed}", stats)
        done += len(batch)
        for t in batch:
            h = hash(t)
            if h not in distinct:
                distinct.add(h)
                if re.search(r"/\*[^*]*\n|\r|\t|[^\x00-\x7f]|\"", t):
                    nontrivial += 1
                    if len(samples) < 3 and len(t) < 70:
                        samples.append({"text": t})
    # AST walk: every production in every variant (grammar generator + catalogue) and re-laid-out real programs
    wdone = 0
    whist = {"grammar": 0, "grammar+layout": 0, "catalogue+layout": 0, "repo+layout": 0, "mutation": 0, "gap-comments": 0}
    while wdone < n_walk and not ctx.violations:
        batch = []
        for _ in range(min(500, n_walk - wdone)):
            r = rng.fork()
            k = rng.weighted([("grammar", 3), ("grammar+layout", 3), ("catalogue+layout", 1 if catalogue else 0),
                              ("repo+layout", 3), ("mutation", 1), ("gap-comments", 1)])
            whist[k] += 1
            if k == "grammar":
                t = gen_module(r)
            elif k == "grammar+layout":
                t = relayout(r, gen_module(r))
            elif k == "catalogue+layout":
                t = relayout(r, catalogue)
            elif k == "repo+layout":
                t = relayout(r, r.pick(small_sources)[1])
            elif k == "gap-comments":
                t = gap_comments(r, catalogue if (catalogue and r.chance(1, 2)) else r.pick(small_sources)[1])
            else:
                t = c05.mutate(r, r.pick(small_sources)[1], vocab)
            batch.append(t)
        check_batch(ctx, "walk", batch, f"generated modules seed={ctx.seed}", stats)
        wdone += len(batch)
    # language-service results at identifier positions (type-correct programs: catalogue and tests/*.sam, re-laid out)
    sdone = 0
    test_sources = [s for s in small_sources if s[0].startswith("tests.") and len(s[1]) < 6000]
    while sdone < n_svc and not ctx.violations:
        batch = []
        for _ in range(min(60, n_svc - sdone)):
            r = rng.fork()
            if catalogue and r.chance(1, 4):     # unresolvable imports: the diagnostic must cover the whole import
                batch.append(("tests.VerifCatalogue", gen_imports(r) + "import { Zz } from no.such"
                              + r.pick(["", ".Mod", ".Mod.Deep"]) + r.pick(["\n", ";\n", " ", " // c\n"]) + relayout(r, catalogue)))
            elif catalogue and r.chance(1, 2):
                batch.append(("tests.VerifCatalogue", relayout(r, catalogue) if r.chance(3, 4) else catalogue))
            elif test_sources:
                name, src = r.pick(test_sources)
                batch.append((name, relayout(r, src)))
        check_svc_batch(ctx, batch, f"generated layouts seed={ctx.seed}", stats, max_pos)
        sdone += len(batch)

    if not ctx.violations:
        lsp_leg(ctx, stats)
    missing = sorted(k for k in PRODUCTIONS if k not in stats["node_hist"] and k != "E.MethodAccess")
    ctx.cov.update({
        "evaluations": done + wdone + sdone, "distinct_nontrivial": nontrivial,
        "rule": "lex texts: distinct texts containing a multi-line block comment, CR, tab, non-ASCII scalar or string literal "
                "(the layouts where line/column bookkeeping is non-trivial); measured by regex on the generated text",
        "samples": samples, "traces_validated_against_impl": done,
        "lex_cases": done, "walk_cases": wdone, "svc_cases": sdone, "generator_histogram": hist, "walk_generator_histogram": whist,
        "walk_modules_without_syntax_error": stats["walk_valid"], "walk_modules_with_syntax_error": stats["walk_syntax_error"],
        "walk_located_nodes_checked": stats["nodes"], "walk_node_kind_histogram": stats["node_hist"],
        "productions_never_reached": missing,
        "lsp_projects": stats.get("lsp_projects", 0), "lsp_published_diagnostics": stats.get("lsp_diags", 0),
        "lsp_related_locations": stats.get("lsp_related", 0), "lsp_related_locations_in_other_module": stats.get("lsp_related_cross", 0),
        "lsp_position_queries": stats.get("lsp_queries", 0),
        "svc_query_histogram": stats["svc_hist"], "svc_error_free_modules": stats["svc_clean"],
        "svc_modules_with_errors": stats["svc_with_errors"], "svc_positions_per_module_cap": max_pos,
        "comment_attachments_checked": stats["node_hist"].get("comment", 0),
        "pending": ["comment conservation (every comment attached exactly once) is C09's property (C09-F2 open) and is not checked here; "
                    "comment placement relative to the owner is", "E.MethodAccess only exists after type checking (the parser emits FieldAccess); it is reached "
                    "through the service queries only", "rename's LSP edit is one replacement of ENTIRE_DOCUMENT_RANGE: no derived range exists; new text parses and renames exactly the references"],
        "extractor_ok": extractor_ok,
    })
    ctx.assumptions += ["columns are byte columns (implementation convention); LSP UTF-16 columns differ on non-ASCII lines (observation)",
                        "valid UTF-8 input; texts < 4 GiB",
                        "a class's type-definition location deliberately starts at its type parameters (typedef/tparams overlap is exempt from the sibling rule)"]
    return ctx.finish(res, trusted=common.TRUSTED_COMMON + [
        "translator extract/c05_keywords.py; hand-written scanner model Model/Lexer.lean (shared with C05)",
        "production table PRODUCTIONS in vlib/c14.py (twin of `Production` in Props/C14.lean), calibrated on every tests/ and std/ source",
        "not modelled (oracle only): the parser's productions themselves, services query code"])


def replay(ctx, path):
    common.build_harness(PROP); common.build_lean(["drv-c14"])
    data = json.load(open(path))
    rp = data.get("replay", {})
    if "text" in rp and rp.get("protocol") in ("lex", "walk"):
        kind = rp["protocol"]
        line = f"{kind} " + hexs(rp["text"].encode())
        rc, impl, _ = common.run_exec(common.harness_bin(PROP), [], [line])
        print("text ", json.dumps(rp["text"])); print("impl ", impl[0])
        orc = oracle_of(kind)(rp["text"].encode(), impl[0])
        bad = bool(orc)
        if kind == "lex":
            _, model = common.run_pair(PROP, [line])
            print("model", model[0]); bad = bad or impl[0] != model[0]
        for m in orc:
            print("ORACLE", m)
        return 1 if bad else 0
    if rp.get("protocol") == "lsp":
        from .c10 import build_cli
        st = {k: 0 for k in ("lsp_diags", "lsp_related", "lsp_related_cross", "lsp_queries")}
        msgs = lsp_project_check(ctx, build_cli(), rp["modules"], "replay", st, positions=400)
        for m in msgs:
            print("ORACLE", m)
        return 1 if msgs else 0
    if rp.get("protocol") == "svc":
        r = run_svc([(rp["module"], rp["text"])], 100000, workers=1)[0]
        orc = [r] if r.startswith("<") else svc_oracle(rp["module"], rp["text"].encode(), r)
        print("text ", json.dumps(rp["text"]))
        for m in orc:
            print("ORACLE", m)
        return 1 if orc else 0
    print(json.dumps(data, indent=1)[:4000])
    return 1
