"""C13 — type inference is stable under meaning-preserving rewrites.

Proof: lean/SamVerif/Props/C13.lean over Model/Scope.lean (scope resolution = ssa_analysis.rs) and
Model/ScopeSig.lean (build_module_signature).
Tie: protocols `ssa` and `sig`: the real parser + `perform_ssa_analysis_on_module` /
`build_module_signature` against the Lean model on the same modules (repo test programs, generated
programs, ill-scoped and duplicate-name mutants).
Oracle (model-free): metamorphic run on the real parser + checker (+ compiled behaviour under
Node): every applicable instance of the six rewrites must keep verdict, error count and output.
"""
import glob, json, os, re
from . import common, scopegen
from .common import hexs

PROP = "C13"


def run_impl(lines, prop=PROP):
    rc, out, err = common.run_exec(common.harness_bin(prop), [], lines)
    if rc != 0 or len(out) < len(lines):
        out = out + [f"<harness died rc={rc}: {err.strip()[-200:]}>"] * (len(lines) - len(out))
    return out


def run_impl_parallel(lines, workers=8):
    """independent lines on several harness processes (contiguous chunks, answers concatenated in
    order; every random choice was drawn before)"""
    from concurrent.futures import ThreadPoolExecutor
    if len(lines) < 4 * workers:
        return run_impl(lines)
    n = (len(lines) + workers - 1) // workers
    chunks = [lines[i:i + n] for i in range(0, len(lines), n)]
    with ThreadPoolExecutor(max_workers=workers) as ex:
        outs = list(ex.map(run_impl, chunks))
    return [a for o in outs for a in o]


def run_model(lines, prop=PROP):
    rc, out, err = common.run_exec(common.driver_bin(prop), [], lines)
    if rc != 0 or len(out) < len(lines):
        out = out + [f"<driver died rc={rc}: {err.strip()[-200:]}>"] * (len(lines) - len(out))
    return out


def correspond(op, texts):
    """-> list of (text, impl_answer, model_answer) for modules that parse; answers are the
    canonical result strings."""
    impl = run_impl([f"{op} {hexs(t)}" for t in texts])
    idx, mlines = [], []
    for i, a in enumerate(impl):
        if "=> " in a:
            idx.append(i)
            mlines.append(f"{op} " + a.split("=> ")[0])
    model = run_model(mlines) if mlines else []
    res = []
    for j, i in enumerate(idx):
        res.append((texts[i], impl[i].split("=> ", 1)[1], model[j]))
    other = [(texts[i], impl[i]) for i in range(len(impl)) if "=> " not in impl[i]]
    return res, other


# ------------------------------------------------------------------ generators for the tie

def scope_mutants(rng, text):
    """ill-scoped variants of a module text: rename one identifier occurrence (-> unbound name or a
    duplicate definition), duplicate a member / a class."""
    out = []
    ids = [m for m in re.finditer(r"\b[a-z][A-Za-z0-9]*\b", text)
           if m.group(0) not in KEYWORDS]
    for _ in range(2):
        if not ids:
            break
        a, b = rng.pick(ids), rng.pick(ids)
        out.append(text[:a.start()] + b.group(0) + text[a.end():])
    ups = [m for m in re.finditer(r"\b[A-Z][A-Za-z0-9]*\b", text)]
    if ups:
        a, b = rng.pick(ups), rng.pick(ups)
        out.append(text[:a.start()] + b.group(0) + text[a.end():])
    return out


KEYWORDS = set("import from class interface val function method as private protected internal public if then else "
               "match let true false this self unit bool int string any void null new extends implements export assert "
               "abstract async await break case catch const continue debugger default delete do enum extern final "
               "finally fn for impl in is loop macro mut mod move package pub ref return sizeof static struct super "
               "throw trait try type typeof unsafe use var where while yield".split())


def sig_texts(rng, n):
    """small modules with (possibly duplicate) class / member / variant names in random order"""
    out = []
    for _ in range(n):
        names = ["A", "B", "C"]
        tops = []
        for _ in range(rng.range(1, 4)):
            nm = rng.pick(names)
            kind = rng.below(4)
            mems = []
            for _ in range(rng.range(0, 4)):
                mn = rng.pick(["m1", "m2", "init", "Va"])
                if mn == "Va":
                    mn = "m3"
                k = rng.pick(["method", "function"])
                np = rng.range(0, 2)
                ps = ", ".join(f"p{i}: int" for i in range(np))
                mems.append((k, mn, ps))
            if kind == 0:
                body = "".join(f"  {k} {mn}({ps}): int\n" for k, mn, ps in mems if True)
                tops.append(f"interface {nm} {{\n{body}}}")
            else:
                hdr = {1: "(val x: int, val y: int)", 2: f"(Va(int), Vb, {rng.pick(['Va', 'Vc(int, int)', 'm1(int)'])})", 3: ""}[kind]
                body = "".join(f"  {k} {mn}({ps}): int = 1\n" for k, mn, ps in mems)
                tops.append(f"{rng.pick(['', 'private '])}class {nm}{hdr} {{\n{body}}}")
        out.append("\n".join(tops))
    return out


# ------------------------------------------------------------------ rewrites (C13 statement)

def subexpr_paths(e, path=()):
    """paths of int-valued sub-expressions that may be wrapped"""
    k = e[0]
    out = []
    if k in ("lit", "var", "bin", "if", "iflet", "block", "match", "call", "gcall", "raw2", "post") and not (k == "raw2" and not e[3].endswith("sum()")) \
            and not (k == "block" and e[2][0] == "lam") and not (k == "gcall" and e[5] is not None):
        out.append(path)
    kids = {"bin": [2, 3], "if": [2, 3], "iflet": [3, 4], "block": [2], "paren": [1], "wrap": [1]}.get(k, [])
    for i in kids:
        out += subexpr_paths(e[i], path + (i,))
    return out


def replace_at(e, path, f):
    if not path:
        return f(e)
    l = list(e)
    l[path[0]] = replace_at(e[path[0]], path[1:], f)
    return tuple(l)


def rewrites(rng, p, accepted, max_single=8):
    """-> list of (rewrite kind, rewritten program)"""
    out = []
    names = scopegen.local_names(p)
    if names:
        old = rng.pick(names)
        out.append(("rename-local", scopegen.rename_name(p, old, "z" + old + "q")))
    q = dict(p)
    q["classes"] = rng.shuffle(p["classes"])
    q["member_order"] = rng.shuffle(list(range(scopegen.n_members(p))))
    out.append(("reorder", q))
    for kind in ("paren", "wrap", "paren", "wrap"):
        fi = rng.below(len(p["funs"]))
        paths = subexpr_paths(p["funs"][fi]["body"])
        if paths:
            path = rng.pick(paths)
            q = dict(p)
            q["funs"] = [dict(f) for f in p["funs"]]
            q["funs"][fi]["body"] = replace_at(p["funs"][fi]["body"], path, lambda e: (kind, e))
            out.append((kind, q))
    if accepted and not p.get("broken"):
        # "make an inferred type explicit": every site individually, random subsets, and all at once
        sites = scopegen.annotation_sites(p)
        singles = rng.shuffle(sites)[:max_single]
        for st in singles:
            out.append(("annotate-one:" + st[0], scopegen.annotate(p, [st])))
        for _ in range(2 if len(sites) > 2 else 0):
            sub = [st for st in sites if rng.chance(1, 2)]
            if sub and len(sub) < len(sites):
                out.append(("annotate-subset", scopegen.annotate(p, sub)))
        if sites:
            out.append(("annotate-all", scopegen.annotate(p, sites)))
    if p.get("unmerged"):       # the consistently renamed twin: one of two same-named sibling bindings renamed
        out.append(("rename-binding", p["unmerged"]))
    nif = scopegen.if_sites(p)
    if nif:
        out.append(("swap-branches/verdict-only", scopegen.swap_branches(p, rng.below(nif))))
    for which, n in rng.shuffle(scopegen.chain_sites(p))[:3]:
        out.append(("wrap-else-if", scopegen.nest_else_if(p, which, rng.range(1, n))))
    if p.get("broken") == "underconstrained":
        # genuinely underconstrained programs stay rejected when the *inferable* type arguments of
        # the surrounding calls are spelled out: verdict only (the diagnostics may move)
        for st in [x for x in scopegen.annotation_sites(p) if x[0] == "targs"][:max_single]:
            out.append(("annotate-one:targs/verdict-only", scopegen.annotate(p, [st])))
    q = dict(p)
    q["split"] = [c for c in scopegen.LIB_ORDER if rng.chance(1, 2)] or ["Sh"]
    if p.get("extra") and rng.chance(1, 2):      # declarations of the path family move together
        q["split"] = [c for c in p["classes"] if c != "Main"]
    out.append(("split-modules", q))
    return out


def mix_family(ctx):
    """deterministic family: arguments of generic calls that are if/else, 3-arm match or blocks whose
    branches are drawn from {needs the hint} x {synthesisable: literal / variable / call / generic call on
    variable / on call / nested two deep / plain call}, in EVERY order in which at least one branch needs
    the hint; thorough: every ordered pair"""
    g = scopegen
    out = []
    for family, kinds in (("M", g.M_KINDS), ("L", g.L_KINDS)):
        for shape in ("if", "match", "if-block", "block-if"):
            for a in kinds:
                for b in kinds:
                    if ctx.quick and not (a in g.NEEDS_HINT or b in g.NEEDS_HINT):
                        continue
                    ks = [a, b] if shape != "match" else [a, b, a]
                    out.append(g.mix_program(family, shape, ks))
    return out


def mix_rewrites(p, accepted):
    """every rewrite instance of a family member: swap the branches of every if/else (with the
    condition negated), and — the base being accepted — every annotation site on its own, and all"""
    out = [("swap-branches/verdict-only", scopegen.swap_branches(p, i)) for i in range(scopegen.if_sites(p))]
    if accepted:
        sites = scopegen.annotation_sites(p)
        out += [("annotate-one:" + st[0], scopegen.annotate(p, [st])) for st in sites]
        if sites:
            out.append(("annotate-all", scopegen.annotate(p, sites)))
    return out


def order_family():
    """generic classes (1 and 2 type parameters) whose members come in EVERY order: methods using the
    class's type parameters, static functions with their own type parameters (as many as the class /
    more / fewer; same and different names), a static function without any, a method with its own
    type parameter. Verdict and output must not depend on the order of the members."""
    import itertools
    groups = []
    one = {"get": "  method get(): T = this.v",
           "of": "  function <A> of(a: A): Bx1<A> = Bx1.init(a)",
           "same": "  function <T> same(a: T): Bx1<T> = Bx1.init(a)",
           "two": "  function <A, B> two(a: A, b: B): A = a",
           "zero": "  function zero(): int = 0",
           "map": "  method <B> map(f: (T) -> B): B = f(this.v)"}
    for gi, names in enumerate((["get", "of", "zero", "map"], ["of", "get", "same", "two"])):
        for perm in itertools.permutations(names):
            text = "class Bx1<T>(val v: T) {\n" + "\n".join(one[n] for n in perm) + "\n}"
            use = ("Bx1.of(v0).get()" if "of" in perm else "Bx1.init(v0).get()") + " + Bx1.init(1).get()"
            groups.append(("bx1-%d" % gi, "/".join(perm), [("Bx1", text)], use))
    two = {"fst": "  method fst(): T = this.a",
           "snd": "  method snd(): U = this.b",
           "mk": "  function <A, B> mk(a: A, b: B): Pr2<A, B> = Pr2.init(a, b)",
           "one": "  function <A> one(a: A): A = a"}
    for perm in itertools.permutations(["fst", "mk", "one", "snd"]):
        text = "class Pr2<T, U>(val a: T, val b: U) {\n" + "\n".join(two[n] for n in perm) + "\n}"
        groups.append(("pr2", "/".join(perm), [("Pr2", text)], "Pr2.mk(v0, true).fst() + Pr2.one(2)"))
    out = []
    for group, order, extra, use in groups:
        p = scopegen.path_program(("order-" + group + "-" + order, "accepted", [scopegen._let("t1", use)], extra, ""))
        p["funs"][0]["body"] = ("block", [scopegen._let("t1", use)], ("var", "t1"))
        p["order_group"] = group
        out.append(p)
    return out


def self_reference_family(twin=False):
    """Deterministic (seed-independent): for every binding construct, a use of the bound name INSIDE
    the expression that defines / is matched by the binding (it is not in scope there: `let a = a + 1`,
    `if let S(v) = f(v)`, `match g(b) { S(b) -> .. }`, a lambda parameter used in a sibling argument),
    each with a control in which the same position legitimately resolves to an OUTER binding of a
    different name.  Through the ssa tie (Model/Scope.lean vs ssa_analysis.rs) and, with `twin=True`
    (the binder and the uses it binds consistently renamed to a fresh name; the out-of-scope
    occurrence is not bound by it and keeps its name), through the rename-local oracle: original and
    twin must get the same verdict from the real checker."""
    prelude = "class Opt(N, S(int)) {\n  function of(x: int): Opt = Opt.S(x)\n  function id(o: Opt): Opt = o\n  function ap(f: (int) -> int, x: int): int = f(x)\n}\n"
    bodies = [
        ("iflet-scrutinee-self", "v", "function f(): int = if let S(B) = Opt.id(v) { B } else { 0 }"),
        ("iflet-scrutinee-outer", "v", "function f(w: Opt): int = if let S(B) = Opt.id(w) { B } else { 0 }"),
        ("iflet-scrutinee-self-nested", "v", "function f(w: Opt): int = if let S(B) = Opt.id(if let S(u) = w { Opt.S(v + u) } else { w }) { B } else { 0 }"),
        ("iflet-else-self", "v", "function f(w: Opt): int = if let S(B) = w { B } else { v }"),
        ("let-init-self", "a", "function f(): int = {\n    let B = a + 1;\n    B\n  }"),
        ("let-init-outer", "a", "function f(b: int): int = {\n    let B = b + 1;\n    B\n  }"),
        ("let-init-later", "c", "function f(): int = {\n    let a = c + 1;\n    let B = 2;\n    a + B\n  }"),
        ("match-scrutinee-self", "b", "function f(): int = match Opt.id(b) {\n    N -> 0,\n    S(B) -> B,\n  }"),
        ("match-scrutinee-outer", "b", "function f(w: Opt): int = match Opt.id(w) {\n    N -> 0,\n    S(B) -> B,\n  }"),
        ("match-arm-sibling", "b", "function f(w: Opt): int = match w {\n    N -> b,\n    S(B) -> B,\n  }"),
        ("lambda-param-sibling-arg", "x", "function f(): int = Opt.ap((B) -> B + 1, x)"),
        ("lambda-param-outer", "x", "function f(y: int): int = Opt.ap((B) -> B + y, y)"),
        ("tuple-pattern-self", "p", "function f(): int = {\n    let (B, q) = (p, 1);\n    B + q\n  }"),
        ("iflet-in-let-self", "r", "function f(w: Opt): int = {\n    let B = if let S(r) = w { r } else { 0 };\n    B\n  }"),
    ]
    return [(name, prelude + "class Main {\n  " + body.replace("B", ("z" + nm + "q") if twin else nm) + "\n  function main(): unit = Process.println(\"m\")\n}\n")
            for name, nm, body in bodies]


def matches_finding(ctx, kind, detail):
    for f in ctx.open_findings:
        sig = f.get("signature", "")
        if sig.startswith("rewrite=") and sig.split("=", 1)[1].split(";")[0] == kind.split(":")[0]:
            return f
    return None


# ------------------------------------------------------------------ run

def gen_arg_text(rng, depth):
    """random expression texts for the `cls` protocol (they only have to parse)"""
    k = rng.below(9) if depth > 0 else rng.below(3)
    d = depth - 1
    if k == 0:
        return rng.pick(["1", "x", "true", "x + 1", "!b", "Foo.bar", "x.y", "(1, 2)", "-x"])
    if k == 1:
        return rng.pick(["f(x)", "Foo.bar(1)", "x.m()", "Process.panic(\"p\")", "f((a) -> a)"])
    if k == 2:
        n = rng.range(0, 3)
        ps = ", ".join(f"p{i}: int" if rng.chance(1, 2) else f"p{i}" for i in range(n))
        return f"({ps}) -> " + gen_arg_text(rng, d if depth > 0 else 0)
    if k == 3:
        els = gen_arg_text(rng, d)
        mid = f" else if c2 {{ {gen_arg_text(rng, d)} }}" if rng.chance(1, 3) else ""
        return f"if c {{ {block_body(rng, d)} }}{mid} else {{ {els} }}"
    if k == 4:
        arms = ", ".join(f"K{i}(v{i}) -> " + gen_arg_text(rng, d) for i in range(rng.range(1, 3)))
        return f"match m {{ {arms} }}"
    if k == 5:
        return "{ " + block_body(rng, d) + " }"
    if k == 6:
        return "(" + gen_arg_text(rng, d) + ")"
    if k == 7:
        return f"(q: int) -> {{ {block_body(rng, d)} }}"
    return f"if let S(w) = o {{ {gen_arg_text(rng, d)} }} else {{ {gen_arg_text(rng, d)} }}"


def block_body(rng, d):
    stmts = "".join(f"let t{i} = {gen_arg_text(rng, 0)}; " for i in range(rng.range(0, 2)))
    k = rng.below(4)
    if k == 0:
        return stmts               # no final expression
    return stmts + gen_arg_text(rng, d)


def run(ctx):
    # translator first: Generated/C13Phase0.lean must reflect the current source
    rc_x, out_x = common.sh(["python3", os.path.join(common.VERIF, "extract", "c13_phase0.py")])
    if rc_x != 0:
        ctx.violation("translator extract/c13_phase0.py no longer recognises Phase 0 of check_function_call_implicit_instantiation: " + out_x.strip()[-200:],
                      {"broken": "extract/c13_phase0.py", "log": out_x[-2000:]}, no_input=True)
    res = common.proof_gate(ctx)
    # part c (hint-ordering kernel): depends on the generated Phase-0 table
    rc_ = common.audit("C13Hint")
    res["obligations"] += rc_["obligations"]; res["discharged"] += rc_["discharged"]
    if rc_["failed"]:
        ctx.violation("proof obligations of Props/C13Hint.lean no longer check against the current source (Generated/C13Phase0.lean: re-check test = %s): " % (out_x.strip()[-40:],)
                      + "; ".join(f"{n} ({w})" for n, w in rc_["failed"][:4]),
                      {"broken_theorems": rc_["failed"], "generated": out_x.strip(), "log": rc_["log"][-3000:]}, no_input=True)
    # part b (parentheses) builds on builder-C08's parser model + lemmas: audited separately; if that
    # model does not build (another builder mid-edit) it is C08's failure, and part b is listed as
    # not checked in this run
    partb = "checked"
    ok08, _ = common.build_lean(["SamVerif.Props.C13b"])
    if ok08:
        rb = common.audit("C13b")
        res["obligations"] += rb["obligations"]; res["discharged"] += rb["discharged"]
        if rb["failed"]:
            ctx.violation("proof obligations of Props/C13b.lean no longer check: " + "; ".join(f"{n} ({w})" for n, w in rb["failed"][:4]),
                          {"broken_theorems": rb["failed"], "log": rb["log"][-3000:]}, no_input=True)
    else:
        # Props/C13b imports only C08's Model/Fmt + Lemmas/Fmt and my generalisation of its ext_all
        # lemma; a build failure there means that model is being edited (or has changed shape):
        # reported by ./check C08, listed here as not checked (its obligations stay undischarged)
        import re as _re
        names = _re.findall(r"^#print axioms\s+(\S+)", open(os.path.join(common.LEAN, "SamVerif", "Audit", "C13b.lean")).read(), _re.M)
        res["obligations"] += names
        partb = "not checked in this run: SamVerif.Props.C13b (built on C08's parser model Model/Fmt.lean + Lemmas/Fmt.lean) does not build"
    rng = ctx.rng
    if not os.path.exists(common.harness_bin(PROP)) or not os.path.exists(common.driver_bin(PROP)):
        return ctx.finish(res, trusted=common.TRUSTED_COMMON)
    hist = {}
    samples = []
    # ---------- tie: ssa + sig correspondence
    texts = []
    for f in sorted(glob.glob(os.path.join(common.REPO, "tests", "*.sam"))):
        texts.append(open(f).read())
    cdir = os.path.join(common.VERIF, "corpus", PROP)
    for f in sorted(glob.glob(os.path.join(cdir, "*.sam"))):
        texts.append(open(f).read())
    nrepo = len(texts)
    progs = []
    nprog = ctx.scale(170, 3000)
    for i in range(nprog):
        broken = rng.weighted([(None, 14), ("unbound", 2), ("dup", 2), ("type", 2), ("underconstrained", 1)])
        p = scopegen.gen_program(rng.fork(), broken)
        progs.append(p)
        texts.append(scopegen.render(p)["Main"])
    texts += [scopegen.render(q)["Main"] for p in scopegen.sibling_programs() for q in (p, p["unmerged"])]
    texts += [scopegen.render(p)["Main"] for p in order_family()]     # member-order family: also through the ssa tie and the parser walkers
    texts += [t for _, t in self_reference_family()]
    base = list(texts)
    for t in base[: ctx.scale(120, 2000)]:
        texts += scope_mutants(rng, t)
    ssa_res, ssa_other = correspond("ssa", texts)
    nontrivial = 0
    for t, a, m in ssa_res:
        if a != m:
            # shrink: drop lines of the module while the disagreement persists
            def fails(ls):
                r, _ = correspond("ssa", ["\n".join(ls)])
                return bool(r) and r[0][1] != r[0][2]
            small = "\n".join(common.ddmin(t.split("\n"), fails, 80))
            r, _ = correspond("ssa", [small])
            ctx.violation("model/implementation disagreement on protocol ssa (Model/Scope.lean vs ssa_analysis.rs); the theorems of Props/C13.lean no longer speak about this code",
                          {"protocol": "ssa", "module": small, "impl": r[0][1] if r else a, "model": r[0][2] if r else m,
                           "broken": "correspondence ssa"}, no_input=True)
            break
        if "C[" in a and not a.endswith("E[]") or re.search(r"C\[[^\]]", a):
            nontrivial += 1
    for t, a in ssa_other:
        if a.startswith("locinv"):
            ctx.violation("the parser builds an `E::LocalId` whose expression location differs from its identifier's location (every position-based query and the renamer rely on the two being equal): " + a[7:160],
                          {"protocol": "ssa", "module": t, "impl": a})
            break
        if a.startswith("tpinv"):
            ctx.violation("the parser classifies an annotation identifier against the scoping rule of type parameters (a class's type parameters are in scope in its header and methods, a member's own in that member; static functions see only their own): " + a[6:200],
                          {"protocol": "ssa", "module": t, "impl": a})
            break
        if a.startswith("panic") or a.startswith("<"):
            ctx.violation("perform_ssa_analysis_on_module / parser crashed: " + a[:120], {"protocol": "ssa", "module": t, "impl": a})
            break
    hist["ssa_modules_compared"] = len(ssa_res)
    hist["ssa_modules_with_scope_errors"] = sum(1 for _, a, _ in ssa_res if not a.endswith("E[]"))
    hist["ssa_modules_with_captures"] = sum(1 for _, a, _ in ssa_res if re.search(r"C\[[^\]]*=", a))
    hist["ssa_syntax_rejected"] = sum(1 for _, a in ssa_other if a == "syntax")
    stexts = base[:nrepo] + sig_texts(rng, ctx.scale(300, 5000)) + base[nrepo:nrepo + 20]
    sig_res, sig_other = correspond("sig", stexts)
    for t, a, m in sig_res:
        if a != m:
            ctx.violation("model/implementation disagreement on protocol sig (Model/ScopeSig.lean vs build_module_signature)",
                          {"protocol": "sig", "module": t, "impl": a, "model": m, "broken": "correspondence sig"}, no_input=True)
            break
    hist["sig_modules_compared"] = len(sig_res)
    # permutation invariance observed on the implementation (distinct names) — model-free
    perm_checked = 0
    for t in stexts[nrepo:nrepo + ctx.scale(150, 2000)]:
        tops = t.split("\n}\n")
        names = re.findall(r"^(?:private )?(?:class|interface) (\w+)", t, re.M)
        if len(tops) < 2 or len(set(names)) != len(names):
            continue
        t2 = "\n}\n".join(rng.shuffle([x.rstrip("}\n") for x in tops])) + "\n}"
        t1 = "\n}\n".join([x.rstrip("}\n") for x in tops]) + "\n}"
        r, _ = correspond("sig", [t1, t2])
        if len(r) == 2:
            perm_checked += 1
            strip = lambda s: re.sub(r"@\d+", "@", s)
            if strip(r[0][1]) != strip(r[1][1]):
                ctx.violation("build_module_signature depends on the order of toplevels with distinct names",
                              {"original": t1, "reordered": t2, "sig1": r[0][1], "sig2": r[1][1]})
                break
    hist["sig_permutations_checked"] = perm_checked
    # ---------- tie: classification of generic-call arguments (hook verif_hooks_c13)
    ctexts = sorted(set(gen_arg_text(rng, rng.range(1, 4)) for _ in range(ctx.scale(1500, 20000))))
    cls_res, cls_other = correspond("cls", ctexts)
    cls_hist = {"0": 0, "1": 0}
    for t, a, m in cls_res:
        cls_hist[a] = cls_hist.get(a, 0) + 1
        if a != m:
            ctx.violation("model/implementation disagreement on protocol cls (Model/C13Hint.lean withoutHint vs arguments_should_be_checked_without_hint): impl=%s model=%s" % (a, m),
                          {"protocol": "cls", "expression": t, "impl": a, "model": m, "broken": "correspondence cls"}, no_input=True)
            break
    hist["cls_expressions_compared"] = len(cls_res)
    hist["cls_classification"] = cls_hist
    hist["cls_phase0_test_extracted"] = out_x.strip() if rc_x == 0 else "extractor failed"

    # ---------- oracle: metamorphic run on the real checker
    nrandom = len(progs)
    path_fam = [scopegen.path_program(e) for e in scopegen.PATH_FAMILY]
    progs = progs + mix_family(ctx) + path_fam + scopegen.sibling_programs()
    fam_rng = common.Rng(0xC13)      # the deterministic families do not depend on VERIF_SEED
    lines, meta = [], []
    for pi, p in enumerate(progs):
        lines.append("check " + hexs(json.dumps(scopegen.render(p))))
        meta.append((pi, "original", p))
    verdicts = run_impl_parallel(lines)
    lines2, meta2 = [], []
    for (pi, _, p), v in zip(meta, verdicts):
        acc = v.startswith("accepted")
        if p.get("path") and v.split(" ")[0] != p["path"][1] and not v.startswith("panic"):
            ctx.violation("deterministic checker-path family: `%s` is expected to be %s but the checker says: %s" % (p["path"][0], p["path"][1], v[:80]),
                          {"family": "path", "case": p["path"][0], "sources": scopegen.render(p), "verdict": v,
                           "broken": "the family no longer reaches the diagnostic it was written for"}, no_input=True)
        for kind, q in (mix_rewrites(p, acc) if p.get("mix") else
                        rewrites(fam_rng.fork() if p.get("path") else rng.fork(), p, acc)):
            lines2.append("check " + hexs(json.dumps(scopegen.render(q))))
            meta2.append((pi, kind, q))
    verdicts2 = run_impl_parallel(lines2)
    hist["programs"] = len(progs)
    hist["programs_deterministic_family"] = len(progs) - nrandom
    hist["programs_path_family"] = len(path_fam)
    # ---------- binder used inside its own defining expression: original vs consistently renamed twin
    sfo, sft = self_reference_family(), self_reference_family(twin=True)
    sverd = run_impl_parallel(["check " + hexs(json.dumps({"Main": t})) for _, t in sfo + sft])
    hist["self_reference_family_pairs"] = len(sfo)
    for k, ((nm, t0), (_, t1)) in enumerate(zip(sfo, sft)):
        v0, v1 = sverd[k], sverd[len(sfo) + k]
        if v0.startswith("accepted") != v1.startswith("accepted") or v0.startswith("panic") or v1.startswith("panic"):
            ctx.violation("consistently renaming a local binding changes the verdict (%s): original is %s, renamed twin is %s" % (nm, v0[:60], v1[:60]),
                          {"rewrite": "rename-local", "case": nm, "original": {"Main": t0}, "rewritten": {"Main": t1},
                           "verdict_original": v0, "verdict_rewritten": v1})
    # ---------- member order: every permutation of the members of a generic class
    ofam = order_family()
    overd = run_impl_parallel(["check " + hexs(json.dumps(scopegen.render(p))) for p in ofam])
    hist["order_family_programs"] = len(ofam)
    by_group = {}
    for p, v in zip(ofam, overd):
        by_group.setdefault(p["order_group"], []).append((p, v))
    for grp, items in sorted(by_group.items()):
        acc = [x for x in items if x[1].startswith("accepted")]
        rej = [x for x in items if not x[1].startswith("accepted")]
        if acc and rej:
            ctx.violation("reordering the members of a class changes the verdict: %s is accepted, %s is %s" %
                          (acc[0][0]["path"][0], rej[0][0]["path"][0], rej[0][1][:60]),
                          {"rewrite": "reorder-members", "original": scopegen.render(acc[0][0]), "rewritten": scopegen.render(rej[0][0]),
                           "verdict_original": acc[0][1], "verdict_rewritten": rej[0][1]})
        elif rej:
            ctx.violation("member-order family: every order of %s is rejected (%s); the family no longer type-checks" % (grp, rej[0][1][:60]),
                          {"family": "order", "sources": scopegen.render(rej[0][0]), "verdict": rej[0][1]}, no_input=True)
    hist["programs_accepted"] = sum(1 for v in verdicts if v.startswith("accepted"))
    hist["programs_rejected"] = sum(1 for v in verdicts if v.startswith("rejected"))
    hist["rewrite_instances"] = {}
    exec_jobs = []
    reported = set()
    for (pi, kind, q), v2 in zip(meta2, verdicts2):
        hist["rewrite_instances"][kind] = hist["rewrite_instances"].get(kind, 0) + 1
        v1 = verdicts[pi]
        same = v1.split(" ")[:2] == v2.split(" ")[:2]
        if kind.endswith("/verdict-only"):
            same = v1.split(" ")[:1] == v2.split(" ")[:1]
        if v1.startswith("panic") or v2.startswith("panic"):
            same = v1 == v2
        if not same:
            f = matches_finding(ctx, kind, (v1, v2))
            if f:
                ctx.known(f)
                continue
            if kind in reported:
                continue
            reported.add(kind)
            ctx.violation(f"rewrite `{kind}` changes the checker's verdict / error count: {v1[:90]} -> {v2[:90]}",
                          {"rewrite": kind, "original": scopegen.render(progs[pi]), "rewritten": scopegen.render(q),
                           "verdict_original": v1, "verdict_rewritten": v2})
        elif v1.startswith("accepted"):
            exec_jobs.append((pi, kind, q))
    for v, (pi, _, p) in zip(verdicts, meta):
        if v.startswith("panic") and "panic" not in reported:
            reported.add("panic")
            ctx.violation("checker panicked on a generated program: " + v[:100], {"sources": scopegen.render(p)})
    # behaviour leg (compiled wasm under Node >= 22) on accepted programs
    beh = {"compared": 0, "no_node": 0}
    try:
        common.build_exec()
        nbeh = ctx.scale(45, 600)
        chosen = sorted(set(pi for pi, _, _ in exec_jobs if pi < nrandom))[:nbeh]
        fam_idx = sorted(set(pi for pi, _, _ in exec_jobs if pi >= nrandom))
        keep = set(chosen)
        # family members: base + branch swap + all annotations (quick); thorough: every instance
        fam_kinds = {"swap-branches/verdict-only", "annotate-all"}
        jobs = [(pi, "original", progs[pi]) for pi in chosen + fam_idx] + \
               [j for j in exec_jobs if j[0] in keep or (j[0] >= nrandom and (not ctx.quick or j[1] in fam_kinds))]
        outs = common.exec_programs([{"sources": scopegen.render(q), "entry": "Main", "std": True, "ts": False,
                                      "timeout_ms": 10000} for _, _, q in jobs])
        orig = {}
        for (pi, kind, q), o in zip(jobs, outs):
            key = (o["compile"], tuple((o.get("wasm") or {}).get("lines", [])), (o.get("wasm") or {}).get("end"))
            if key[2] == "no-node":
                beh["no_node"] += 1
                continue
            if o["compile"] == "panic":
                # a compiler crash that occurs in BOTH the original and the rewritten program is
                # C03's business; one that a meaning-preserving rewrite makes appear / disappear is
                # a behaviour change (C13). Normalise the message: it may quote locations / names.
                beh["compiler_panics"] = beh.get("compiler_panics", 0) + 1
                key = ("panic", ("<compiler panic>",), "compiler-panic")
            if kind == "original":
                orig[pi] = key
                if len(samples) < 3:
                    samples.append({"program": scopegen.render(q)["Main"][-400:], "output": list(key[1])})
                continue
            beh["compared"] += 1
            if pi in orig and orig[pi] != key and ("beh" + kind) not in reported:
                reported.add("beh" + kind)
                ctx.violation(f"rewrite `{kind}` changes the behaviour of an accepted program: {orig[pi]} -> {key}",
                              {"rewrite": kind, "original": scopegen.render(progs[pi]), "rewritten": scopegen.render(q),
                               "behaviour_original": orig[pi], "behaviour_rewritten": key})
        # member-order family: the output must not depend on the order of the members
        oouts = common.exec_programs([{"sources": scopegen.render(p), "entry": "Main", "std": True, "ts": False,
                                       "timeout_ms": 10000} for p in ofam])
        first = {}
        for p, o in zip(ofam, oouts):
            key = (o["compile"], tuple((o.get("wasm") or {}).get("lines", [])), (o.get("wasm") or {}).get("end"))
            if key[2] == "no-node":
                continue
            beh["compared"] += 1
            g0 = first.setdefault(p["order_group"], (p, key))
            if g0[1] != key and "beh-order" not in reported:
                reported.add("beh-order")
                ctx.violation(f"reordering the members of a class changes the behaviour: {g0[1]} -> {key}",
                              {"rewrite": "reorder-members", "original": scopegen.render(g0[0]), "rewritten": scopegen.render(p),
                               "behaviour_original": g0[1], "behaviour_rewritten": key})
    except Exception as ex:  # oracle unavailable: say so, keep the other legs
        beh["error"] = repr(ex)[:200]
    hist["behaviour"] = beh
    # alpha-invariance of the real scope analysis itself (model-free): result of the renamed
    # module = renamed result
    alpha = 0
    al, am = [], []
    for p in progs[: ctx.scale(150, 2000)]:
        names = scopegen.local_names(p)
        if not names:
            continue
        old = rng.pick(names)
        new = "z" + old + "q"
        al += ["ssa " + hexs(scopegen.render(p)["Main"]), "ssa " + hexs(scopegen.render(scopegen.rename_name(p, old, new))["Main"])]
        am.append((p, old, new))
    ao = run_impl(al)
    for k, (p, old, new) in enumerate(am):
        a, b = ao[2 * k], ao[2 * k + 1]
        if "=> " not in a or "=> " not in b:
            continue
        alpha += 1
        ra = re.sub(r"\b%s\b" % re.escape(old), new, a.split("=> ", 1)[1])
        rb = b.split("=> ", 1)[1]
        canon = lambda s: [sorted(x.split(",")) for x in re.findall(r"\[([^\]]*)\]", s)]
        # S[..]/C[..] entries are sorted by name inside, so compare as multisets of name=loc
        canon2 = lambda s: [sorted((ent.split(":")[0], tuple(sorted(ent.split(":")[-1].split("+")))) for ent in x.split(","))
                            for x in re.findall(r"\[([^\]]*)\]", s)]
        if canon2(ra) != canon2(rb):
            ctx.violation("perform_ssa_analysis_on_module is not invariant under consistent renaming of a local variable",
                          {"original": scopegen.render(p)["Main"], "old": old, "new": new, "result_original": a.split("=> ", 1)[1], "result_renamed": rb})
            break
    hist["alpha_invariance_checked_on_impl"] = alpha
    forms = {}
    for p in progs:
        for f in p["forms"]:
            forms[f] = forms.get(f, 0) + 1
    hist["binding_forms"] = forms
    ctx.cov.update({
        "evaluations": len(ssa_res) + len(sig_res) + len(cls_res) + len(verdicts) + len(verdicts2) + beh["compared"],
        "distinct_nontrivial": len(set(t for t, a, _ in ssa_res if re.search(r"M\[\d", a))),
        "rule": "ssa: distinct modules (repo tests/*.sam, generated typed programs with every binding form, ill-scoped identifier-swap mutants) whose analysis resolved at least one use; sig: modules with random duplicate class/member/variant names; metamorphic: generated accepted+rejected programs (generic callees with inferred type arguments taking multi-parameter lambdas, method references, nested generic calls, tuples, generic methods) x rewrites {rename-local, reorder, paren x2, wrap (block) x2, annotate-one per site (lambda parameter / let / type-argument list), annotate-subset, annotate-all (accepted only), split-modules}; behaviour: wasm output under Node 22",
        "samples": samples, "traces_validated_against_impl": len(ssa_res) + len(sig_res) + len(cls_res),
        "histograms": hist, "part_b_parentheses": partb,
        "partial": ["toplevel_order_invariant / toplevel_block_context: every class body resolves identically in any order of the toplevels; the order in which per-class results are appended to the result tables is not covered",
                    "block_wrap_resolution: side condition = the wrapped tree binds nothing at its own top level; proved for every expression-like tree (block_wrap_expr)",
                    "hint kernel (Props/C13Hint.lean): classification + Phase 0 decision only; what a hint is and how it is solved (Phase 1) is not modelled",
                    "signature_perm_invariant requires pairwise distinct names; with duplicates the last declaration wins (signature_dup_order_counterexample) — exactly the case in which the checker reports a name collision"],
        "pending": ["annotation / explicit-type-argument / module-splitting / block-wrapping rewrites go through the inference engine and are covered by the metamorphic oracle only (each annotation site individually, in random subsets, and all at once)"]})
    ctx.assumptions += ["locations of distinct syntax nodes are distinct (the harness numbers Locations)",
                        "annotate rewrite is applied to accepted programs only (inferred types are known by construction: int)"]
    return ctx.finish(res, trusted=common.TRUSTED_COMMON + [
        "hand-written models Model/Scope.lean (ssa_analysis.rs) and Model/ScopeSig.lean (build_module_signature), HashMaps as association lists",
        "harness/src/scopedump.rs (AST -> rose tree dump; structure only, no scoping decisions)",
        "program generator vlib/scopegen.py (coverage, not soundness); Node >= 22 for the behaviour leg",
        "not modelled: the type inference engine (main_checker.rs, type_system.rs, typing_context.rs) — reached only by the metamorphic oracle"])


def replay(ctx, path):
    common.build_harness(PROP); common.build_lean(["drv-c13"])
    data = json.load(open(path))
    r = data["replay"]
    if r.get("protocol") == "cls":
        res, other = correspond("cls", [r["expression"]])
        for t, a, m in res:
            print("impl :", a); print("model:", m)
            return 1 if a != m else 0
        print(other); return 1
    if "protocol" in r and "module" in r:
        res, other = correspond(r["protocol"], [r["module"]])
        for t, a, m in res:
            print("impl :", a); print("model:", m)
            return 1 if a != m else 0
        print(other); return 1
    if "original" in r and "rewritten" in r and isinstance(r["original"], dict):
        out = run_impl(["check " + hexs(json.dumps(r["original"])), "check " + hexs(json.dumps(r["rewritten"]))])
        print("original :", out[0]); print("rewritten:", out[1])
        return 1 if out[0].split(" ")[:2] != out[1].split(" ")[:2] else 0
    print(json.dumps(data, indent=1)); return 1
