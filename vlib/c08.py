"""C08 — formatting never changes the program.
Proof: lean/SamVerif/Props/C08.lean over Model/Fmt.lean (printer parenthesisation vs the parser's
precedence climbing; string / int literal printing vs lexing).
Tie: `fmt-expr` correspondence (real parser + real printer + re-parse vs parseE / printE / RT, line by
line), including the exhaustive enumeration of all 14x14 operator pairs in both nestings (every entry of
the printer's precedence table and of the parser's level order is exercised on the real code each run).
Oracle (model-free): parse(format(m)) has no syntax errors and the same location/comment-free tree as
parse(m), for generated expressions, generated modules, the repo's own .sam files and operator-swap
mutants of them, at several line widths."""
import json, os, re, glob, shutil, subprocess
from . import common
from . import listfamily
from .common import hexs

OPS = ["*", "/", "%", "+", "-", "::", "<", "<=", ">", ">=", "==", "!=", "&&", "||"]
# independent (python) copy of the two tables; used only to *classify* failures into known findings
PPREC = {"*": 0, "/": 0, "%": 0, "+": 1, "-": 1, "::": 1, "<": 2, "<=": 2, ">": 2, ">=": 2, "==": 2, "!=": 2, "&&": 3, "||": 4}
PLEVEL = {"||": 0, "&&": 1, "<": 2, "<=": 2, ">": 2, ">=": 2, "==": 2, "!=": 2, "+": 3, "-": 3, "::": 3, "*": 4, "/": 4, "%": 4}
ASSOC = {"+", "*", "&&", "||"}
WIDTHS = [20, 40, 80, 100, 200]
TOKRE = re.compile(r"\d+|[A-Za-z][A-Za-z0-9]*|->|::|<=|>=|==|!=|&&|\|\||[()+\-*/%<>!{},._|:=;]")


# ---------------------------------------------------------------- trees (python side)
def sexp(s):
    """parse the dump format of harness/driver into nested lists / atoms"""
    toks = s.replace("(", " ( ").replace(")", " ) ").split()
    pos = 0

    def rd():
        nonlocal pos
        t = toks[pos]; pos += 1
        if t == "(":
            out = []
            while toks[pos] != ")":
                out.append(rd())
            pos += 1
            return out
        return t
    out = rd()
    return out


def prec(t):
    if isinstance(t, str):
        return 0
    h = t[0] if t and isinstance(t[0], str) else ""
    if h in OPS and len(t) == 3:
        return 4 + PPREC[h]
    if h in ("!", "neg"):
        return 2
    if h in (".", ".m", "call", "block"):
        return 1
    if h == "if":
        return 10
    if h == "match":
        return 11
    if h == "lambda":
        return 12
    return 0   # s, tuple


def lvl(t):
    if not isinstance(t, str) and t and t[0] in OPS and len(t) == 3:
        return PLEVEL[t[0]]
    if not isinstance(t, str) and t and t[0] in ("!", "neg"):
        return 5
    if head(t) in ("if", "match", "lambda"):
        return -1          # never an operand without parentheses
    return 6


def parens(h, l, r):
    """(left operand parenthesised?, right operand parenthesised?, shortcut taken?) by the printer"""
    p = 4 + PPREC[h]
    shortcut_ok = (h in ASSOC and not isinstance(r, str) and len(r) == 3 and r[0] == h and prec(r[1]) != p)
    if h == "<" and ends_member(l):
        return True, prec(r) >= p, False
    if prec(l) == p:
        return False, prec(r) >= p, False
    if prec(r) == p and shortcut_ok:
        return prec(l) >= p, False, True
    return prec(l) >= p, prec(r) >= p, False


def ends_member(t):
    """the printer's own test `ends_with_member_name` (over-approximates for binary expressions)"""
    h = t[0] if not isinstance(t, str) and t and isinstance(t[0], str) else ""
    if h == ".":
        return len(t) == 3        # no explicit type arguments
    if h in ("!", "neg"):
        return prec(t[1]) < 2 and ends_member(t[1])
    if h in OPS and len(t) == 3:
        return ends_member(t[2])
    if h == "lambda":
        return ends_member(t[2])
    return False


def ends_field(t):
    """does the printed form end with a member name (without explicit type arguments)?"""
    h = t[0] if not isinstance(t, str) and t and isinstance(t[0], str) else ""
    if h == ".":
        return len(t) == 3
    if h in ("!", "neg"):
        return prec(t[1]) < 2 and ends_field(t[1])
    if h in OPS and len(t) == 3:
        return not parens(h, t[1], t[2])[1] and ends_field(t[2])
    if h == "lambda":
        return ends_field(t[2])
    return False


def regroup_py(t):
    """what a formatter with exactly the open finding C08-F5 reads back: `x op (y op z)` printed through
    the shortcut becomes `(x op y) op z` (python mirror of the model's `regroup`, used only to decide
    whether a failure is *nothing but* the known regrouping)"""
    if isinstance(t, str):
        return t
    h = t[0] if t and isinstance(t[0], str) else ""
    if h in OPS and len(t) == 3:
        if parens(h, t[1], t[2])[2]:
            return graft_py(h, regroup_py(t[1]), t[2])
        return [h, regroup_py(t[1]), regroup_py(t[2])]
    return [regroup_py(c) for c in t]


def graft_py(o, acc, r):
    if not isinstance(r, str) and len(r) == 3 and r[0] == o and parens(o, r[1], r[2])[2]:
        return graft_py(o, [o, acc, regroup_py(r[1])], r[2])
    if not isinstance(r, str) and len(r) == 3 and r[0] == o:
        return [o, [o, acc, regroup_py(r[1])], regroup_py(r[2])]
    return [o, acc, regroup_py(r)]


def bad_nodes(t, out=None):
    """nodes at which the printer drops parentheses the parser needs (python re-statement of the
    side condition, used only for known-finding classification). Returns list of finding ids."""
    if out is None:
        out = []
    if isinstance(t, str):
        return out
    h = t[0] if t and isinstance(t[0], str) else ""
    if h == "s" and len(t) == 2 and isinstance(t[1], str):
        return out          # C08-F2 is fixed: no string literal is excused any more
    if h in ("!", "neg") and len(t) == 2:
        a = t[1]
        if prec(a) < 2 and lvl(a) < 6:      # bare operand must be a base/postfix expression
            out.append("C08-F3")
    elif h in (".", "call") and len(t) >= 2:
        if prec(t[1]) <= 1 and lvl(t[1]) < 6:
            out.append("C08-chain-base")
    elif h in OPS and len(t) == 3:
        l, r = t[1], t[2]
        lpar, rpar, shortcut = parens(h, l, r)
        if not lpar and lvl(l) < PLEVEL[h]:
            out.append("C08-F4")
        if not rpar and lvl(r) <= PLEVEL[h]:
            out.append("C08-F5" if shortcut else "C08-F1")
        if h == "<" and not lpar and ends_field(l):
            out.append("C08-F6")
    for c in t[1:] if h else t:
        bad_nodes(c, out)
    return out


# ---------------------------------------------------------------- generators
IDS = ["a", "b", "c", "x", "y", "foo", "bar1", "this", "true", "false", "Abc"]


def gen_atom(rng):
    k = rng.below(10)
    if k < 6:
        return rng.pick(IDS)
    if k < 9:
        return str(rng.pick([0, 1, 2, 7, 42, 100, 2147483647, rng.below(100000)]))
    return "-2147483648"


NAMES = ["foo", "bar", "b", "len"]


def simple_word(rng):
    return rng.pick(["a", "b", "x", "y", "1", "42", "this", "true"])


PATS = [["pvariant", "A", ["ptuple", ["pid", "v"]]], ["pvariant", "B", ["ptuple", "_"]], ["pvariant", "C"], "_"]


def gen_pat_tree(rng, depth):
    """pattern in the harness' dump form"""
    def single(d):
        k = rng.below(8) if d > 0 else rng.below(3)
        if k == 0:
            return ["pid", rng.pick(["v", "w", "xs"])]
        if k == 1:
            return "_"
        if k == 2:
            return ["pvariant", rng.pick(["A", "Some", "None"])]
        if k in (3, 4):
            return ["pvariant", rng.pick(["A", "Some", "Pair"]), ["ptuple"] + [alts(d - 1) for _ in range(rng.range(1, 2))]]
        if k in (5, 6):
            return ["ptuple"] + [alts(d - 1) for _ in range(rng.range(1, 3))]
        fs = []
        for _ in range(rng.range(1, 2)):
            f = rng.pick(["f", "g"])
            fs.append([f, "short", ["pid", f]] if rng.chance(1, 2) else [f, "as", alts(d - 1)])
        return ["pobj"] + fs
    def alts(d):
        if rng.chance(4, 5):
            return single(d)
        return ["por"] + [single(d) for _ in range(rng.range(2, 3))]
    return alts(depth)


def gen_case_pat(rng):
    """a match-case pattern whose alternatives start with a tag, `_` or `{` (what the driver's lexer
    can tell from a lambda parameter list); nested patterns are arbitrary"""
    def top():
        k = rng.below(5)
        if k == 0:
            return "_"
        if k == 1:
            return ["pvariant", rng.pick(["A", "None", "C"])]
        if k in (2, 3):
            return ["pvariant", rng.pick(["A", "Some", "Pair"]), ["ptuple"] + [gen_pat_tree(rng, rng.below(2)) for _ in range(rng.range(1, 2))]]
        return ["pobj", ["f", "short", ["pid", "f"]]] + ([["g", "as", gen_pat_tree(rng, 1)]] if rng.chance(1, 2) else [])
    if rng.chance(4, 5):
        return top()
    return ["por"] + [top() for _ in range(rng.range(2, 3))]


def gen_block(rng, depth, ext):
    sub = lambda: gen_tree(rng, depth - 1, ext)
    t = ["block"]
    for _ in range(rng.below(3)):
        if rng.chance(1, 2):
            st = ["let", gen_pat_tree(rng, rng.below(2))]
            if rng.chance(1, 3):
                st += [":", rng.pick(["int", "bool", ["tid", "Foo"]])]
            t.append(st + [sub()])
        else:
            t.append(["stmt", sub()])
    if rng.chance(5, 6):
        t.append(["final", sub()])
    return t


def gen_tree(rng, depth, ext=False):
    """random expression tree; ext=True also uses member accesses (with and without type arguments),
    calls, tuples, blocks, if-else, match and lambdas with full sub-expressions in every position"""
    sub = lambda: gen_tree(rng, depth - 1, ext)
    if depth <= 0 or rng.chance(1, 5):
        return gen_atom(rng)
    if ext and rng.chance(2, 5):
        k = rng.below(8)
        if k == 0:
            return [".", sub(), rng.pick(NAMES)] + ([["targs", rng.pick(["int", ["tid", "Foo"]])]] if rng.chance(1, 4) else [])
        if k == 1:
            return ["call", sub()] + [sub() for _ in range(rng.below(4))]
        if k == 2:
            return ["lambda", ["params"] + [[x] for x in ["p", "q"][:rng.below(3)]], sub()]
        if k == 3:
            return ["tuple"] + [sub() for _ in range(rng.range(2, 3))]
        if k == 4:
            return gen_block(rng, depth, ext)
        if k == 5:
            return ["if", sub(), gen_block(rng, depth, ext), gen_block(rng, depth, ext)]
        if k == 6:
            n = rng.range(1, 3)
            return ["match", sub()] + [["case", gen_case_pat(rng), sub()] for i in range(n)]
        return [".", ["call", sub()], rng.pick(NAMES)]
    if rng.chance(1, 6):
        return [rng.pick(["!", "neg"]), sub()]
    return [rng.pick(OPS), sub(), sub()]


def head(t):
    return t[0] if not isinstance(t, str) and t and isinstance(t[0], str) else ""


EXT_HEADS = (".", "call", "lambda", "if", "match", "block", "tuple")


def is_ext(t):
    if isinstance(t, str):
        return False
    return head(t) in EXT_HEADS or any(is_ext(k) for k in get_kids(t))


def kid_paths(t):
    """paths (index tuples) of the expression children of a node"""
    h = head(t)
    if h in OPS and len(t) == 3:
        return [(1,), (2,)]
    if h in ("!", "neg", "."):
        return [(1,)]
    if h in ("call", "tuple"):
        return [(i,) for i in range(1, len(t))]
    if h == "lambda":
        return [(2,)]
    if h == "block":
        return block_paths(t)
    if h == "if":
        return [(1,)] + [(2,) + p for p in block_paths(t[2])] + [(3,) + p for p in block_paths(t[3])]
    if h == "match":
        return [(1,)] + [(i, 2) for i in range(2, len(t))]
    return []


def block_paths(b):
    return [(i, len(st) - 1) for i, st in enumerate(b[1:], 1)]


def get_path(t, path):
    for i in path:
        t = t[i]
    return t


def set_path(t, path, new):
    if not path:
        return new
    t = list(t)
    t[path[0]] = set_path(t[path[0]], path[1:], new)
    return t


def get_kids(t):
    return [get_path(t, p) for p in kid_paths(t)]


def render_pat(p):
    if p == "_":
        return "_"
    h = p[0]
    if h == "pid":
        return p[1]
    if h == "pvariant":
        return p[1] + ("(" + ", ".join(render_pat(x) for x in p[2][1:]) + ")" if len(p) == 3 else "")
    if h == "ptuple":
        return "(" + ", ".join(render_pat(x) for x in p[1:]) + ")"
    if h == "pobj":
        return "{ " + ", ".join(f[0] if f[1] == "short" else f"{f[0]} as {render_pat(f[2])}" for f in p[1:]) + " }"
    if h == "por":
        return " | ".join(render_pat(x) for x in p[1:])
    raise ValueError("cannot render pattern " + str(p))


def render_block(b, inner):
    parts = []
    for st in b[1:]:
        if st[0] == "let":
            ty = f": {render_type(st[3])} " if len(st) == 5 else ""
            parts.append(f"let {render_pat(st[1])}{' ' if not ty else ''}{ty}= {inner(st[-1])};")
        elif st[0] == "stmt":
            parts.append(inner(st[1]) + ";")
        else:
            parts.append(inner(st[1]))
    return "{ " + " ".join(parts) + " }"


def render_type(t):
    return t if isinstance(t, str) else t[1]


def render_any(t, rng, operand, inner):
    """shared renderer: `operand(x)` renders a sub-expression in operand position, `inner(x)` one in a
    delimited position (argument, element, branch, body)"""
    h = head(t)
    if isinstance(t, str):
        return t
    if h in ("!", "neg"):
        return ("!" if h == "!" else "-") + ("" if rng and rng.chance(1, 2) else " ") + operand(t[1], "unary")
    if h in OPS and len(t) == 3:
        return operand(t[1], ("l", h)) + " " + h + " " + operand(t[2], ("r", h))
    if h == ".":
        return operand(t[1], "post") + "." + t[2] + (f"<{render_type(t[3][1])}>" if len(t) == 4 else "")
    if h == "call":
        return operand(t[1], "post") + "(" + ", ".join(inner(a) for a in t[2:]) + ")"
    if h == "tuple":
        return "(" + ", ".join(inner(a) for a in t[1:]) + ")"
    if h == "lambda":
        return "(" + ", ".join(p[0] for p in t[1][1:]) + ") -> " + inner(t[2])
    if h == "block":
        return render_block(t, inner)
    if h == "if":
        return f"if {inner(t[1])} {render_block(t[2], inner)} else {render_block(t[3], inner)}"
    if h == "match":
        return f"match {inner(t[1])} {{ " + ", ".join(f"{render_pat(c[1])} -> {inner(c[2])}" for c in t[2:]) + " }"
    raise ValueError("cannot render " + str(t))


def render(t, rng=None):
    """source text with explicit parentheses forcing exactly this tree (plus random redundant ones)"""
    s = render_any(t, rng, lambda x, _: wrap(x, rng), lambda x: render(x, rng))
    if rng and rng.chance(1, 12) and not isinstance(t, str):
        s = "(" + s + ")"
    return s


def wrap(t, rng):
    if (isinstance(t, str) or head(t) in ("block", "tuple")) and not (rng and rng.chance(1, 10)):
        return render(t, rng)
    return "(" + render(t, rng) + ")"


def min_level(t):
    h = head(t)
    if isinstance(t, str) or h in (".", "call", "tuple", "block"):
        return 6
    if h in ("!", "neg"):
        return 5
    if h in OPS and len(t) == 3:
        return PLEVEL[h]
    return -1


def render_min(t, k=-1):
    """parser-minimal rendering (own precedence climbing: python side), exercising the real parser's
    level structure rather than explicit parentheses; k = -1 is `parse_expression`"""
    def operand(x, pos):
        if pos == "unary" or pos == "post":
            return render_min(x, 6)
        side, h = pos
        j = PLEVEL[h]
        s = render_min(x, j if side == "l" else j + 1)
        if side == "l" and h == "<" and re.search(r"\.\s*[A-Za-z][A-Za-z0-9]*$", s):
            s = "(" + s + ")"      # `a.b < c` is not a comparison for the parser (C08-F6)
        return s
    s = render_any(t, None, operand, lambda x: render_min(x, -1))
    return s if min_level(t) >= k else "(" + s + ")"


def dump(t):
    if isinstance(t, str):
        return t
    return "(" + " ".join(dump(x) if not isinstance(x, str) else x for x in t) + ")"


def gen_pattern(rng, depth, top=True):
    """random pattern text: ids, `_`, variants with/without data, tuples, object patterns, or-patterns"""
    def single(d):
        k = rng.below(9) if d > 0 else rng.below(4)
        if k == 0:
            return rng.pick(["a", "b", "xs", "v1"])
        if k == 1:
            return "_"
        if k in (2, 3):
            return rng.pick(["A", "Some", "None", "Foo1"])
        if k in (4, 5):
            return rng.pick(["A", "Some", "Pair"]) + "(" + ", ".join(alts(d - 1) for _ in range(rng.range(1, 3))) + ")"
        if k in (6, 7):
            return "(" + ", ".join(alts(d - 1) for _ in range(rng.range(1, 3))) + (", " if rng.chance(1, 8) else "") + ")"
        fs = []
        for _ in range(rng.range(1, 3)):
            f = rng.pick(["f", "g", "name"])
            fs.append(f if rng.chance(1, 2) else f"{f} as {alts(d - 1)}")
        return "{ " + ", ".join(fs) + " }"
    def alts(d):
        n = 1 if rng.chance(3, 4) else rng.range(2, 3)
        return " | ".join(single(d) for _ in range(n))
    return alts(depth)


def gen_string_token(rng, avoid_escaped_quote=True):
    parts = []
    for _ in range(rng.range(0, 8)):
        k = rng.below(12)
        if k < 6:
            parts.append(rng.pick(["a", "b", "Z", " ", "0", "é", "日", "'", "{", "$", "`", "/", "//", "/*"]))
        elif k < 9:
            parts.append("\\" + rng.pick(["t", "v", "0", "b", "f", "n", "r"]))
        elif k < 11:
            parts.append("\\\\")
        else:
            parts.append("\\\"" if not avoid_escaped_quote else "\\\\\\\\")
    return '"' + "".join(parts) + '"'


def gen_malformed(rng):
    toks = [rng.pick(OPS + ["(", ")", "!", "-", "a", "b", "1", "x"]) for _ in range(rng.range(1, 9))]
    # keep the stream inside the fragment: no atom / `)` directly followed by `(` (that is a call)
    out = []
    for t in toks:
        if t == "(" and out and (out[-1] == ")" or out[-1][0].isalnum()):
            out.append(rng.pick(OPS))
        out.append("SEMI" if t == ";" else t)     # `;` separates the fields of an answer line
    return " ".join(out)


MODULE_TEMPLATES = [
    "class Main {{ function f(a: int, b: int, c: int, x: bool, y: bool): unit = {{ let v = {e0}; let _ = ({e1}, {e2}); {e3} }} }}",
    "import {{ B, A }} from m.N\nimport {{ C }} from m.N\nimport {{ Z }} from a.B\nclass Main(val a: int, val b: Str) {{ method <T> g(x: T, foo: (int) -> int): int = if {e0} {{ foo({e1}) }} else if {e2} {{ {e3} }} else {{ this.a }} }}",
    "class Opt<T>(None, Some(T)) {{ function h(o: Opt<int>, a: int, b: int, c: int): int = match o {{ None -> {e0}, Some(v) -> {{ let w = (q) -> {e1}; w({e2}) + {e3} }} }} }}",
    "interface I {{ method m(): int }}\nprivate class P : I {{ method m(): int = {e0} function s(): Str = {s0} :: Str.fromInt({e1}) function t(): bool = ({e2}).foo({e3}, {s0}) }}",
]


def gen_module(rng, steer):
    def ge():
        if rng.chance(1, 6):
            t = rng.pick(shape_family())
            if steer and bad_nodes(t):
                t = gen_atom(rng)
            return render(t, rng) if rng.chance(1, 2) else render_min(t)
        for _ in range(6):
            t = gen_tree(rng, rng.range(1, 3), ext=rng.chance(1, 2))
            if not steer or not bad_nodes(t):
                break
        return render(t, rng) if rng.chance(1, 2) else render_min(t)
    d = {f"e{i}": ge() for i in range(4)}
    d["s0"] = gen_string_token(rng)
    return rng.pick(MODULE_TEMPLATES).format(**d)


OPSWAP = re.compile(r" (\+|-|\*|/|%|::|<|<=|>|>=|==|!=|&&|\|\|) ")


def mutate_ops(rng, text, n):
    """swap n binary operator tokens of a source file for other operators (keeps it syntactically
    valid unless the spot was inside a type/pattern, which the harness answers with `perr`)."""
    spots = [m for m in OPSWAP.finditer(text)]
    if not spots:
        return text
    for m in sorted(rng.shuffle(spots)[:n], key=lambda m: -m.start()):
        text = text[:m.start(1)] + rng.pick(OPS) + text[m.end(1):]
    return text


# ---------------------------------------------------------------- running
def norm_tokens(text):
    """token sequence of a printed expression; the trailing comma the layout engine adds in expanded
    argument / element lists is dropped (C09 territory)"""
    toks = TOKRE.findall(text)
    out = []
    for i, t in enumerate(toks):
        if t == "," and i + 1 < len(toks) and toks[i + 1] == ")":
            continue
        out.append("SEMI" if t == ";" else t)     # `;` separates the fields of an answer line
    return " ".join(out)


def canon_impl(line):
    """canonicalise the harness answer of an E/S line to `T0;tokens-or-text;T1`"""
    if line == "perr" or ";" not in line:
        return line
    t0, h, t1 = line.split(";")
    text = common.unhex(h).decode("utf-8", "replace")
    if t0.startswith("(s "):
        return f"{t0};{text.strip()};{t1}"
    return f"{t0};{norm_tokens(text)};{t1}"


def canon_model(line):
    if ";rt=" not in line:
        return line
    t0, toks, t1 = line.split(";rt=", 1)[0].split(";")
    if t0.startswith("(s "):
        return f"{t0};{toks};{t1}"
    return f"{t0};{norm_tokens(toks)};{t1}"   # `-2147483648` is one atom in the model, two tokens of text


OUTSIDE = ("(call", "(tuple", "(.", "(lambda", "(block", "(if", "(match", "(s ", "(let", "(stmt")


class Runner:
    def __init__(self, ctx):
        self.ctx = ctx
        self.open_ids = {f["id"]: f for f in ctx.open_findings}
        self.reported = set()
        self.stats = {"expr_lines": 0, "expr_roundtrip_ok": 0, "expr_known_failures": 0, "perr_both": 0,
                      "outside_fragment": 0, "rt_agrees_with_impl": 0, 
                      "module_ok": 0, "module_perr": 0, "module_known_failures": 0, "str_lines": 0, "pat_lines": 0}
        self.trees = set()
        self.nontrivial = 0
        self.hist = {}
        self.searched = False

    def violation(self, what, payload, key, no_input=False, budget=None):
        if key in self.reported:
            return
        self.reported.add(key)
        if budget:
            # own small budget (a broken obligation of the document leg must not be crowded out by the
            # failures the same fault causes in the earlier legs)
            setattr(self, budget, getattr(self, budget, 0) + 1)
            if getattr(self, budget) > 2:
                self.stats["further_failures_not_reported"] = self.stats.get("further_failures_not_reported", 0) + 1
                return
            self.ctx.violation(what, payload, no_input=no_input)
            return
        # enough replays; the rest is counted only (separate budgets, so that tie disagreements without
        # an input never crowd out concrete failing inputs)
        kind = "n_noinput" if no_input else "n_concrete"
        setattr(self, kind, getattr(self, kind, 0) + 1)
        if getattr(self, kind) > (3 if no_input else 6):
            self.stats["further_failures_not_reported"] = self.stats.get("further_failures_not_reported", 0) + 1
            return
        self.ctx.violation(what, payload, no_input=no_input)

    def classify(self, t0_text, t1_text=None):
        """(known?, ids) for a failing input with original tree dump t0_text and re-parsed dump t1_text:
        known only if every deviating node belongs to an open finding AND the re-parsed tree is exactly
        what those findings predict (for C08-F5: the regrouped tree) - a syntax error or any other tree
        next to a known node is a new failure."""
        try:
            t0 = sexp(t0_text)
            ids = set(bad_nodes(t0))
        except Exception:
            return False, set()
        if not ids or not all(i in self.open_ids for i in ids):
            return False, ids
        if ids != {"C08-F5"} or t1_text is None:
            return (t1_text is None and ids != {"C08-F5"}), ids
        try:
            return dump(regroup_py(t0)) == dump(sexp(t1_text)), ids
        except Exception:
            return False, ids

    def expr_batch(self, lines, label, model=True):
        """E/S lines through implementation (+ model); oracle + correspondence."""
        if not lines:
            return
        if model:
            impl, mod = common.run_pair("C08", lines)
        else:
            _, impl, _ = common.run_exec(common.harness_bin("C08"), [], lines)
            mod = [None] * len(lines)
        for i, l in enumerate(lines):
            a = impl[i] if i < len(impl) else "<missing>"
            m = mod[i] if i < len(mod) else "<missing>"
            src = common.unhex(l.split(" ")[2]).decode()
            self.stats["str_lines" if l.startswith("S") else "pat_lines" if l.startswith("P") else "expr_lines"] += 1
            payload = {"protocol": "fmt-expr", "label": label, "op": l, "source": src, "impl": a, "model": m}
            if a.startswith("panic:") or a.startswith("<") or a.startswith("bad-op"):
                self.violation("formatter/parser panicked or harness failed on this expression: " + a[:80], payload, ("x", l))
                continue
            ca = canon_impl(a)
            # ---- direct oracle on the implementation (no model involved)
            if ca != "perr":
                t0, toks, t1 = ca.split(";")
                if t0 not in self.trees:
                    self.trees.add(t0)
                    if t0.count("(") >= 2:
                        self.nontrivial += 1
                    if len(self.ctx.cov["samples"]) < 4 and t0.count("(") >= 3:
                        self.ctx.cov["samples"].append({"source": src, "tree": t0, "printed": toks, "reparsed": t1})
                for o in OPS:
                    if f"({o} " in t0:
                        self.hist[o] = self.hist.get(o, 0) + 1
                if t0 == t1:
                    self.stats["expr_roundtrip_ok"] += 1
                else:
                    known, ids = self.classify(t0, None if t1 == "rerr" else t1)
                    if known:
                        self.stats["expr_known_failures"] += 1
                    else:
                        small = self.shrink_expr(l, t0)
                        payload["shrunk"] = small
                        payload["cause_ids"] = sorted(ids)
                        self.violation(f"formatting changes the program: `{small['source']}` is printed `{small['printed']}`, re-parsed as {small['reparsed']} (was {small['tree']})", payload, ("o", small["source"]))
            else:
                self.stats["perr_both"] += 1 if (m in (None, "perr")) else 0
            # ---- correspondence model vs implementation
            if m is None:
                continue
            cm = canon_model(m)
            if cm == "perr" and ca != "perr" and any(x in ca.split(";")[0] for x in OUTSIDE) and not l.startswith("S"):
                self.stats["outside_fragment"] += 1     # a shape the driver's lexer does not group (e.g. nested call arguments)
                continue
            if l.startswith("S") and ca != "perr" and cm.endswith(";rerr") and ca.split(";")[0] != ca.split(";")[2]:
                # the model only says "the printed literal is no longer one string token"; what the real
                # parser makes of the remaining characters (`//` comment, `/` division, …) is outside it
                ca = ";".join(ca.split(";")[:2] + ["rerr"])
            if ca != cm:
                payload["broken"] = "correspondence `fmt-expr` (Model/Fmt.lean vs samlang-parser/samlang-printer): the theorems of Props/C08.lean no longer speak about this code"
                payload["impl_canonical"], payload["model_canonical"] = ca, cm
                no_input = (ca == "perr" or ca.split(";")[0] == ca.split(";")[2])
                if no_input and l.startswith("E") and ca != "perr" and not self.searched:
                    # the tie is broken here but this line itself still round-trips: look for a source text
                    # on which the real formatter breaks the property (model-free oracle on neighbours)
                    self.searched = True
                    payload["search"] = self.search_near(ca.split(";")[0], label)
                self.violation("model/implementation disagreement on protocol fmt-expr for `%s`: impl %s, model %s" % (src, ca, cm),
                               payload, ("d", l), no_input=no_input)
                continue
            if ca != "perr":
                rt = ";rt=1" in m
                ok = ca.split(";")[0] == ca.split(";")[2]
                v2 = m.split(";v2=", 1)[1] if ";v2=" in m else "skip"
                self.stats["legacy_model_" + ("skipped" if v2 == "skip" else "agrees" if v2 == "ok" else "differs")] = \
                    self.stats.get("legacy_model_" + ("skipped" if v2 == "skip" else "agrees" if v2 == "ok" else "differs"), 0) + 1
                if v2 not in ("ok", "skip"):
                    payload["broken"] = "the legacy model Model/Fmt.lean (used by C09b/C13b) no longer agrees with Model/FmtFull.lean on this line"
                    payload["legacy_answer"] = v2
                    self.violation("legacy C08 model differs from the full model", payload, ("v2", l), no_input=True)
                if ";rg=" in m and ";rg=ok" not in m:
                    payload["broken"] = "theorem roundtrip_expr_total (parseE (printE e) = some (regroup e)) contradicted by the model's own execution"
                    self.violation("the model's parse of its printed tokens differs from regroup e", payload, ("g", l), no_input=True)
                elif rt == ok:
                    self.stats["rt_agrees_with_impl"] += 1      # real round trip exact  <->  regroup e = e
                else:
                    payload["broken"] = "regroup e = e does not coincide with the real round trip"
                    self.violation("`regroup e = e` and the real formatter's round trip disagree", payload, ("r", l), no_input=ok)

    def search_near(self, t0_text, label):
        """targeted search after a tie disagreement: the shape families plus structural neighbours of
        the disagreeing tree (sub-trees re-wrapped as operands of associative chains, comparisons, member
        accesses, unary operators), through the model-free round-trip oracle of the real code."""
        try:
            tree = sexp(t0_text)
        except Exception:
            tree = "a"
        cands = list(shape_family())
        seen = set()
        def subs(t):
            yield t
            for k in get_kids(t):
                yield from subs(k)
        pieces = []
        for x in subs(tree):
            d = dump(x)
            if d not in seen and len(pieces) < 25:
                seen.add(d); pieces.append(x)
        for x in pieces:
            for y in ([".", x, "d"], x):
                for o in ("+", "*", "&&", "||", "-", "::"):
                    cands += [[c, [o, "a", [o, "b", y]], "e"] for c in ("<", "<=", "==")]
                    cands += [[c, "e", [o, "a", [o, "b", y]]] for c in ("<", "==")]
                    cands += [[o, "a", [o, "b", y]], [o, [o, y, "b"], "a"]]
                cands += [["<", y, "e"], ["<", ["neg", y], "e"], ["!", y], ["neg", y], ["call", y, "a"], ["lambda", ["params"], ["<", y, "e"]]]
        n0 = len(self.ctx.violations)
        lines = []
        for t in cands[:1500]:
            try:
                lines.append(f"E 200 {hexs(render(t))}")
            except Exception:
                pass
        for i in range(0, len(lines), 500):
            self.expr_batch(lines[i:i + 500], label + " / search near a tie disagreement", model=False)
        return {"candidates": len(lines), "concrete_failures_reported": len(self.ctx.violations) - n0}

    def shrink_expr(self, line, t0):
        """structural shrinking of a failing E input: replace the tree by sub-trees while the
        implementation still fails on it with no known cause."""
        def run1(src):
            _, out, _ = common.run_exec(common.harness_bin("C08"), [], [f"E 100 {hexs(src)}"])
            return canon_impl(out[0]) if out else "perr"

        def fails(tree):
            ca = run1(render(tree))
            if ca == "perr" or ";" not in ca:
                return None
            a0, toks, a1 = ca.split(";")
            return (a0, toks, a1) if a0 != a1 and not self.classify(a0, None if a1 == "rerr" else a1)[0] else None
        best = None
        try:
            tree = sexp(t0)
            if line[0] in "SP":
                raise ValueError
            cur = fails(tree)
            changed = cur is not None
            while changed:
                changed = False
                for cand in subtrees(tree):
                    r = fails(cand)
                    if r:
                        tree, cur, changed = cand, r, True
                        break
            if cur:
                best = {"source": render(tree), "tree": cur[0], "printed": cur[1], "reparsed": cur[2]}
        except Exception:
            pass
        if best is None:
            ca = canon_impl(common.run_exec(common.harness_bin("C08"), [], [line])[1][0]).split(";")
            best = {"source": common.unhex(line.split(" ")[2]).decode(), "tree": ca[0], "printed": ca[1], "reparsed": ca[2]}
        return best

    def module_batch(self, items, label):
        """items: (name, width, text). Model-free reparse oracle on whole modules."""
        lines = [f"M {w} {hexs(t)}" for _, w, t in items]
        if not lines:
            return
        _, out, _ = common.run_exec(common.harness_bin("C08"), [], lines)
        for (name, w, text), a in zip(items, out + ["<missing>"] * (len(lines) - len(out))):
            if a == "perr":
                self.stats["module_perr"] += 1
                continue
            if a.startswith("ok"):
                self.stats["module_ok"] += 1
                continue
            payload = {"protocol": "reparse-oracle", "label": label, "name": name, "width": w, "source": text}
            if a.startswith("rerr:") or a.startswith("diff:"):
                # classification needs the original tree
                _, d, _ = common.run_exec(common.harness_bin("C08"), [], [f"D {hexs(text)}"])
                t1m = common.unhex(a.split(":")[2]).decode("utf-8", "replace") if a.startswith("diff:") else None
                known, ids = self.classify(d[0] if d else "", t1m)
                if known:
                    self.stats["module_known_failures"] += 1
                    continue
                small = self.shrink_module(text, w)
                payload.update(small)
                payload["cause_ids"] = sorted(ids)
                self.violation(f"formatting changes the module ({small['kind']}) at width {w}: {small['detail'][:300]}", payload, ("m", small["source"]))
            else:
                payload["answer"] = a[:400]
                self.violation("formatter/parser panicked on a module: " + (common.unhex(a[6:]).decode("utf-8", "replace")[:200] if a.startswith("panic:") else a[:100]), payload, ("mp", name, w))

    def shrink_module(self, text, w):
        def run1(src):
            _, out, _ = common.run_exec(common.harness_bin("C08"), [], [f"M {w} {hexs(src)}"])
            return out[0] if out else "perr"

        def fails(ls):
            a = run1("\n".join(ls))
            if not (a.startswith("rerr:") or a.startswith("diff:")):
                return False
            _, d, _ = common.run_exec(common.harness_bin("C08"), [], [f"D {hexs(chr(10).join(ls))}"])
            t1m = common.unhex(a.split(":")[2]).decode("utf-8", "replace") if a.startswith("diff:") else None
            return not self.classify(d[0] if d else "", t1m)[0]
        ls = text.split("\n")
        if len(ls) > 1 and fails(ls):
            ls = common.ddmin(ls, fails, max_tests=150)
        src = "\n".join(ls)
        a = run1(src)
        parts = a.split(":")
        if a.startswith("rerr:"):
            msg = common.unhex(parts[1]).decode("utf-8", "replace")
            first = next((x.strip() for x in msg.splitlines() if x.strip() and not x.startswith("Error -")), msg[:80])
            return {"kind": "output has syntax errors", "source": src,
                    "detail": f"`{src[:120]}` -> {first}", "printed": common.unhex(parts[2]).decode("utf-8", "replace"), "errors": msg}
        if a.startswith("diff:"):
            t0, t1 = common.unhex(parts[1]).decode(), common.unhex(parts[2]).decode()
            k = next((i for i in range(min(len(t0), len(t1))) if t0[i] != t1[i]), 0)
            return {"kind": "tree differs", "source": src, "detail": f"original …{t0[max(0,k-60):k+80]}… vs re-parsed …{t1[max(0,k-60):k+80]}…",
                    "printed": common.unhex(parts[3]).decode("utf-8", "replace")}
        return {"kind": "?", "source": src, "detail": a[:200]}


def subtrees(t):
    """candidate smaller trees: expression children, and the tree with one child shrunk / replaced by an atom"""
    if isinstance(t, str):
        return
    for k in get_kids(t):
        if not isinstance(k, str):
            yield k
    for p in kid_paths(t):
        k = get_path(t, p)
        if not isinstance(k, str):
            for x in subtrees(k):
                yield set_path(t, p, x)
            yield set_path(t, p, "a")


def shape_family():
    """right-nested same-operator chains (printed without parentheses through the shortcut) whose
    innermost right operand ends in a member access / unary member / call, as left and right operand
    of every comparison operator and under unary operators and member access"""
    tails = [[".", "c", "d"], [".", ["call", "c"], "d"], ["neg", [".", "c", "d"]], ["call", [".", "c", "d"]],
             [".", "c", "d", ["targs", "int"]], "c"]
    out = []
    for o in ("+", "*", "&&", "||"):
        for tl in tails:
            chains = [[o, "a", [o, "b", tl]], [o, "a", [o, "b", [o, "x", tl]]], [o, [o, "a", "b"], [o, "x", tl]],
                      [o, "a", [o, [".", "b", "f"], tl]]]
            for ch in chains:
                for c in ("<", "<=", ">", ">=", "==", "!="):
                    out += [[c, ch, "e"], [c, "e", ch], [c, ch, ["tuple", "f", "g"]]]
                out += [["neg", ch], ["!", ch], [".", ch, "m"], ["call", "f", ch], ["<", ["neg", ch], "e"]]
    return out


def pair_enumeration():
    """every operator pair in both nestings, unary over/under every operator, nested unary"""
    ts = []
    for o1 in OPS:
        for o2 in OPS:
            ts.append([o2, [o1, "a", "b"], "c"])
            ts.append([o1, "a", [o2, "b", "c"]])
        for u in ("!", "neg"):
            ts.append([u, [o1, "a", "b"]])
            ts.append([o1, [u, "a"], [u, "b"]])
    for u in ("!", "neg"):
        for v in ("!", "neg"):
            ts.append([u, [v, "a"]])
    # every precedence class as operand / element of every kind of parent (classes 0/1/2/4-8/10/11/12)
    IF = ["if", "c", ["block", ["final", "a"]], ["block", ["final", "b"]]]
    MATCH = ["match", "x", ["case", PATS[0], "v"], ["case", PATS[1], "2"]]
    LAM = ["lambda", ["params", ["p"]], ["+", "p", "1"]]
    subs = ["a", ["block", ["final", "a"]], ["tuple", "a", "b"], [".", "a", "foo"], [".", "a", "foo", ["targs", "int"]],
            ["call", "a", "b"], ["call", "a"], ["neg", "a"], ["!", "a"], IF, MATCH, LAM] + \
        [[o, "a", "b"] for o in ("*", "+", "::", "<", "&&", "||")]
    for x in subs:
        ts += [[".", x, "foo"], [".", x, "foo", ["targs", ["tid", "Foo"]]], ["call", x, "b", "1"], ["call", x], ["call", "f", x, x],
               ["tuple", x, "b"], ["tuple", "a", x, x], ["block", ["final", x]], ["neg", x], ["!", x],
               ["block", ["let", ["pid", "v"], x], ["stmt", x], ["final", x]], ["block", ["stmt", x]], ["block", ["let", "_", ":", "int", x]],
               ["if", "c", ["block", ["let", ["ptuple", ["pid", "v"], "_"], x], ["final", "v"]], ["block", ["stmt", x]]],
               ["lambda", ["params"], x], ["lambda", ["params", ["p"], ["q"]], x],
               ["if", x, ["block", ["final", x]], ["block", ["final", x]]],
               ["match", x, ["case", PATS[0], x], ["case", "_", x]], ["match", "y", ["case", PATS[2], x]],
               [".", ["call", [".", x, "foo"], "a"], "bar"]]
        for o in ("*", "-", "::", "==", "<", "&&", "||"):
            ts += [[o, x, "c"], [o, "c", x]]
    ts += shape_family()
    ts += [["neg", "5"], ["neg", "-2147483648"], ["-", "1", "-2147483648"], ["-", "a", ["neg", "b"]],
           ["+", ["+", "a", ["+", "b", "c"]], ["*", ["*", "a", "b"], "c"]]]
    return ts


def corpus_files():
    fs = sorted(glob.glob(os.path.join(common.REPO, "tests", "*.sam"))) + sorted(glob.glob(os.path.join(common.REPO, "std", "*.sam")))
    out = []
    for f in fs:
        try:
            out.append((os.path.relpath(f, common.REPO), open(f, encoding="utf-8").read()))
        except OSError:
            pass
    return out


PROBES = {  # one dedicated probe per *open* finding (inline replay inputs of findings/C08.json)
    "C08-F5": ("E", "a + (b + c)"),
}


def run(ctx):
    r = Runner(ctx)
    have_bins = lambda: os.path.exists(common.harness_bin("C08"))

    def search():
        # proof broken: look for a concrete failing input with the model-free oracle
        if not have_bins():
            return False
        n0 = len(ctx.violations)
        r.expr_batch([f"E 100 {hexs(render(t))}" for t in pair_enumeration()], "search: operator pairs", model=False)
        return len(ctx.violations) > n0
    # translator first: Generated/C08Prec.lean (the printer's and the parser's precedence tables, read
    # from the source text) must reflect the current source; Props/C08c.lean states their agreement
    xpath = os.path.join(common.VERIF, "extract", "c08_prec.py")
    rc_x, out_x = common.sh(["python3", xpath])
    res = common.proof_gate(ctx, search)
    tables = "not checked"
    if rc_x != 0:
        ctx.violation("translator extract/c08_prec.py no longer recognises BinaryOperator::precedence / the parser's climbing chain: " + out_x.strip()[-200:],
                      {"broken": "extract/c08_prec.py", "log": out_x[-2000:]}, no_input=True)
        tables = "translator failed"
    else:
        rc_ = common.audit("C08c")
        if rc_["failed"]:
            _, outp = common.sh(["python3", xpath, "--print"])
            try:
                info = json.loads(outp.strip().splitlines()[-1])
            except Exception:
                info = {"disagreements": []}
            wit = info.get("disagreements", [])
            ctx.violation("the formatter's precedence table (samlang-ast source.rs BinaryOperator::precedence) and the parser's climbing levels (source_parser.rs) no longer agree: "
                          + ("; ".join(wit[:3]) if wit else "the extracted tables differ from Model/Fmt.lean's pprec / plevel")
                          + " [theorems of Props/C08c.lean over Generated/C08Prec.lean fail: " + ", ".join(str(n) for n, _ in rc_["failed"][:4]) + "]",
                          {"broken_theorems": [[str(n), str(w)[:300]] for n, w in rc_["failed"]], "extracted": info, "operator_pairs": wit,
                           "broken": "Props/C08c.lean (tables_same_partition / tables_same_order / printer_table_is_source / parser_levels_are_source): the tables of Model/Fmt.lean, over which the round-trip theorems are proved, are not the source's"},
                          no_input=True)
            tables = "FAILED: " + "; ".join(wit[:3])
        else:
            tables = "discharged: " + ", ".join(rc_["discharged"]) + " | " + out_x.strip()
    ctx.cov["precedence_tables"] = tables
    if any(n == "build" for n, _ in res["failed"]) or not have_bins():
        return ctx.finish(res, trusted=common.TRUSTED_COMMON)
    model_ok = os.path.exists(common.driver_bin("C08")) and not any("driver" in w for _, _, w in ctx.violations)
    rng = ctx.rng
    # 1. corpus (regression inputs: one op line per line)
    cdir = os.path.join(common.VERIF, "corpus", "C08")
    for f in sorted(os.listdir(cdir)) if os.path.isdir(cdir) else []:
        lines = [l.rstrip("\n") for l in open(os.path.join(cdir, f)) if l.strip() and not l.startswith("#")]
        r.expr_batch([l for l in lines if l[0] in "ESP"], f"corpus/{f}", model=model_ok)
        r.module_batch([(f, int(l.split(" ")[1]), common.unhex(l.split(" ")[2]).decode()) for l in lines if l[0] == "M"], f"corpus/{f}")
    # 2. exhaustive operator-pair enumeration, explicit and parser-minimal renderings, two widths
    pairs = pair_enumeration()
    # (opaque if/match/call units are compared token by token, so they are printed on one line: width 200)
    r.expr_batch([f"E {w} {hexs(render(t))}" for t in pairs for w in ((200,) if is_ext(t) else (100, 5))] +
                 [f"E 100 {hexs(render_min(t))}" for t in pairs], "operator pairs", model=model_ok)
    # 3. random expressions (bulk steered away from the open findings' signatures), strings, malformed
    n_expr = ctx.scale(12000, 200000)
    lines = []
    for _ in range(n_expr):
        g = rng.fork()
        ext = g.chance(2, 5)
        for _ in range(5):
            t = gen_tree(g, g.range(1, 5), ext)
            if g.chance(1, 5) or not bad_nodes(t):
                break
        k = g.below(3)
        src = render(t, g) if k == 0 else render(t) if k == 1 else render_min(t)
        lines.append(f"E {200 if ext else g.pick(WIDTHS)} {hexs(src)}")
    for _ in range(ctx.scale(2000, 40000)):
        g = rng.fork()
        lines.append(f"S {g.pick(WIDTHS)} {hexs(gen_string_token(g, avoid_escaped_quote=not g.chance(1, 10)))}")
    for _ in range(ctx.scale(1500, 20000)):
        lines.append(f"E 100 {hexs(gen_malformed(rng.fork()))}")
    for _ in range(ctx.scale(2500, 40000)):
        g = rng.fork()
        lines.append(f"P {g.pick(WIDTHS)} {hexs(gen_pattern(g, g.range(0, 3)))}")
    for i in range(0, len(lines), 2000):
        r.expr_batch(lines[i:i + 2000], f"generated seed={ctx.seed}", model=model_ok)
    # 4. model-free reparse oracle on whole modules
    items = []
    files = corpus_files()
    for name, text in files:
        for w in (WIDTHS if not ctx.quick else [rng.pick(WIDTHS), 100]):
            items.append((name, w, text))
    for k in range(ctx.scale(600, 8000)):
        g = rng.fork()
        name, text = g.pick(files) if files else ("-", "")
        items.append((f"{name}#opswap{k}", g.pick(WIDTHS), mutate_ops(g, text, g.range(1, 3))))
    for k in range(ctx.scale(2500, 40000)):
        g = rng.fork()
        items.append((f"generated#{k}", g.pick(WIDTHS), gen_module(g, steer=not g.chance(1, 8))))
    for i in range(0, len(items), 500):
        r.module_batch(items[i:i + 500], f"modules seed={ctx.seed}")
    # 4a. boundary sizes and parser path independence
    size_stats = size_boundary_leg(ctx, r, model_ok)
    list_stats = list_family_leg(ctx, r, model_ok)
    # 4a'. the document of an expression, before the layout engine
    doc_stats = doc_leg(ctx, r, model_ok, rng.fork())
    # 4b. the command-line formatter on a scratch project
    cli_stats = cli_leg(ctx, r, rng.fork())
    # 5. one dedicated probe per open finding
    for fid, (op, src) in PROBES.items():
        f = r.open_ids.get(fid)
        if not f:
            continue
        _, out, _ = common.run_exec(common.harness_bin("C08"), [], [f"{op} 100 {hexs(src)}"])
        ca = canon_impl(out[0]) if out else "perr"
        if ca != "perr" and ";" in ca and ca.split(";")[0] != ca.split(";")[2]:
            ctx.known(f, f"`{src}` is printed `{ca.split(';')[1]}` and re-parsed as {ca.split(';')[2]}")
    # composed statements with C09's models (Props/C08b.lean): audited when they build; another
    # property's file being mid-edit must not fail this check
    composed = "not checked in this run (SamVerif.Props.C08b, which imports Props/C09, does not build)"
    try:
        okb, _ = common.build_lean(["SamVerif.Props.C08b"])
        if okb:
            rb = common.audit("C08b")
            composed = ("discharged: " + ", ".join(rb["discharged"])) if not rb["failed"] else \
                ("FAILED: " + "; ".join(f"{n} ({w})" for n, w in rb["failed"]))
            if rb["failed"]:
                ctx.violation("composed C08xC09 obligations no longer check: " + composed, {"broken_theorems": rb["failed"]}, no_input=True)
    except Exception as ex:   # best effort
        composed += f" [{ex!r}]"
    st = r.stats
    ctx.cov.update({
        "evaluations": st["expr_lines"] + st["str_lines"] + st["module_ok"] + st["module_known_failures"],
        "distinct_nontrivial": r.nontrivial + st["module_ok"],
        "rule": "E/S lines: expression or string-literal source text parsed, printed and re-parsed by the real crates and by the model (all 14x14 operator pairs in both nestings + unary combinations in explicit and parser-minimal rendering; random trees of depth<=5 over 14 binary and 2 unary operators, ids, ints incl. 2147483647 and -2147483648, rendered with explicit, redundant or minimal parentheses; string tokens with every valid escape, multi-byte and comment-like content; malformed token streams); M lines: whole modules (every .sam file of /repo/tests and /repo/std, operator-swap mutants of them, 4 module templates with generated expressions in let / tuple / call / if / match / lambda / method-chain positions) re-parsed after formatting at widths 20..200. non-trivial = distinct original tree with at least two nested operators (E) or a module that parsed and round-tripped (M)",
        "traces_validated_against_impl": st["expr_lines"] + st["str_lines"] if model_ok else 0,
        "operator_histogram": r.hist, "stats": st,
        "partial_theorems": {"roundtrip_expr_noShortcut": "NoShortcut e (no node `x op (y op z)` with op in + * && || printed without parentheses; the only remaining tree deviation, open finding C08-F5 pinned by a golden test) - exact tree equality",
                             "roundtrip_int": "0 <= i < 2^31 or i = -2^31 (all values the parser produces)"},
        "full_strength_theorems": ["roundtrip_expr_total (every expression: parseE (printE e) = some (regroup e))",
                                   "format_preserves_meaning / eval_regroup (every expression, every interpretation: same value/trap and event order)",
                                   "roundtrip_str (every lexed string literal)", "roundtrip_pattern (every pattern)", "paren_insensitive", "parseFuel_stable",
                                   "roundtrip_expr_in_context", "former_witnesses_roundtrip", "member_name_before_lt",
                                   "tables_same_partition / tables_same_order / parser_left_associative / printer_table_is_source / parser_levels_are_source (Props/C08c.lean, over the tables extract/c08_prec.py reads from source.rs and source_parser.rs on every run)",
                                   "doc_unions_agree / layout_tokens_every_width / roundtrip_every_width (Props/C08b.lean: every layout alternative of every Union of the expression's document is the token sequence printE e, at every width)"],
        "composed_with_C09": composed, "cli_leg": cli_stats, "size_boundary_leg": size_stats, "list_family_leg": list_stats, "doc_leg": doc_stats,
        "legacy": "Model/Fmt.lean (round-2 fragment with opaque call arguments / if / match; theorems roundtrip_expr_partial, paren_insensitive used by C09b / C13b) is executed next to the full model on every line in its fragment (stats legacy_model_*)",
        "pending": ["still opaque: identifiers/literals, member names with their explicit type arguments, the type annotation of a `let`, lambda parameter lists; patterns are modelled separately (Model/FmtPat.lean, roundtrip_pattern) and enter the expression model as one unit",
                    "`else if` chains, if-let guards, declarations, types, comments (reparse oracle only)",
                    "docOf (Model/FmtDoc.lean) is the document of an expression without comments; its leaf documents (patterns, annotations, lambda parameters, type arguments) are built by the driver and checked for Leaves.Ok at run time (agreeB), not proved"]})
    ctx.assumptions += ["valid UTF-8 input", "int literal tokens in i32 range (out-of-range literals are C06)",
                        "the layout engine is C09's model Model/Doc.lean (tied by C09's protocols and, for expression documents, by the fmt-doc layout comparison here)"]
    return ctx.finish(res, trusted=common.TRUSTED_COMMON + [
        "hand-written models Model/FmtFull.lean (printer arms literal/id, tuple, block with let / expression statements and optional final expression, FieldAccess/MethodAccess/Call chains with argument lists, Unary, Binary incl. ends_with_member_name, IfElse with block branches, Match with cases, Lambda; parser parse_expression/parse_match/parse_if_else, parse_disjunction..parse_factor, parse_unary_expression, parse_function_call_or_field_access incl. the `<`-after-member-name rule and argument lists, parse_base_expression with nested-expression unwrapping, tuples, blocks and lambdas, parse_block / parse_statement), Model/FmtPat.lean (matching_pattern_to_document vs pattern_parser), Model/FmtEval.lean (evaluation semantics) and Model/Fmt.lean (tables; lex_str_lit_opt, unescape_quotes, process_raw_token)",
        "translator extract/c08_prec.py (regex reading of BinaryOperator::precedence and of the parse_X / parse_X_with_start chain; exits 2 on any other shape)",
        "hand-written model Model/FmtDoc.lean (create_doc without comments) tied node by node by protocol fmt-doc; the driver-built leaf documents (Driver/C08.lean docO, tyDoc, commaSepD)",
        "driver-side character lexer and token grouping of the fragment (Driver/C08.lean lexWords/group: member names with optional `<T>`, match patterns `U(v) ->`, `U ->`, `_ ->`, lambda parameter lists as single units) and the tree dump of harness/src/bin/c08.rs (erases locations, comments, resolved module references, field/tag orders; imports normalised by merge+sort)",
        "not modelled (reparse oracle only): declarations, types, else-if chains, if-let, comments"])


KEYWORDS = ["import", "from", "class", "interface", "val", "function", "method", "as", "private", "protected",
            "internal", "public", "if", "then", "else", "match", "return", "int", "string", "bool", "unit", "self",
            "const", "let", "var", "type", "constructor", "destructor", "extends", "implements", "exports", "assert"]


def coverage_family():
    """deterministic inputs for the parser productions / lexer arms / printer arms that the random
    streams do not reach (found with vlib/coverage.py): (E, S, M) texts."""
    E = ["(a,)", "(a, b,)", "(a + 1, b,)", "(1, b,)", "f(a,)", "f(a, b,)", "((a), b,)", "(a, b, 1,)", "(a, b, c.d,)", "(a, 1)", "(a, b, 1)",
         "(a, b, c + 1)", "(a, b, c, )",
         "{ ; a; ; b }", "{ ; }", "{ a;; }", "{ ;; let v = 1;; v }",
         "(a: int) -> a", "(a, b: int) -> a", "(a, b, c: Foo, d) -> a", "(a: int, b) -> b", "(a, b) -> a", "(a) -> a", "() -> 1",
         "(a: bool, b: unit, c: int) -> (a, b, c)", "((a: int) -> a)(1)", "f((a, b: int) -> a + b)",
         "2147483647", "2147483648", "-2147483648", "99999999999999999999999", "-99999999999999999999999", "- 2147483648", "1 - 2147483648", "99999999999", "a + 2147483648", "0", "007", "10", "-0",
         "3000000000 - 1", "-(2147483648)", "f(2147483648)", "f(-2147483648)",
         "a.", "a.1", "a.(b)", "{ a", "{ a b }", "( a", "a +", "match a { }", "match a { A -> }", "if a { b }", "if a { b } else", "let", "f(a,,b)", "(,)", "()",
         "a b", "a[0]", "a ? b", "...", "a -> b", "{ let = 1; }", "{ let v 1; }", "{ let v = 1 v }", "(a, b", "(a, b: int)", "(a: int, 1) -> a",
         "a..b", "!", "-", "a &&", "a == == b", "f(", "f(a", "{", "}", ")", ",", ";", "_", "_ + 1", "Abc.def", "Abc.Def", "this.a", "true.b", "1.a"]
    E += [f"{kw} + 1" for kw in KEYWORDS] + [f"a.{kw}" for kw in ("val", "type", "match")] + [f"(x) -> {kw}" for kw in ("self", "return", "int")]
    S = ['"\\q"', '"\\"', '"abc', '"a\nb"', '"\\\\"', '"\\t\\v\\0\\b\\f\\n\\r\\""', '"\\x41"', '"\\u1234"', '"\\\\\\"',
         '"tab\there"', '"q\\"', "\"\"", '"a" "b"', '"\\\\q"', '"\\ "']
    M = [
        "private class A { private function f(): int = 1 private method g(): int = 2 function h(): int = 3 method i(): int = 4 }",
        "private interface I { method m(): int }\ninterface J<T> : I { function f(x: T): T method <R> g(r: R): (T, R) -> unit }",
        "interface I {}\nclass B<T: I>(val a: T, private val b: int) : I, J<T> { method m(): int = this.b }",
        "class O<T>(None, Some(T), Pair(T, int)) { function <T> none(): O<T> = O.None<T>() method <R> map(f: (T) -> R): O<R> = match this { None -> O.None<R>(), Some(v) -> O.Some(f(v)), Pair(a, _) -> O.Some(f(a)) } }",
        "class A<T> { function <R> f(g: (T) -> R, h: ((T, R) -> T, int) -> unit, x: T, l: List<Pair<T, R>>): R = g(x) }",
        "class A { function f(x: Opt<int>, y: int): int = if let Some(v) = x { v } else if y > 0 { y } else if let (a, _) = (y, y) { a } else { 0 } }",
        "class A { function f(): unit = { let a: int = 1; let (b, _): Pair<int, Str> = p; let { c, d as Some(e) }: Foo = r; let g: (int, bool) -> unit = (x, y) -> {}; let _ = g(a, true); } }",
        "// leading line comment\n/* block */\nimport { A, /* inner */ B } from m.N // trailing\n/** doc for C */\nclass C(/* f1 */ val a: int, // after a\n val b: int /* end of fields */) {\n  // before member\n  /** doc */ function f(/* p */ x: int /* after x */, y: int /* last */): int = /* body */ x + /* mid */ y // eol\n  // end of class\n}\n// trailing comments\n/* last */",
        "class A { function f(x: O): int = match /* scrutinee */ x { /* first */ A -> /* body */ 1, // after first\n B(v) -> /* c1 */ v.a /* c2 */ . b /* c3 */ (/* arg */ 1 /* end */) + /* c4 */ 2, /* before close */ } }",
        "class A { function f(): int = { /* start */ let a = 1; // after let\n a; /* before final */ a /* end of block */ } function g(): unit = { /* only comment */ } function h(): Pair<int, int> = (1, /* c */ 2 /* end */) function k(): int = f(/* no args */) + g(a /* last */) }",
        "class A { function f(): int /* before eq */ = a.b(c) + 1 function g(x: O): int = match x { A /* before arrow */ -> a.b.c(d), B -> -x /* c */ } function h(): unit = { let v /* before eq */ = b.c(1) + 2; let w /* c */ : int /* d */ = (a); } }",
        "class A<T, R: Foo<int, T, (T) -> int>, S: Bar<R>> { function <U: Foo<T, U, (U, int) -> T>> f(u: U): U = u }",
        "interface I { private method m(): int }", "class A { function f(): int = ( /* a */ x + 1 /* b */ ) * (/* c */ y) + (/* d */ (z)) }", "class A { function f(): int = { a", "class A { function f(): int = { let v = 1", "class A { function f(): int = { a;",
        "interface I { /* empty with comment */ }\nclass A { /* empty class */ }\nclass B(/* no fields? */ val a: int) {}",
        "class A { function f(a: Str): Str = a :: \"x\" :: (a :: \"y\") function g(): bool = !(1 < 2) && -(1) == -1 || true }",
        "/* unterminated", "/**/ class A {}", "class A { function f(): int = 1 # 2 }", "class A { function f(): int = @ }", "private private class A {}",
        "class A { private val }", "class 1 {}", "class a {}", "interface i {}", "import { a } from b", "import { A } from 1", "import A from b",
        "class A { function F(): int = 1 }", "class A { function f(X: int): int = 1 }", "class A { function f(x: INT): int = 1 }", "class A(val A: int) {}",
        "class A { function f(): int = 1", "class A { function f() int = 1 }", "class A { function f(): = 1 }", "class A { function <> f(): int = 1 }",
        "class A { function f(): int = match x { A(1) -> 1 } }", "class A { function f(): int = match x { { } -> 1 } }", "class A { function f(): int = { let (a,) = p; a } }",
    ]
    return E, S, M


SIZES = (1, 2, 15, 16, 17)
FIRSTS = ["a", "(a)", "(a + 1)", "1", "Abc", "((a) -> a)", "(a.b)", "(f(a))", "-a", "this", "(a, b)"]


def size_family():
    """boundary sizes for every construct with a size limit or a second parser path.
    Returns (E texts with their (kind, n, first) key, P texts, M texts)."""
    ids = [f"e{i}" for i in range(1, 40)]
    E, P, M = [], [], []
    for n in SIZES:
        rest = ids[:n - 1]
        for ft in FIRSTS:
            tup = "(" + ", ".join([ft] + rest) + ")"
            E.append((("tuple", n, ft), tup))
            if ft in ("a", "(a)", "(a + 1)", "1"):
                E.append((("tuple-in-call", n, ft), f"f({tup})"))
                E.append((("tuple-in-let", n, ft), f"{{ let t = {tup}; t }}"))
                E.append((("tuple-in-lambda", n, ft), f"(x) -> {tup}"))
            E.append((("call-args", n, ft), "g(" + ", ".join([ft] + rest) + ")"))
        E.append((("lambda-params", n, "-"), "(" + ", ".join(f"p{i}" for i in range(n)) + ") -> p0"))
        E.append((("tuple-nested-last", n, "-"), "(" + ", ".join(rest + ["(a, b)"]) + ")" if n > 1 else "((a, b))"))
        vs = [f"v{i}" for i in range(n)]
        P += ["(" + ", ".join(vs) + ")", "A(" + ", ".join(vs) + ")", "{ " + ", ".join(vs) + " }",
              "(" + ", ".join(["A(v0)"] + vs[1:]) + ")", " | ".join(f"K{i}" for i in range(n))]
        ints = ", ".join(["int"] * n)
        M += [f"class C(" + ", ".join(f"val f{i}: int" for i in range(n)) + ") { function g(): int = 1 }",
              f"class C {{ function g(" + ", ".join(f"p{i}: int" for i in range(n)) + "): int = p0 }",
              f"class F<" + ", ".join(f"T{i}" for i in range(n)) + "> { function g(x: F<" + ints + ">): int = 1 }",
              f"class C {{ function g(h: ({ints}) -> int): int = 1 }}",
              f"class E(A({ints}), B) {{ function g(): int = 1 }}",
              f"class C {{ function g(): int = {{ let (" + ", ".join(vs) + ") = ((a), " + ", ".join(ids[:n - 1]) + "); 1 } }" if n > 1 else
              "class C { function g(): int = { let (v0) = ((a)); 1 } }"]
    return E, P, M


def size_boundary_leg(ctx, r, model_ok):
    """deterministic boundary-size family + parser path independence (the tuple-building paths of the
    parser must agree on accept/reject for the same element list)."""
    E, P, M = size_family()
    lines = [f"E 100 {hexs(t)}" for _, t in E] + [f"E 30 {hexs(t)}" for _, t in E] + [f"P 100 {hexs(t)}" for t in P]
    r.expr_batch(lines, "boundary sizes", model=model_ok)
    cE, cS, cM = coverage_family()
    r.expr_batch([f"E {w} {hexs(t)}" for t in cE for w in (100, 20)] + [f"S 100 {hexs(t)}" for t in cS], "coverage family", model=model_ok)
    r.module_batch([(f"coverage-family#{i}", w, t) for i, t in enumerate(cM) for w in (100, 30)], "coverage family")
    r.module_batch([(f"size-family#{i}", w, t) for i, t in enumerate(M) for w in (100, 40)], "boundary sizes")
    _, impl, _ = common.run_exec(common.harness_bin("C08"), [], [f"E 100 {hexs(t)}" for _, t in E])
    groups = {}
    for (key, t), a in zip(E, impl):
        groups.setdefault(key[:2], []).append((key[2], t, a != "perr"))
    st = {"E": len(E), "P": len(P), "M": len(M), "path_groups": len(groups)}
    for (kind, n), members in groups.items():
        if len(set(ok for _, _, ok in members)) > 1:
            acc = [t for _, t, ok in members if ok][0]
            rej = [t for _, t, ok in members if not ok][0]
            r.violation(f"parser path dependence: a {kind} of {n} elements is accepted as `{acc[:60]}…` but rejected as `{rej[:60]}…` (acceptance must depend on the element count only)",
                        {"protocol": "fmt-expr", "accepted": acc, "rejected": rej, "kind": kind, "n": n,
                         "op": f"E 100 {hexs(acc)}"}, ("path", kind, n))
    return st


def list_family_leg(ctx, r, model_ok):
    """every kind of bracketed list x n x comment kind x gap x width through format -> reparse -> tree
    equality (vlib/listfamily.py), and the `trail` stream: per kind, does the real parser accept a
    hand-written trailing comma / does the real printer ever emit one, against Model/FmtLists.lean."""
    mods = list(listfamily.modules())
    r.module_batch([("list:" + "/".join(str(x) for x in key), w, t) for key, t in mods for w in (20, 100)], "list family")
    st = {"modules": len(mods), "kinds": len(listfamily.KINDS)}
    kinds = [k for k in listfamily.KINDS if listfamily.KINDS[k][2]]
    # real parser: accepts a trailing comma?
    tl = [(k, n, listfamily.trailing(k, n)) for k in kinds for n in (1, 2, 3)]
    _, acc, _ = common.run_exec(common.harness_bin("C08"), [], [f"D {hexs(t)}" for _, _, t in tl])
    real_accepts = {}
    for (k, n, _), a in zip(tl, acc):
        real_accepts.setdefault(k, set()).add(not a.startswith("perr"))
    # real printer: emits a trailing comma?
    wl = [(key[0], t, w) for key, t in mods for w in (20, 100) if key[0] in listfamily.KINDS and listfamily.KINDS[key[0]][2]]
    _, outs, _ = common.run_exec(common.harness_bin("C08"), [], [f"W {w} {hexs(t)}" for _, t, w in wl])
    real_emits = {k: False for k in kinds}
    strip = lambda x: re.sub(r"/\*.*?\*/|//[^\n]*", "", x, flags=re.S)
    for (k, _, _), o in zip(wl, outs):
        if o and o != "perr" and re.search(r",\s*" + re.escape(listfamily.KINDS[k][2]), strip(common.unhex(o).decode("utf-8", "replace"))):
            real_emits[k] = True
    if model_ok:
        _, mod, _ = common.run_exec(common.driver_bin("C08"), [], [f"T {k}" for k in kinds])
        for k, m in zip(kinds, mod):
            ra = real_accepts.get(k, set())
            if len(ra) != 1:
                r.violation(f"parser accepts a trailing comma in a {k} list for some sizes only", {"kind": k, "source": listfamily.trailing(k, 2)}, ("trail-mixed", k))
                continue
            want = f"accepts={1 if True in ra else 0} emits={1 if real_emits[k] else 0}"
            if m != want:
                # the printer's normal form for this kind is no longer read by the parser: concrete input
                src = next((t for key, t in mods if key[0] == k and key[2] == "block" and key[3] == ("close",)), listfamily.trailing(k, 2))
                payload = {"protocol": "trail", "kind": k, "model": m, "implementation": want, "source": src, "width": 100,
                           "broken": "Model/FmtLists.lean (trailing commas per list kind) vs the real parser/printer"}
                r.violation(f"trail: list kind {k}: model {m}, implementation {want} (e.g. `{listfamily.trailing(k, 2)[:70]}`)", payload,
                            ("trail", k), no_input=("accepts=1" in want and real_emits[k] == ("emits=1" in m)))
    st["trail_kinds"] = len(kinds)
    return st


# ---------------------------------------------------------------- fmt-doc: the document before the layout engine

WS = set([9, 10, 11, 12, 13, 32, 0x85, 0xA0, 0x1680, 0x2028, 0x2029, 0x202F, 0x205F, 0x3000]) | set(range(0x2000, 0x200B))


def nonws(text):
    return "".join(c for c in text if ord(c) not in WS)


def doc_read(dump):
    """(text, agree, witness) of a document in the printer hook's prefix notation: the non-whitespace
    text of the preferred branches (`val textKey`), whether both branches of every Union have the same
    text (`Agree textKey`), and the two texts of the first Union that does not."""
    toks = dump.split(" ")
    pos = [0]
    wit = []

    def unhex(h):
        return "" if h == "-" else bytes.fromhex(h).decode("utf-8", "replace")

    def rd():
        t = toks[pos[0]]; pos[0] += 1
        if t in ("N", "L", "LN", "LH"):
            return "", True
        if t in ("T", "S"):
            h = toks[pos[0]]; pos[0] += 1
            return nonws(unhex(h)), True
        if t == "I":
            pos[0] += 1
            return rd()
        if t == "C":
            a, oa = rd(); b, ob = rd()
            return a + b, oa and ob
        if t == "U":
            a, oa = rd(); b, ob = rd()
            if a != b and not wit:
                wit.append((a, b))
            return a, oa and ob and a == b
        raise ValueError("bad document node " + t)
    import sys
    sys.setrecursionlimit(max(sys.getrecursionlimit(), 20000))
    text, ok = rd()
    if pos[0] != len(toks):
        raise ValueError("trailing document tokens")
    return text, ok, (wit[0] if wit else None)


def doc_family():
    """deterministic texts whose documents have the most layout alternatives: dotted chains of every
    length with and without calls / explicit type arguments / parenthesised bases, nested in arguments,
    operands, conditions, branches and case bodies; if-else with and without statements; match."""
    names = ["alpha", "betaBeta", "c", "deltaDeltaDelta", "e"]
    out = []
    for n in range(1, 5):
        for calls in range(0, 1 << min(n, 3)):
            for base in ("a", "Abc", "(a + b)", "f(x)", "(-a)", "{ a }", "(a, b)", "((x) -> x)", "(if a { b } else { c })"):
                ch = base
                for i in range(n):
                    ch += "." + names[i]
                    if n == 3 and i == 1 and calls == 0:
                        ch += "<int>"
                    if calls >> min(i, 2) & 1:
                        ch += "(" + ", ".join(names[:i]) + ")"
                out.append(ch)
    chains = ["a.b", "a.b.c(d)", "aaaa.bbbb(cccc).dddd(eeee, ffff).gggg", "f(x)(y)", "f()", "f().g()", "a.b<Foo>(c).d"]
    for c in chains:
        out += [f"f({c}, {c})", f"{c} + {c} * {c}", f"!{c}", f"-{c}", f"({c}) < {c}", f"({c}, {c})", f"if {c} {{ {c} }} else {{ {c} }}",
                f"match {c} {{ Foo(x, _) -> {c}, Bar -> {c}, _ -> {{ {c} }} }}", f"(x, y: int) -> {c}", f"{{ let v = {c}; {c}; {c} }}",
                f"{{ let (p, _): Foo = {c}; }}", f"{{ {c} }}", f"{c}.m({c}).n", f"{c} && ({c} || {c})", f"{c} + ({c} + {c})"]
    out += ["if a { b } else { c }", "if a { let v = 1; v } else { w; }", "if a { } else { }", "if a { b; } else { { c } }",
            "if a + b < c { if d { e } else { f } } else { match g { A -> 1, B(x) -> x } }",
            "match x { A | B(_) -> 1, { f, g as (h, _) } -> 2, (p, q) -> 3 }", "{ }", "{ a; }", "{ let { a, b as c }: Foo = x; a + c }",
            "() -> 1", "(a) -> (b) -> a + b", "((a) -> a)(1)", "(a, b, c)", "((a, b), (c, d))", "true && false || this.x", "-2147483648", "- 2147483648 + 1"]
    return out


def doc_leg(ctx, r, model_ok, rng):
    """protocol `fmt-doc`: (1) on the real document alone — both branches of every Union read the same
    text and that text is what the formatter prints at the tested width (the obligation proved for the
    model as `doc_unions_agree` / `layout_tokens_every_width`); (2) correspondence — the real document
    of `create_doc` equals `docOf` of Model/FmtDoc.lean node by node, and the model's layout engine prints
    it exactly like the real one."""
    texts = [(w, t) for t in doc_family() for w in (5, 20, 40, 100)]
    texts += [(w, render(t)) for t in pair_enumeration() for w in (100, 12)]
    for _ in range(ctx.scale(3000, 40000)):
        g = rng.fork()
        t = gen_tree(g, g.range(1, 5), g.chance(3, 5))
        texts.append((g.pick([5, 10, 20, 30, 40, 60, 80, 100, 200]), render(t, g) if g.chance(1, 2) else render(t)))
    lines = [f"X {w} {hexs(t)}" for w, t in texts]
    st = {"lines": len(lines), "documents_checked": 0, "unions": 0, "documents_equal_to_model": 0, "layouts_equal_to_model": 0,
          "outside_fragment": 0, "perr": 0, "tree_differs": 0}
    for i0 in range(0, len(lines), 3000):
        chunk = lines[i0:i0 + 3000]
        if model_ok:
            impl, mod = common.run_pair("C08", chunk)
        else:
            _, impl, _ = common.run_exec(common.harness_bin("C08"), [], chunk)
            mod = [None] * len(chunk)
        for i, l in enumerate(chunk):
            a = impl[i] if i < len(impl) else "<missing>"
            m = mod[i] if i < len(mod) else "<missing>"
            w, src = texts[i0 + i]
            payload = {"protocol": "fmt-doc", "op": l, "source": src, "width": w, "impl": a[:3000], "model": (m or "")[:3000]}
            if a == "perr":
                st["perr"] += 1
                continue
            pa = a.split(";")
            if a.startswith("panic:") or a.startswith("<") or len(pa) != 3:
                r.violation("building the document of an expression panicked or the harness failed: " + a[:80], payload, ("xd", l))
                continue
            t0, doc, out = pa[0], pa[1], common.unhex(pa[2]).decode("utf-8", "replace")
            # ---- (1) the obligation on the real document
            try:
                text, agree, wit = doc_read(doc)
            except Exception as ex:
                r.violation(f"unreadable document dump: {ex!r}", payload, ("xd", l), no_input=True)
                continue
            st["documents_checked"] += 1
            st["unions"] += doc.count("U ") + (1 if doc.startswith("U") else 0) - (1 if doc.startswith("U ") else 0)
            if not agree or text != nonws(out):
                payload["broken"] = ("obligation `every layout alternative of a Union prints the same tokens` (doc_unions_agree, "
                                     "layout_tokens_every_width, roundtrip_every_width of Props/C08b.lean) is false for the real document")
                payload["union_branches"] = list(wit) if wit else None
                payload["document_text"], payload["printed_text"] = text, nonws(out)
                what = (f"the two layouts of a Union in the document of `{src}` differ: `{wit[0]}` vs `{wit[1]}`" if wit else
                        f"the document of `{src}` reads `{text}` but width {w} prints `{nonws(out)}`")
                st["union_disagreements"] = st.get("union_disagreements", 0) + 1
                if st["union_disagreements"] <= 12:
                    # look for a width at which the divergence reaches the reparse oracle (concrete failing input)
                    r.expr_batch([f"E {w2} {hexs(src)}" for w2 in sorted({w, 1, 5, 10, 15, 20, 30, 40, 60, 80, 100, 200})],
                                 "widths after a Union disagreement", model=False)
                r.violation("the printed tokens depend on the line width: " + what, payload, ("xu", src), no_input=True, budget="n_doc_obligation")
                continue
            # ---- (2) correspondence with Model/FmtDoc.lean
            if m is None:
                continue
            if m == "perr":
                st["outside_fragment"] += 1
                continue
            pm = m.split(";")
            if len(pm) != 5:
                r.violation("driver failed on an X line: " + m[:80], payload, ("xm", l), no_input=True)
                continue
            if pm[0] != t0:
                st["tree_differs"] += 1      # a parse disagreement: reported by the fmt-expr stream
                continue
            payload["broken"] = ("correspondence `fmt-doc` (Model/FmtDoc.lean `docOf` vs source_printer.rs `create_doc`): doc_unions_agree / "
                                 "layout_tokens_every_width / roundtrip_every_width no longer speak about this code")
            if pm[1] != doc or pm[2] != "lv=ok":
                da, dm = doc.split(" "), pm[1].split(" ")
                k = next((j for j in range(min(len(da), len(dm))) if da[j] != dm[j]), min(len(da), len(dm)))
                payload["first_difference"] = {"at": k, "impl": " ".join(da[max(0, k - 6):k + 10]), "model": " ".join(dm[max(0, k - 6):k + 10])}
                r.violation(f"model/implementation disagreement on protocol fmt-doc for `{src}`: the document of create_doc differs from docOf at node {k}"
                            + ("" if pm[2] == "lv=ok" else " (a leaf document has disagreeing Unions)"), payload, ("xc", src), no_input=True, budget="n_doc_corr")
                continue
            st["documents_equal_to_model"] += 1
            mchars = "" if pm[3] == "-" else common.unhex(pm[3]).decode("utf-8", "replace")
            mout = "" if pm[4] == "-" else common.unhex(pm[4]).decode("utf-8", "replace")
            if mout != out or mchars != text:
                payload["model_layout"], payload["impl_layout"] = mout, out
                r.violation(f"fmt-doc: same document, different layout at width {w} for `{src}` (Model/Doc.lean vs prettier.rs) or different token text",
                            payload, ("xl", src), no_input=True, budget="n_doc_corr")
                continue
            st["layouts_equal_to_model"] += 1
    return st


CLI_TARGET = os.path.join(common.HARNESS, "target", "cli")


def build_cli():
    """samlang-cli from /repo's working tree, into /verif/harness/target/cli"""
    with common.Lock("cargo"):
        rc, out = common.sh(["cargo", "build", "-p", "samlang-cli", "--offline", "--target-dir", CLI_TARGET],
                            cwd=common.REPO, timeout=1800)
    exe = os.path.join(CLI_TARGET, "debug", "samlang-cli")
    return (exe if rc == 0 and os.path.exists(exe) else None), out[-3000:]


def tree_of(root):
    out = {}
    for d, _, fs in os.walk(root):
        for f in fs:
            p = os.path.join(d, f)
            out[os.path.relpath(p, root)] = open(p, "rb").read()
    return out


def cli_leg(ctx, r, rng):
    """`samlang format` / `samlang format --check` (crates/samlang-cli/src/main.rs runners::format) on a
    scratch project: exit codes, written text == in-process pretty_print_source_module(.., 100, ..), no
    file appears or disappears, unparseable files untouched, `--check` on the formatted project is clean."""
    exe, log = build_cli()
    st = {"files": 0, "runs": 0}
    if exe is None:
        r.violation("samlang-cli no longer builds; the CLI leg of C08 cannot run", {"broken": "cargo build -p samlang-cli", "log": log},
                    ("cli-build",), no_input=True)
        return st
    files = {}
    names = ["Main", "Util", "a/Deep", "a/b/Deeper", "Other", "X1", "X2", "X3", "Formatted", "Broken"]
    for nm in names[:8]:
        files[f"src/{nm}.sam"] = gen_module(rng.fork(), steer=True)
    lines = [f"F {hexs(t)}" for t in files.values()]
    _, outs, _ = common.run_exec(common.harness_bin("C08"), [], lines)
    expected = {}
    for (k, t), o in zip(list(files.items()), outs):
        expected[k] = None if o == "perr" or not o else common.unhex(o).decode()
    some = next((v for v in expected.values() if v), "class Main {}\n")
    files["src/Formatted.sam"] = some
    expected["src/Formatted.sam"] = some
    files["src/Broken.sam"] = "class Broken { function f(): int = (1 + }"
    expected["src/Broken.sam"] = None
    files["sconfig.json"] = '{"sourceDirectory": "src"}'
    st["files"] = len(files) - 1
    base = os.path.join(common.SCRATCH_ROOT, f"c08-cli-{os.getpid()}")
    shutil.rmtree(base, ignore_errors=True)
    try:
        projs = {}
        for tag in ("A", "B"):
            root = os.path.join(base, tag)
            for k, t in files.items():
                os.makedirs(os.path.dirname(os.path.join(root, k)), exist_ok=True)
                open(os.path.join(root, k), "w").write(t)
            projs[tag] = root

        def run(root, args):
            st["runs"] += 1
            p = subprocess.run([exe, "format"] + args, cwd=root, stdout=subprocess.PIPE, stderr=subprocess.PIPE, timeout=300)
            return p.returncode, p.stderr.decode("utf-8", "replace")

        def bad(what, root, extra):
            payload = {"protocol": "cli-format", "files": files, "project": root}
            payload.update(extra)
            r.violation("samlang format (CLI): " + what, payload, ("cli", what[:60]))

        # A: format
        before = tree_of(projs["A"])
        rc, err = run(projs["A"], [])
        after = tree_of(projs["A"])
        if rc != 0:
            pl = next((l for l in err.splitlines() if "panicked at" in l), "") + " " + next((l for l in err.splitlines() if "Error" in l or "No such file" in l), "")
            bad(f"`samlang format` exited with {rc}: {(pl.strip() or err.strip())[:300]}", projs["A"], {"rc": rc, "stderr": err[-2000:]})
        if set(after) != set(before):
            bad(f"`samlang format` created or removed files: {sorted(set(after) ^ set(before))}", projs["A"], {})
        for k, exp in expected.items():
            got = after.get(k, b"").decode("utf-8", "replace")
            want = exp if exp is not None else files[k]
            if rc == 0 and got != want:
                bad(f"`samlang format` wrote {k} differently from pretty_print_source_module(.., 100, ..)" if exp is not None
                    else f"`samlang format` modified the unparseable file {k}", projs["A"], {"file": k, "got": got, "want": want})
        # A again: --check on the formatted project must be clean (and change nothing)
        rc2, err2 = run(projs["A"], ["--check"])
        if rc == 0 and (rc2 != 0 or "Changed:" in err2):
            bad(f"`samlang format --check` on the freshly formatted project exits with {rc2}: {err2.strip()[-300:]}", projs["A"], {"rc": rc2, "stderr": err2[-2000:]})
        if rc == 0 and tree_of(projs["A"]) != after:
            bad("`samlang format --check` changed the formatted project", projs["A"], {})
        # B: --check on the unformatted project
        changed = sorted(k for k, exp in expected.items() if exp is not None and exp != files[k])
        before = tree_of(projs["B"])
        rc3, err3 = run(projs["B"], ["--check"])
        want_rc = 1 if changed else 0
        if rc3 != want_rc:
            bad(f"`samlang format --check` exited with {rc3}, expected {want_rc} ({len(changed)} files need formatting): {err3.strip()[-300:]}",
                projs["B"], {"rc": rc3, "stderr": err3[-2000:]})
        reported = sorted(os.path.relpath(l.split("Changed: ", 1)[1].strip(), ".") for l in err3.splitlines() if l.startswith("Changed: "))
        if rc3 in (0, 1) and reported != changed:
            bad(f"`samlang format --check` reports {reported}, expected {changed}", projs["B"], {"stderr": err3[-2000:]})
        if set(tree_of(projs["B"])) != set(before):
            bad("`samlang format --check` created or removed files", projs["B"], {})
    finally:
        shutil.rmtree(base, ignore_errors=True)
    return st


def replay(ctx, path):
    common.build_harness("C08"); common.build_lean(["drv-c08"])
    data = json.load(open(path))
    p = data["replay"]
    if "operator_pairs" in p or p.get("broken") == "extract/c08_prec.py":
        # the precedence-table obligation: re-extract from the current source and re-check Props/C08c.lean
        xpath = os.path.join(common.VERIF, "extract", "c08_prec.py")
        rc_x, out_x = common.sh(["python3", xpath])
        print("translator:", out_x.strip()[-300:])
        if rc_x != 0:
            return 1
        ra = common.audit("C08c")
        _, outp = common.sh(["python3", xpath, "--print"])
        print("disagreeing operator pairs:", json.loads(outp.strip().splitlines()[-1]).get("disagreements"))
        print("failed theorems:", [n for n, _ in ra["failed"]])
        return 1 if ra["failed"] else 0
    if "op" in p and p["op"].startswith("X "):
        impl, model = common.run_pair("C08", [p["op"]])
        a, m = impl[0], model[0]
        print("source:", p.get("source")); print("  impl :", a[:2000]); print("  model:", m[:2000])
        pa, pm = a.split(";"), m.split(";")
        if len(pa) != 3:
            return 1
        text, agree, wit = doc_read(pa[1])
        out = nonws(common.unhex(pa[2]).decode("utf-8", "replace"))
        bad = False
        if not agree or text != out:
            print("  OBLIGATION BROKEN: a Union of the real document has two different texts:", wit, "| document", text, "| printed", out); bad = True
        if len(pm) == 5 and pm[0] == pa[0] and (pm[1] != pa[1] or pm[2] != "lv=ok" or pm[4] != pa[2]):
            print("  DISAGREEMENT model vs implementation (document or layout)"); bad = True
        return 1 if bad else 0
    if "op" in p:
        lines = [p["op"]]
        if isinstance(p.get("shrunk"), dict) and p["shrunk"].get("source"):
            lines.append(f"E 100 {hexs(p['shrunk']['source'])}")
        impl, model = common.run_pair("C08", lines)
        bad = False
        for l, a, m in zip(lines, impl, model):
            ca, cm = canon_impl(a), canon_model(m)
            print(f"source: {common.unhex(l.split(' ')[2]).decode()}\n  impl : {ca}\n  model: {m}")
            if ca != "perr" and ";" in ca and ca.split(";")[0] != ca.split(";")[2]:
                print("  ORACLE: formatting changed the tree"); bad = True
            if ca != cm and not any(x in ca for x in OUTSIDE):
                print("  DISAGREEMENT model vs implementation"); bad = True
        return 1 if bad else 0
    if "source" in p:
        w = p.get("width", 100)
        _, out, _ = common.run_exec(common.harness_bin("C08"), [], [f"M {w} {hexs(p['source'])}"])
        a = out[0] if out else "?"
        print(p["source"]); print("=>", a[:60])
        if a.startswith("rerr:") or a.startswith("diff:"):
            parts = a.split(":")
            print("printed:\n" + common.unhex(parts[-1]).decode("utf-8", "replace"))
            return 1
        return 1 if a.startswith("panic") else 0
    print(json.dumps(data, indent=1)); return 1
