"""C02 — optimisation passes never change output or termination.

Proof: lean/SamVerif/Props/C02.lean over Model/OptKernel.lean (fold, CCP rules, operand
reordering, constant merging, trip counts, IV elimination, strength reduction).
Tie (every run): kernel protocols `fold/tgt/merge/trip/flex/order/unwrap/ccp/ivloop/ivorig` — the
real private functions (hook H1) and real passes vs the Lean model, line by line.
Oracle (model-free): (a) a Python re-implementation of the target's 32-bit semantics judges every
kernel answer of the implementation; (b) translation validation: generated MIR programs are run by
an interpreter (harness) before and after each real pass / the round driver / optimize_sources in
all 32 configurations, over a grid of argument values.
Known findings C02-F1..F7 are recognised by signature; anything else is a VIOLATION."""
import json, os, re
from . import common

MIN, MAX = -2**31, 2**31 - 1
OPS = ["mul", "div", "mod", "add", "sub", "and", "or", "shl", "shr", "xor", "lt", "le", "gt", "ge", "eq", "ne"]
ORD = ["lt", "le", "gt", "ge"]
CMP = ORD + ["eq", "ne"]
GUARDS = ["lt", "le", "gt", "ge"]
FN_PASSES = ["ccp", "loop", "cse", "lvn", "dce", "sr"]
BOUNDARY = [0, 1, -1, 2, -2, 3, 7, 10, 31, 32, 33, -32, MIN, MIN + 1, MAX, MAX - 1, 65536, 46341, -46341,
            1 << 30, -(1 << 30), 1 << 16, 255, -256]


def w32(x):
    return (x + 2**31) % 2**32 - 2**31


def in_range(x):
    return MIN <= x <= MAX


def tdiv(a, b):
    q = abs(a) // abs(b)
    return q if (a < 0) == (b < 0) else -q


def tgt(op, a, b):
    """The wasm target's value of `a op b` (None = trap). Independent of the Lean model and of
    the harness interpreter."""
    if op == "mul": return w32(a * b)
    if op == "add": return w32(a + b)
    if op == "sub": return w32(a - b)
    if op == "div":
        if b == 0 or (a == MIN and b == -1): return None
        return tdiv(a, b)
    if op == "mod":
        if b == 0: return None
        return a - b * tdiv(a, b)
    ua, ub = a & 0xFFFFFFFF, b & 0xFFFFFFFF
    if op == "and": return w32(ua & ub)
    if op == "or": return w32(ua | ub)
    if op == "xor": return w32(ua ^ ub)
    if op == "shl": return w32(ua << (ub % 32))
    if op == "shr": return w32(ua >> (ub % 32))
    return int({"lt": a < b, "le": a <= b, "gt": a > b, "ge": a >= b, "eq": a == b, "ne": a != b}[op])


def holds(g, i, b):
    return {"lt": i < b, "le": i <= b, "gt": i > b, "ge": i >= b}[g]


def gen_int(rng, small=False):
    k = rng.below(10)
    if small or k < 3:
        return rng.range(-12, 12)
    if k < 7:
        return rng.pick(BOUNDARY)
    if k < 8:
        return w32(rng.pick(BOUNDARY) + rng.range(-2, 2))
    return w32(rng.next())


# ------------------------------------------------------------------------------------------
# kernel lines: generation
# ------------------------------------------------------------------------------------------

def gen_expr(rng):
    k = rng.below(10)
    if k < 4: return f"i{gen_int(rng)}"
    if k < 5: return f"j{rng.range(-3, 9)}"
    if k < 6: return f"s{rng.below(6)}"
    return f"v{rng.below(8)}"


def gen_operand(rng):
    return f"i{gen_int(rng)}" if rng.chance(1, 2) else f"v{rng.below(4)}"


def gen_kernel_line(rng):
    kind = rng.weighted([("fold", 30), ("merge", 14), ("trip", 16), ("flex", 12), ("order", 4), ("unwrap", 4),
                         ("ccp", 14), ("iv", 8), ("sr", 8), ("dce", 8), ("lvn", 10), ("cse", 6), ("inl", 8)])
    if kind == "inl":
        # callee with np parameters (v0..), SSA body of Binary statements and at most one print (inline cost <= 20)
        np_ = rng.range(0, 3)
        args = [rng.pick(["v0", "v1", f"i{rng.range(-4, 9)}"]) for _ in range(np_)]
        toks, nv, printed = [], np_, False
        def opd():
            return f"v{rng.below(nv)}" if (nv and rng.chance(3, 4)) else f"i{rng.range(-3, 9)}"
        for _ in range(rng.range(0, 7)):
            if not printed and rng.chance(1, 5):
                toks += ["p", opd()]; printed = True
            else:
                toks += ["b", f"v{nv}", rng.pick(OPS), opd(), opd()]; nv += 1
        ret = opd()
        return [f"inl {np_} " + " ".join(args + [ret] + toks)]
    if kind == "cse":
        pool = [(rng.pick([o for o in OPS if o != "sub"]), f"v{rng.below(2)}", rng.pick(["v0", "v1", f"i{rng.range(1, 5)}"])) for _ in range(4)]
        nv = [2]
        def blk():
            t = []
            for _ in range(rng.range(0, 4)):
                if rng.chance(1, 4):
                    t += ["p", f"v{rng.below(2)}"]
                else:
                    o, a, b = rng.pick(pool)
                    t += ["b", f"v{nv[0]}", o, a, b]; nv[0] += 1
            return t
        return ["cse " + " ".join(blk() + ["/"] + blk())]
    if kind == "lvn":
        # SSA block / loop body with duplicated computations whose copies feed every consuming position
        toks, nv, exprs = [], 2, []
        def opd(n):
            return f"v{rng.below(n)}" if rng.chance(3, 4) else f"i{rng.range(-3, 9)}"
        def simple(n, allow_def):
            nonlocal nv
            k = rng.below(10)
            if k < 2: return ["p", opd(n)], n
            if k < 3: return ["k", opd(n)], n
            if exprs and k < 6:
                o, a, b = rng.pick(exprs)            # duplicate of an available computation
            else:
                o, a, b = rng.pick(OPS), opd(n), opd(n)
                exprs.append((o, a, b))
            x = nv; nv += 1
            return ["b", f"v{x}", o, a, b], nv
        for _ in range(rng.range(2, 9)):
            if rng.chance(1, 5):
                # IfElse with statement-block branches and final assignments
                n_out, saved = nv, list(exprs)
                b1 = []
                for _ in range(rng.range(0, 2)):
                    st, _ = simple(nv, True); b1 += st
                n1 = nv
                exprs[:] = saved
                b2 = []
                for _ in range(rng.range(0, 2)):
                    st, _ = simple(nv, True); b2 += st
                n2 = nv
                exprs[:] = saved
                fas = []
                nf = rng.range(0, 2)
                for _ in range(nf):
                    e1 = f"v{rng.below(n1)}" if rng.chance(3, 4) else "i1"
                    # the else branch may only name outer variables or its own definitions
                    cands2 = list(range(n_out)) + list(range(n1, n2))
                    e2 = f"v{rng.pick(cands2)}" if rng.chance(3, 4) else "i2"
                    fas += [f"v{nv}", e1, e2]; nv += 1
                toks += ["{", f"v{rng.below(n_out)}"] + b1 + ["|"] + b2 + [";", str(nf)] + fas + ["}"]
                continue
            if rng.chance(1, 4):
                inner, saved = [], list(exprs)
                n_in = nv
                for _ in range(rng.range(1, 3)):
                    st, _ = simple(nv, True)
                    inner += st
                if rng.chance(1, 2): inner += ["k", f"v{nv - 1}"]
                toks += ["[", f"v{rng.below(n_in)}", str(rng.below(2))] + inner + ["]"]
                exprs[:] = saved
                # names defined inside are out of scope afterwards: never referenced again (nv keeps growing,
                # operands are drawn below n_in only for the next statement)
                hidden = nv
                st, _ = simple(n_in, True)
                toks += st
            else:
                st, _ = simple(nv, True)
                toks += st
        if rng.chance(1, 3):
            # the same block as the body of a While preceded by a prefix block: loop variables with
            # initial values from the prefix (duplicates included) and loop values from the body
            pre, npre = [], 2
            pexprs = []
            for _ in range(rng.range(0, 3)):
                if pexprs and rng.chance(1, 2):
                    o, a, b = rng.pick(pexprs)
                else:
                    o, a, b = rng.pick(OPS), f"v{rng.below(npre)}", rng.pick([f"v{rng.below(npre)}", f"i{rng.range(0, 5)}"])
                    pexprs.append((o, a, b))
                pre += ["b", f"v{100 + npre}", o, a, b]; npre += 1
            prenames = [f"v{100 + k}" for k in range(2, npre)] + ["v0", "v1", "i0"]
            defs = [tk for k, tk in enumerate(toks) if k > 0 and toks[k - 1] == "b"]
            nl = rng.range(0, 2)
            lvs = []
            for k in range(nl):
                lvs += [f"v{200 + k}", rng.pick(prenames), rng.pick(defs) if defs else "i1"]
            return ["lvnw " + " ".join(pre + ["~", str(nl)] + lvs + ["|"] + toks)]
        if rng.chance(1, 2) and "k" not in toks:
            # the same kind of block through DCE: the value used afterwards is one of the top-level definitions / parameters
            depth, tops = 0, ["v0", "v1"]
            for k_, tk in enumerate(toks):
                if tk in ("[", "{"): depth += 1
                elif tk in ("]", "}"): depth -= 1
                elif tk == "b" and depth == 0: tops.append(toks[k_ + 1])
                elif tk == ";" : pass
            # names bound by final assignments are top-level too
            for k_, tk in enumerate(toks):
                if tk == ";":
                    n_ = int(toks[k_ + 1])
                    tops += [toks[k_ + 2 + 3 * q] for q in range(n_)]
            return [f"dcel {rng.pick(tops)} " + " ".join(toks)]
        return ["lvn " + " ".join(toks)]
    if kind == "dce":
        toks, nv = [], 2
        for _ in range(rng.range(1, 9)):
            def opd():
                return f"v{rng.below(nv)}" if rng.chance(2, 3) else f"i{rng.range(-3, 9)}"
            if rng.chance(1, 4):
                toks += ["p", opd()]
            else:
                toks += ["b", f"v{nv}", rng.pick(OPS), opd(), opd()]
                nv += 1
        if rng.chance(1, 2):
            return ["licm " + " ".join(toks)]       # v0 = loop variable, v1 = parameter
        return [f"dce v{rng.below(nv)} " + " ".join(toks)]
    if kind == "fold":
        op, a, b = rng.pick(OPS), gen_int(rng), gen_int(rng)
        if op in ("shl", "shr") and rng.chance(2, 3):
            b = rng.range(0, 31)
        elif rng.chance(1, 6):
            b = w32(a + rng.pick([0, 0, 1, -1]))       # equal / adjacent operands: comparison boundaries
        return [f"fold {op} {a} {b}", f"tgt {op} {a} {b}"]
    if kind == "merge":
        outer = rng.pick(["add", "mul"] + CMP + ["sub", "xor"])
        inner = rng.pick(["add", "add", "mul", "sub", "add"])
        if outer == "mul" and rng.chance(2, 3): inner = "mul"
        small = rng.chance(1, 2)
        return [f"merge {outer} {inner} {gen_int(rng, small)} {gen_int(rng, small)}"]
    if kind == "trip":
        g = rng.pick(GUARDS)
        if rng.chance(3, 5):
            i0, b = rng.range(-30, 30), rng.range(-30, 30)
            st = rng.range(-4, 6)
        else:
            i0, b, st = gen_int(rng), gen_int(rng), rng.pick([1, -1, 2, -3, 7, 1 << 20, -(1 << 20), MAX, MIN, gen_int(rng)])
        return [f"trip {g} {i0} {st} {b}"]
    if kind in ("flex", "order", "unwrap"):
        return [f"{kind} {rng.pick(OPS)} {gen_expr(rng)} {gen_expr(rng)}"]
    if kind == "ccp":
        op = rng.pick(OPS)
        a, b = gen_operand(rng), gen_operand(rng)
        if rng.chance(1, 4): b = rng.pick(["i0", "i1", a])
        return [f"ccp {op} {a} {b}"]
    if kind == "sr":
        # k basic induction variables with distinct starts, guard on any of them, derived variables of any
        k = rng.range(2, 4)
        starts = rng.shuffle([0, 7, -3, 12, 1, -20, 100, 5, MAX - 3, MIN + 9, 65536])[:k]
        strides = [rng.pick([1, 2, 3, 5, -1, -2, -4, 7, 65536, -30000]) for _ in range(k)]
        gi = rng.below(k)
        if abs(starts[gi]) > 1000: starts[gi] = rng.range(-9, 9)
        if abs(strides[gi]) > 100: strides[gi] = rng.pick([1, -2, 3])
        up = strides[gi] > 0
        g = rng.pick(["lt", "le"]) if up else rng.pick(["gt", "ge"])
        if rng.chance(1, 10): g = rng.pick(GUARDS)
        b = starts[gi] + strides[gi] * rng.range(0, 7) + rng.pick([0, 0, 1, -1])
        nd = rng.range(1, 4)
        ds = []
        for _ in range(nd):
            ds += [rng.below(k), rng.pick([1, 2, 3, -1, -2, 4, 0, 5, 65536, MAX]), rng.pick([0, 1, -3, 4, 7, MAX, MIN])]
        flat = " ".join(f"{a} {b_}" for a, b_ in zip(starts, strides))
        p = f"{g} {b} {gi} {k} {flat} {nd} {' '.join(map(str, ds))} 24"
        return [f"srloop {p}", f"srorig {p}"]
    g = rng.pick(GUARDS)
    i0, b = rng.range(-6, 6), rng.range(-10, 12)
    st = rng.range(1, 3) * (1 if g in ("lt", "le") else -1)
    if rng.chance(1, 8): st = -st
    m = rng.pick([1, 2, 3, 5, -1, -2, 0, 4])
    c = rng.pick([0, 0, 1, -3, 4])
    if rng.chance(1, 12):
        m, st = rng.pick([1 << 20, MAX, 65536]), rng.pick([1 << 12, 65536, 3])
    p = f"{g} {i0} {st} {b} {m} {c} 40"
    return [f"ivloop {p}", f"ivorig {p}"]


# ------------------------------------------------------------------------------------------
# kernel lines: the implementation-side oracle (property itself, no Lean model)
# ------------------------------------------------------------------------------------------

def parse_e(tok):
    """expression token -> ('i'|'j'|'s'|'v', payload)"""
    if tok[0] in "ij" and re.fullmatch(r"[ij]-?\d+", tok):
        return (tok[0], int(tok[1:]))
    if tok[0] in "sv" and tok[1:].isdigit():
        return (tok[0], f"{tok[0]}{int(tok[1:]):02d}")
    return (tok[0], tok)


def val_e(e, rho):
    return e[1] if e[0] in "ij" else rho(e[1])


def valuations(seed_tokens):
    base = [0, 1, -1, 2, MIN, MAX, 7, -13, 65536, MIN + 1]
    for k in range(len(base)):
        yield lambda name, k=k: base[(k + sum(map(ord, name)) * 7) % len(base)]


def fold_would_overflow(op, a, b):
    if op in ("add", "sub", "mul"):
        r = {"add": a + b, "sub": a - b, "mul": a * b}[op]
        return not in_range(r)
    if op in ("div", "mod"):
        return a == MIN and b == -1
    if op in ("shl", "shr"):
        return not (0 <= b < 32)
    return False


def judge_kernel(line, ans):
    """Returns None (fine), ('known', id, detail) or ('bad', message) for one implementation answer."""
    t = line.split()
    k = t[0]
    if ans.startswith("bad-") or ans.startswith("harness") or ans == "unexpected-shape":
        return ("bad", f"harness could not execute `{line}`: {ans}")
    if k == "fold":
        op, a, b = t[1], int(t[2]), int(t[3])
        want = tgt(op, a, b)
        if ans == "panic":
            return ("bad", f"evaluate_bin_op({op}, {a}, {b}) panics (the target computes {'a trap' if want is None else want})")
        if ans == "nofold":
            return None if want is None else None   # declining to fold is always sound
        v = int(ans.split()[1])
        if want is None or v != want:
            return ("bad", f"constant folding: {a} {op} {b} folded to {v}, the target computes {'a trap' if want is None else want}")
        return None
    if k == "tgt":
        op, a, b = t[1], int(t[2]), int(t[3])
        want = tgt(op, a, b)
        got = None if ans == "trap" else int(ans.split()[1])
        if got != want:
            return ("bad", f"oracle interpreters disagree on {a} {op} {b}: harness {got}, python {want}")
        return None
    if k == "merge":
        outer, inner, c1, c2 = t[1], t[2], int(t[3]), int(t[4])
        if ans == "none":
            return None
        if ans == "panic":
            return ("bad", f"merge_binary_expression({outer},{inner},{c1},{c2}) panics")
        _, op, c = ans.split(); c = int(c)
        for x in BOUNDARY + [c2 - c1, c2 - c1 - 1, c2 - c1 + 1, MAX - c1, MAX - c1 + 1, MIN - c1, MIN - c1 - 1]:
            if not in_range(x):
                continue
            y = tgt(inner, x, c1)
            before = None if y is None else tgt(outer, y, c2)
            after = tgt(op, x, c)
            if before != after:
                if outer in ORD and inner == "add" and not in_range(x + c1):
                    return ("known", "C02-F3", f"({x} + {c1}) {outer} {c2} = {before} but merged x {op} {c} = {after}")
                return ("bad", f"merge: (x {inner} {c1}) {outer} {c2} -> x {op} {c} is wrong at x={x}: {before} vs {after}")
        return None
    if k == "trip":
        g, i0, st, b = t[1], int(t[2]), int(t[3]), int(t[4])
        if ans == "none":
            return None
        ovf = (g == "le" and b == MAX) or (g in ("gt", "ge") and MIN in (i0, st)) or (g == "gt" and b == MIN) or (g == "ge" and b in (MIN, MIN + 1))
        # difference guarded - initial of the normalised problem
        ni0, nb = (i0, b) if g == "lt" else (i0, b + 1) if g == "le" else (-i0, -b) if g == "gt" else (-i0, -(b - 1))
        ovf = ovf or (ni0 < nb and not in_range(nb - ni0))
        if ans == "panic":
            return ("bad", f"analyze_number_of_iterations_to_break_guard({i0},{st},{g},{b}) panics")
        n = int(ans.split()[1])
        i, cnt, wrapped = i0, 0, False
        cap = 3000
        while holds(g, i, b) and cnt <= cap:
            if not in_range(i + st): wrapped = True
            i = w32(i + st); cnt += 1
        if cnt > cap and n > cap:
            return None        # too long to simulate
        if cnt > cap and not in_range(i0 + st * n):
            return ("bad", f"trip count {n} for `i {g} {b}` from {i0} step {st}: the counter wraps before the loop is left")
        if cnt != n:
            return ("bad", f"trip count: loop `i {g} {b}` from {i0} step {st} runs {'>' + str(cap) if cnt > cap else cnt} iterations, closed form says {n}")
        return None
    if k in ("flex", "order", "unwrap"):
        op, e1, e2 = t[1], parse_e(t[2]), parse_e(t[3])
        a = ans.split()
        if len(a) != 3:
            return ("bad", f"unparsable answer {ans}")
        op2, f1, f2 = a[0], parse_e(a[1]), parse_e(a[2])
        for rho in valuations(t):
            x = tgt(op, val_e(e1, rho), val_e(e2, rho))
            y = tgt(op2, val_e(f1, rho), val_e(f2, rho))
            if x != y:
                return ("bad", f"{k}: {t[2]} {op} {t[3]} rewritten to {a[1]} {op2} {a[2]} changes the value: {x} vs {y}")
        return None
    if k == "ccp":
        op, e1, e2 = t[1], parse_e(t[2]), parse_e(t[3])
        if ans == "panic":
            return ("bad", f"CCP panics on {line}")
        a = ans.split()
        for rho in valuations(t):
            x = tgt(op, val_e(e1, rho), val_e(e2, rho))
            if a[0] == "bind":
                y = val_e(parse_e(a[1]), rho)
            else:
                y = tgt(a[1], val_e(parse_e(a[2]), rho), val_e(parse_e(a[3]), rho))
            if x != y:
                if a[0] == "bind" and x is None and op in ("div", "mod") and e1 == e2 and e1[0] == "v":
                    return ("known", "C02-F2", f"x {op} x rewritten to {a[1]}: the division-by-zero trap at x=0 disappears")
                return ("bad", f"CCP rule: {t[2]} {op} {t[3]} -> {ans} changes the value: {x} vs {y}")
        return None
    return None


def judge_iv(line_opt, ans_opt, ans_orig):
    """ivloop vs ivorig answers of the implementation: the optimised loop must behave like the original."""
    t = line_opt.split()
    g, i0, st, b, m, c = t[1], *map(int, t[2:7])
    if ans_opt == "panic":
        return ("bad", f"loop optimisation panics on {line_opt}")
    if "fuel" in (ans_opt, ans_orig):
        if ans_opt == ans_orig:
            return None
        single = (c == 0 or m == 1)
        wraps = any(not in_range(m * x + c) for x in (i0, b, i0 + 40 * st))
        if single and m > 0 and (g != "lt" or wraps):
            return ("known", "C02-F4", f"loop {line_opt}: original {ans_orig}, optimised {ans_opt}")
        return ("bad", f"loop termination changed: original `{ans_orig}` optimised `{ans_opt}` for {line_opt}")
    if ans_opt != ans_orig:
        single = (c == 0 or m == 1)
        wraps = any(not in_range(m * x + c) for x in (i0, b, i0 + 40 * st))
        if single and m > 0 and (g != "lt" or wraps):
            return ("known", "C02-F4", f"guard `i {g} {b}`, j = i*{m}+{c}: original `{ans_orig}`, optimised `{ans_opt}`")
        return ("bad", f"loop optimisation changes behaviour of {line_opt}: `{ans_orig}` vs `{ans_opt}`")
    return None


def judge_sr(line_opt, ans_opt, ans_orig):
    """srloop vs srorig answers of the implementation (strength reduction of every derived variable
    of a loop with several basic induction variables must not change the printed trace)."""
    if ans_opt.startswith("bad") or ans_opt == "panic":
        return ("bad", f"loop optimisation fails on {line_opt}: {ans_opt}")
    if ans_opt != ans_orig:
        return ("bad", f"strength reduction changes the trace of {line_opt}: original `{ans_orig}`, optimised `{ans_opt}`")
    return None


def judge_pair(lines, impl, i):
    l, a = lines[i], impl[i]
    nxt = impl[i + 1] if i + 1 < len(impl) else "<missing>"
    if l.startswith("ivloop "):
        return judge_iv(l, a, nxt)
    if l.startswith("srloop "):
        return judge_sr(l, a, nxt)
    return judge_kernel(l, a)


def nontrivial_kernel(line, ans):
    k = line.split()[0]
    if k == "fold": return ans.startswith("v ")
    if k == "merge": return ans.startswith("m ")
    if k == "trip": return ans.startswith("n ") and ans != "n 0"
    if k in ("flex", "order", "unwrap"): return ans != " ".join(line.split()[1:])
    if k == "ccp": return ans.startswith("bind") or ans != "stmt " + " ".join(line.split()[1:])
    if k == "ivloop": return ans.startswith("out ") and not ans.startswith("out - ")
    if k == "srloop": return ans.startswith("out ") and ans != "out -"
    if k in ("licm", "cse", "licmk", "csek"): return not ans.startswith("hoisted -")
    if k == "inl": return " m:" in ans
    if k == "lvnw": return True
    if k == "ivuse": return True
    if k in ("dceuse", "dceloop"): return True
    if k == "ccpif": return ans == "gone"
    if k == "dcel": return len(ans.split()) < len(line.split()) - 2
    if k == "algopt": return ans == "fired"
    if k == "lvn": return ans.count(" b ") + ans.startswith("b ") < line.count(" b ")
    if k == "dce": return line.count(" b ") > (0 if ans == "kept -" else ans.count(",") + 1)
    return False


# ------------------------------------------------------------------------------------------
# MIR programs: generation (AST = nested python lists), printing, shrinking
# ------------------------------------------------------------------------------------------

class Gen:
    """Structured generator of int-only MIR functions. Steers away from the open findings:
    no ordering comparison on values computed by +/- (F3), no x/x (F2), no division with
    loop-invariant operands inside a loop (F6), no identical division in both branches of an
    if (F7), IV-eliminable loops only with `<` guards and positive multipliers (F4), small
    literals and bounds (F1, F5), shift amounts in 0..31 or a raw parameter (F1)."""

    def __init__(self, rng, helpers=0, avoid=frozenset(("C02-F1", "C02-F2", "C02-F3", "C02-F4", "C02-F5", "C02-F6", "C02-F7"))):
        self.avoid = avoid
        self.rng = rng
        self.n = 0
        self.helpers = helpers
        self.bools = set()
        self.exprs = {}          # name -> (op, a, b, tainted) of every generated Binary (for duplicates)
        self.prefer = None       # a freshly duplicated name that the next consumers should use
        self.prefer_left = 0

    def cond(self, scope, out):
        """A boolean-valued condition (MIR reachable from source only branches on 0/1 values):
        an existing comparison result in scope, or a fresh comparison emitted into `out`."""
        r = self.rng
        cands = [v for v, _ in scope if v in self.bools]
        if cands and r.chance(1, 3):
            return r.pick(cands), scope
        n = self.fresh("b")
        if r.chance(1, 2):
            op = r.pick(ORD)
            a, b = self.operand(scope, allow_tainted=False), self.operand(scope, allow_tainted=False)
        else:
            op = r.pick(["eq", "ne"])
            a, b = self.operand(scope), self.operand(scope)
        out.append(["bin", n, op, a, b])
        self.bools.add(n)
        return n, scope + [(n, False)]

    def fresh(self, p="x"):
        self.n += 1
        return f"{p}{self.n}"

    def lit(self):
        if "C02-F1" not in self.avoid and self.rng.chance(1, 8):
            # compile-time arithmetic wraps like the target since the F1 fix: extreme literals are fair game
            return str(self.rng.pick([MAX, MIN + 1, 65536, -65536, 46341, 1 << 30, MAX - 1, 40, -33]))
        return str(self.rng.pick([0, 1, 2, 3, -1, 5, 7, -4, 10, 16]))

    def operand(self, scope, allow_tainted=True, lit_ok=True):
        r = self.rng
        cands = [v for v, t in scope if allow_tainted or not t]
        if self.prefer_left > 0 and self.prefer in cands and r.chance(2, 3):
            self.prefer_left -= 1
            return self.prefer
        if cands and (not lit_ok or r.chance(3, 4)):
            return r.pick(cands)
        return self.lit()

    def is_tainted(self, scope, e):
        return any(v == e and t for v, t in scope)

    def binary(self, scope, in_loop_variant=None, no_div=False):
        r = self.rng
        op = r.weighted([("add", 5), ("sub", 3), ("mul", 4), ("div", 2), ("mod", 2), ("and", 1), ("or", 1), ("xor", 2),
                         ("shl", 1), ("shr", 1), ("lt", 3), ("le", 2), ("gt", 2), ("ge", 2), ("eq", 2), ("ne", 2)])
        if no_div and op in ("div", "mod"):
            op = "mul"
        n = self.fresh()
        if op in ORD:
            a = self.operand(scope, allow_tainted=False)
            b = self.operand(scope, allow_tainted=False)
            self.bools.add(n)
            return ["bin", n, op, a, b], False
        if op in ("shl", "shr"):
            a = self.operand(scope)
            b = r.pick(["p0", "p1"]) if r.chance(1, 3) else str(r.range(0, 31))
            if "C02-F1" not in self.avoid and r.chance(1, 3):
                b = self.operand(scope)
            return ["bin", n, op, a, b], True
        a = self.operand(scope)
        b = self.operand(scope)
        if op in ("div", "mod"):
            if in_loop_variant is not None and "C02-F6" in self.avoid:
                b = r.pick(in_loop_variant)          # divisor varies with the loop: never hoisted
            tries = 0
            while (a == b or b.lstrip("-").isdigit() and int(b) in (0,)) and tries < 8:
                b = self.operand(scope); tries += 1
            if a == b:
                op = "xor"
        if op in ("eq", "ne"):
            self.bools.add(n)
            return ["bin", n, op, a, b], False
        return ["bin", n, op, a, b], True

    def dup_of(self, scope):
        """re-emits a Binary that is available at this point under a fresh name (what LVN/CSE remove)"""
        r = self.rng
        cands = [v for v, _ in scope if v in self.exprs]
        if not cands:
            return None
        o = r.pick(cands)
        op, a, b, taint = self.exprs[o]
        n = self.fresh("u")
        if o in self.bools:
            self.bools.add(n)
        self.exprs[n] = (op, a, b, taint)
        return ["bin", n, op, a, b], taint

    def dup_cluster(self, scope, out, depth):
        """a duplicate computation whose result feeds a consuming position: call argument, operand,
        condition, if/else final assignment, break value, loop initial/loop value, return value"""
        r = self.rng
        kind = r.weighted([("straight", 4), ("iffinal", 3), ("sif", 2), ("loopbreak", 4 if depth < 2 else 0), ("prefer", 4)])
        if kind == "loopbreak":
            i, ni, t1, t2, cc, res = self.fresh("i"), self.fresh("n"), self.fresh("t"), self.fresh("u"), self.fresh("c"), self.fresh("r")
            form = r.pick([("mul", i, i), ("mul", i, str(r.range(2, 5))), ("shl", i, "1"), ("xor", i, "-1")])
            if form[0] == "xor":          # decreasing in i: compare with `lt`
                cmpop, lim = "lt", str(-r.range(4, 30))
            else:
                cmpop, lim = r.pick(["gt", "ge"]), str(r.range(3, 60))
            inner = [["bin", t2, form[0], form[1], form[2]]]
            if r.chance(1, 2):
                inner.append(["call", "print", [t2], "_"])
            inner.append(["brk", t2])
            body = [["bin", t1, form[0], form[1], form[2]], ["bin", cc, cmpop, t1, lim], ["sif", cc, "0", inner],
                    ["call", "print", [i], "_"], ["bin", ni, "add", i, str(r.range(1, 2))]]
            self.bools.add(cc)
            out.append(["while", [[i, str(r.range(0, 3)), ni]], body, res])
            scope.append((res, True))
            return
        d = self.dup_of(scope)
        if d is None:
            s, taint = self.binary(scope)
            self.exprs[s[1]] = (s[2], s[3], s[4], taint)
            out.append(s); scope.append((s[1], taint))
            return
        st, taint = d
        n = st[1]
        if kind == "straight":
            out.append(st); scope.append((n, taint))
            c = r.below(3)
            if c == 0 or not self.helpers:
                out.append(["call", "print", [n], "_"])
            elif c == 1:
                x = self.fresh()
                out.append(["call", f"f{r.range(1, self.helpers)}", [n, self.lit()] if not taint else [self.lit(), self.lit()], x])
                scope.append((x, True))
            if taint or True:
                x = self.fresh()
                out.append(["bin", x, r.pick(["xor", "mul", "and"]), n, self.operand(scope)])
                self.exprs[x] = (out[-1][2], out[-1][3], out[-1][4], True)
                scope.append((x, True))
        elif kind == "iffinal":
            cond, sc = self.cond(scope, out)
            scope[:] = sc
            f = self.fresh("f")
            inner = [st] + ([["call", "print", [n], "_"]] if r.chance(1, 2) else [])
            if r.chance(1, 2):
                out.append(["if", cond, inner, [], [[f, n, self.lit()]]])
            else:
                out.append(["if", cond, [], inner, [[f, self.lit(), n]]])
            scope.append((f, True))
        elif kind == "sif":
            cond, sc = self.cond(scope, out)
            scope[:] = sc
            out.append(["sif", cond, str(r.below(2)), [st, ["call", "print", [n], "_"]]])
        else:
            out.append(st); scope.append((n, taint))
            self.prefer, self.prefer_left = n, 3

    def block(self, scope, depth, n, variant=None, allow_call=True, no_div=False):
        """returns (stmts, new_scope)"""
        r = self.rng
        out = []
        scope = list(scope)
        for _ in range(n):
            k = r.weighted([("bin", 10), ("dup", 5), ("print", 3), ("if", 3 if depth < 2 else 0), ("sif", 1 if depth < 2 else 0),
                            ("while", 3 if depth < 2 else 0), ("call", 2 if (self.helpers and allow_call) else 0), ("not", 1)])
            if k == "dup":
                self.dup_cluster(scope, out, depth)
                continue
            if k == "bin":
                s, taint = self.binary(scope, variant, no_div)
                self.exprs[s[1]] = (s[2], s[3], s[4], taint)
                out.append(s); scope.append((s[1], taint))
            elif k == "not":
                cands = [v for v, t in scope if v in self.bools]
                n_ = self.fresh()
                self.bools.add(n_)
                out.append(["not", n_, r.pick(cands) if cands else "1"]); scope.append((n_, False))
            elif k == "print":
                out.append(["call", "print", [self.operand(scope)], "_"])
            elif k == "call":
                args = [self.operand(scope, allow_tainted=False) for _ in range(2)]
                if args[0] == args[1] and "C02-F2" in self.avoid:
                    args[1] = self.lit()         # f(x, x) inlines to x / x
                n_ = self.fresh()
                out.append(["call", f"f{r.range(1, self.helpers)}", args, n_]); scope.append((n_, True))
            elif k == "if":
                cond, scope = self.cond(scope, out)
                s1, sc1 = self.block(scope, depth + 1, r.range(0, 3), variant, allow_call, no_div)
                s2, sc2 = self.block(scope, depth + 1, r.range(0, 3), variant, allow_call, no_div=(no_div or "C02-F7" in self.avoid))
                if "C02-F7" not in self.avoid and r.chance(1, 4):
                    # the same possibly-trapping division in both branches, after an effect in each
                    a_, b_ = self.operand(scope), self.operand(scope)
                    if a_ != b_:
                        o_ = r.pick(["div", "mod"])
                        s1 = [["call", "print", [self.lit()], "_"], ["bin", self.fresh(), o_, a_, b_]] + s1
                        s2 = [["call", "print", [self.lit()], "_"], ["bin", self.fresh(), o_, a_, b_]] + s2
                fas = []
                for _ in range(r.range(0, 2)):
                    n_ = self.fresh("f")
                    e1 = self.operand(sc1); e2 = self.operand(sc2)
                    fas.append([n_, e1, e2])
                    scope.append((n_, True))
                out.append(["if", cond, s1, s2, fas])
            elif k == "sif":
                cond, scope = self.cond(scope, out)
                s1, _ = self.block(scope, depth + 1, r.range(1, 2), variant, allow_call, no_div)
                out.append(["sif", cond, str(r.below(2)), s1])
            elif k == "while":
                w, res = self.loop(scope, depth)
                if w[0] == "seq":
                    out += w[1]
                else:
                    out.append(w)
                if res:
                    scope.append((res, True))
        return out, scope

    def loop(self, scope, depth):
        r = self.rng
        kind = r.weighted([("count", 4), ("empty", 3), ("obs", 2), ("multi", 6), ("nestinit", 3 if depth < 2 else 0)])
        if kind == "nestinit":
            return self.nested_init_loop(scope, depth)
        if kind == "multi":
            return self.multi_loop(scope, depth)
        g = r.pick(GUARDS)
        inv = {"lt": "ge", "le": "gt", "gt": "le", "ge": "lt"}[g]
        up = g in ("lt", "le")
        i0 = r.range(-5, 5)
        bound = i0 + r.range(-2, 12) if up else i0 - r.range(-2, 12)
        step = r.range(1, 3) if up else -r.range(1, 3)
        i, ni, cc, res = self.fresh("i"), self.fresh("n"), self.fresh("c"), self.fresh("r")
        i0e = str(i0)
        be = str(bound)
        if r.chance(1, 5):
            i0e = r.pick(["p0", "p1"])
        elif r.chance(1, 5):
            be = r.pick(["p0", "p1"])
        if kind == "empty" and "C02-F5" not in self.avoid and r.chance(1, 4):
            far = r.pick([MAX, MAX - 1, MAX - 7]) if up else r.pick([MIN, MIN + 1, MIN + 6])
            i0e = str(far - r.range(0, 9) * step)
            be = str(far)
        if kind == "empty":
            # algebraic optimisation candidates: nothing but the counter (and a second counter)
            lvs = [[i, i0e, ni]]
            body = [["bin", cc, inv, i, be], ["sif", cc, "0", None]]
            brk = i
            if r.chance(1, 2):
                k_, nk = self.fresh("k"), self.fresh("n")
                lvs.append([k_, self.lit(), nk])
                body.append(["bin", nk, "add", k_, str(r.range(-3, 4))])
                brk = r.pick([i, k_, k_, self.lit()])
            elif r.chance(1, 4):
                brk = self.lit()
            body[1][3] = [["brk", brk]]
            body.append(["bin", ni, "add", i, str(step)])
            return ["while", lvs, body, res], res
        if kind == "obs":
            # IV-elimination candidates, restricted to the shapes for which the transformation is right
            m = r.range(1, 5)
            last, j = self.fresh("l"), self.fresh("j")
            step_, i0_ = r.range(1, 3), r.range(-3, 3)
            bnd = i0_ + r.range(-1, 9)
            c = r.range(-4, 4)
            if r.chance(1, 2):
                d = ["bin", j, "mul", i, str(m)]
            else:
                d = ["bin", j, "add", i, str(c)]
            body = [["bin", cc, "ge", i, str(bnd)], ["sif", cc, "0", [["brk", last]]],
                    ["call", "print", [last], "_"], d, ["bin", ni, "add", i, str(step_)]]
            return ["while", [[i, str(i0_), ni], [last, self.lit(), j]], body, res], res
        # general counting loop; `i` is always used by the body so IV elimination stays out
        acc, nacc = self.fresh("a"), self.fresh("n")
        inner_scope = list(scope) + [(i, True), (acc, True)]
        body = [["bin", cc, inv, i, be], ["sif", cc, "0", [["brk", acc]]]]
        mid, sc = self.block(inner_scope, depth + 1, r.range(0, 3), variant=[i, acc], allow_call=True)
        body += mid
        if "C02-F6" not in self.avoid and r.chance(1, 3):
            body.append(["bin", self.fresh("q"), r.pick(["div", "mod"]), self.operand(scope), r.pick(["p0", "p1"])])
        body.append(["call", "print", [i], "_"])     # an effect that uses `i`: the counter is never eliminable
        if r.chance(1, 3):
            # the loop value is a duplicate of a value computed earlier in the same iteration
            op_, x_ = r.pick(["xor", "mul", "and"]), self.operand(sc)
            d1 = self.fresh("d")
            body.append(["bin", d1, op_, acc, x_])
            body.append(["call", "print", [d1], "_"])
            body.append(["bin", nacc, op_, acc, x_])
        else:
            body.append(["bin", nacc, r.pick(["add", "add", "xor", "mul", "sub"]), acc, self.operand(sc)])
        body.append(["bin", ni, "add", i, str(step)])
        return ["while", [[i, i0e, ni], [acc, self.operand(scope), nacc]], body, res], res

    def nested_init_loop(self, scope, depth):
        """IV-elimination candidate (guard `<`, one dead derived value i*m / i+c feeding another loop
        variable) whose ONLY other mention of the counter is inside a nested loop: as initial value
        of an inner loop variable, as its loop value, in the inner guard, or in the inner body."""
        r = self.rng
        i, ni, last, j, acc, nacc, cc, res = (self.fresh(x) for x in ("i", "n", "l", "j", "a", "n", "c", "r"))
        k, nk, s_, ns, c2, r2 = (self.fresh(x) for x in ("k", "n", "s", "n", "c", "r"))
        i0, trip, step = r.range(-2, 3), r.range(0, 6), r.range(1, 2)
        bound = i0 + trip * step
        derived = ["bin", j, "mul", i, str(r.range(1, 4))] if r.chance(1, 2) else ["bin", j, "add", i, str(r.range(-3, 5))]
        where = r.pick(["init", "init", "loopvalue", "guard", "body", "none"])
        kinit = i if where == "init" else str(r.range(-2, 2))
        inner_bound = i if where == "guard" else str(r.range(2, 7))
        inner_body = [["bin", c2, "ge", k, inner_bound], ["sif", c2, "0", [["brk", s_]]]]
        if where == "body":
            inner_body.append(["bin", ns, "add", s_, i])
        else:
            inner_body.append(["bin", ns, "add", s_, k])
        if where == "loopvalue":
            x = self.fresh("x")
            inner_body.append(["bin", x, "add", k, "1"])
            # the inner counter advances by one, a second inner variable takes the OUTER counter as loop value
            inner = ["while", [[k, kinit, x], [s_, "0", ns], [self.fresh("w"), "0", i]], inner_body, r2]
        else:
            inner_body.append(["bin", nk, "add", k, "1"])
            inner = ["while", [[k, kinit, nk], [s_, "0", ns]], inner_body, r2]
        t_ = self.fresh("t")
        body = [["bin", cc, "ge", i, str(bound)], ["sif", cc, "0", [["brk", acc]]], inner,
                ["bin", t_, "add", acc, last], ["bin", nacc, "add", t_, r2], derived, ["bin", ni, "add", i, str(step)]]
        return ["while", [[i, str(i0), ni], [last, "0", j], [acc, self.lit(), nacc]], body, res], res

    def multi_loop(self, scope, depth):
        """General induction-variable family: k basic IVs with distinct initial values (literals,
        parameters, earlier values), strides of either sign, a guard on any one of them, derived
        variables m*iv+c / (iv+a)*m / iv+c of any of them, live in prints, calls, accumulators and
        the break value."""
        r = self.rng
        k = r.range(2, 3)
        ivs, lvs, pre = [], [], []
        used_inits = set()
        for t in range(k):
            v, nv = self.fresh("v"), self.fresh("n")
            while True:
                init = r.weighted([("lit", 4), ("param", 3), ("scope", 2)])
                if init == "lit": e = str(r.range(-9, 9))
                elif init == "param": e = r.pick(["p0", "p1"])
                else: e = self.operand(scope, lit_ok=False) if scope else "p0"
                if e not in used_inits:
                    used_inits.add(e); break
            st = r.pick([1, 2, 3, 5, -1, -2, -4, 7])
            ivs.append((v, nv, e, st)); lvs.append([v, e, nv])
        gi = r.below(k)
        gv, _, ginit, gst = ivs[gi]
        up = gst > 0
        safe_f4 = "C02-F4" in self.avoid
        print_guard = r.chance(1, 2)
        if safe_f4 and not print_guard:
            # the guarded counter may become eliminable: only the shape for which IV elimination is right
            if not up:
                gst = -gst; up = True
                ivs[gi] = (gv, ivs[gi][1], ginit, gst)
            g = "lt"
        else:
            g = r.pick(["lt", "le"]) if up else r.pick(["gt", "ge"])
        inv = {"lt": "ge", "le": "gt", "gt": "le", "ge": "lt"}[g]
        trip = r.range(0, 9)
        cc, res = self.fresh("c"), self.fresh("r")
        if ginit.lstrip("-").isdigit():
            be = str(int(ginit) + gst * trip)
        else:
            # symbolic start: bound = start + stride*trip computed before the loop (loop invariant)
            bv = self.fresh("b")
            pre.append(["bin", bv, "add", ginit, str(gst * trip)])
            be = bv
        acc, nacc = self.fresh("a"), self.fresh("n")
        lvs.append([acc, self.operand(scope), nacc])
        body = [["bin", cc, inv, gv, be], ["sif", cc, "0", None]]
        if print_guard:
            body.append(["call", "print", [gv], "_"])
        live = []
        for _ in range(r.range(1, 4)):
            base = r.pick(ivs)[0]
            if safe_f4 and not print_guard and not ginit.lstrip("-").isdigit():
                # symbolic start: m*i + c may wrap for extreme arguments (F4: no overflow reasoning)
                base = r.pick([v for v in ivs if v[0] != gv])[0]
            if safe_f4 and not print_guard and base == gv:
                m = r.pick([1, 2, 3, -1, 0, -2])     # zero/negative literal multipliers are declined since fix d2fa066
            else:
                m = r.pick([1, 2, 3, -1, -2, 4, 0, 5])
            c = r.pick([0, 1, -3, 4, 7, -1])
            form = r.below(4)
            d = self.fresh("d")
            if form == 0:
                t_ = self.fresh("t"); body += [["bin", t_, "mul", base, str(m)], ["bin", d, "add", t_, str(c)]]
            elif form == 1:
                body.append(["bin", d, "add", base, str(c)])
            elif form == 2:
                body.append(["bin", d, "mul", base, str(m)])
            else:
                t_ = self.fresh("t"); body += [["bin", t_, "add", base, str(c)], ["bin", d, "mul", t_, str(m)]]
            live.append(d)
            use = r.below(4)
            if use == 0: body.append(["call", "print", [d], "_"])
            elif use == 1 and self.helpers: body.append(["call", f"f{r.range(1, self.helpers)}", [d, str(r.range(0, 3))], "_"])
            elif use == 2: body.append(["call", "print", [d, base], "_"])
        body.append(["bin", nacc, r.pick(["add", "xor", "sub"]), acc, r.pick(live)])
        for v, nv, _, st in ivs:
            body.append(["bin", nv, "add", v, str(st)])
        body[1][3] = [["brk", r.pick([acc, acc, r.pick(ivs)[0]])]]
        w = ["while", lvs, body, res]
        if pre:
            return ["seq", pre + [w]], res
        return w, res

    def function(self, name, nparams, size):
        scope = [(f"p{k}", False) for k in range(nparams)]
        body, sc = self.block(scope, 0, size, allow_call=(name == "f0"), no_div=(name != "f0" and "C02-F6" in self.avoid))
        ret = self.operand(sc, lit_ok=False)
        if self.rng.chance(1, 4):
            d = self.dup_of([x for x in sc if x in [(v, t) for v, t in sc][:len(sc)] and any(st[0] == "bin" and st[1] == x[0] for st in body)])
            if d is not None:
                body.append(d[0]); ret = d[0][1]
        return ["fn", name, nparams, body, ret]


def pp_stmts(ss):
    out = []
    for s in ss:
        k = s[0]
        if k == "bin": out.append(f"bin {s[1]} {s[2]} {s[3]} {s[4]}")
        elif k == "not": out.append(f"not {s[1]} {s[2]}")
        elif k == "call": out.append(f"call {s[1]} {len(s[2])} {' '.join(s[2])} {s[3]}".replace("  ", " "))
        elif k == "if":
            fas = " ".join(f"{n} {a} {b}" for n, a, b in s[4])
            out.append(f"if {s[1]} {{ {pp_stmts(s[2])} }} {{ {pp_stmts(s[3])} }} {len(s[4])} {fas}".rstrip())
        elif k == "sif": out.append(f"sif {s[1]} {s[2]} {{ {pp_stmts(s[3])} }}")
        elif k == "brk": out.append(f"brk {s[1]}")
        elif k == "struct": out.append(f"struct {s[1]} {len(s[2])} {' '.join(s[2])}".rstrip())
        elif k == "idx": out.append(f"idx {s[1]} {s[2]} {s[3]}")
        elif k == "isp": out.append(f"isp {s[1]} {s[2]}")
        elif k == "cast": out.append(f"cast {s[1]} {s[2]}")
        elif k == "clo": out.append(f"clo {s[1]} {s[2]} {s[3]}")
        elif k == "icall": out.append(f"icall {s[1]} {len(s[2])} {' '.join(s[2])} {s[3]}".replace("  ", " "))
        elif k == "while":
            lvs = " ".join(f"{n} {a} {b}" for n, a, b in s[1])
            out.append(f"while {len(s[1])} {lvs} {{ {pp_stmts(s[2])} }} {s[3] or '_'}")
    return " ".join(out)


def pp_program(fns):
    return " ".join(f"fn {f[1]} {f[2]} {pp_stmts(f[3])} ret {f[4]} end" for f in fns)


def gen_program(rng, avoid=None):
    helpers = rng.pick([0, 0, 1, 2])
    g = Gen(rng, helpers) if avoid is None else Gen(rng, helpers, avoid)
    fns = [g.function("f0", 2, rng.range(2, 7))]
    for h in range(1, helpers + 1):
        gh = Gen(rng.fork(), 0, g.avoid); gh.n = 100 * h
        fns.append(gh.function(f"f{h}", 2, rng.range(1, 4)))
    return fns


def nested_source(r):
    """outer tail-recursive loop whose body calls a small tail-recursive helper started from the outer
    counter and a tiny helper computing a derived value: after inlining the helper loop is NESTED in the
    outer loop and its initial value reads the outer counter (nested loops only arise this way)."""
    m, b, b2 = r.range(2, 4), r.range(3, 7), r.range(3, 8)
    start_from = r.pick(["i", "i", "i + 1", "0"])
    derived = r.pick([f"Main.scale(i)", f"i * {m}", f"i + {m}"])
    return (f"  function scale(x: int): int = x * {m}\n\n"
            "  function inner(k: int, m: int, acc: int): int =\n"
            "    if k >= m { acc } else { Main.inner(k + 1, m, acc + k) }\n\n"
            "  function outer(i: int, j: int, acc: int): int =\n"
            f"    if i >= {b} {{ acc }} else {{ Main.outer(i + 1, {derived}, acc + j + Main.inner({start_from}, {b2}, 0)) }}\n\n"
            # loops with an otherwise empty body that carry non-induction loop variables (closed-form elimination
            # must decline): passed through, set to a constant, swapped; read after the loop
            f"  function hold(i: int, x: int): int = if i >= {b + 4} {{ x }} else {{ Main.hold(i + 1, x) }}\n\n"
            f"  function seen(i: int, ran: int, budget: int): int = if i >= {b + 3} {{ ran }} else {{ Main.seen(i + 1, 1, budget + 3) }}\n\n"
            f"  function swp(i: int, u: int, w: int): int = if i > {b} {{ u }} else {{ Main.swp(i + 2, w, u) }}\n\n"
            f"  function down(i: int, x: int, k: int): int = if i <= 0 - {b2} {{ x + k }} else {{ Main.down(i - 1, x, k + 2) }}\n")


def gen_source(rng, avoid, nested=False):
    """A small samlang module whose tail-recursive functions become `while` loops through the real
    front end (mir_tail_recursion_rewrite): k counters with distinct starts and strides of either
    sign, a guard on one of them (either branch order, all four comparison kinds), derived values
    m*iv+c of any counter printed / accumulated / returned. Returns (text, description)."""
    r = rng
    fns = []
    nw = r.range(1, 2)
    wsig = []
    for w in range(nw):
        k = r.range(2, 3)
        names = ["i", "j", "k"][:k]
        strides = [r.pick([1, 2, 3, -1, -2, 5, -4]) for _ in names]
        gi = r.below(k)
        print_guard = r.chance(1, 2)
        if "C02-F4" in avoid and not print_guard:
            strides[gi] = abs(strides[gi])
            cont = "<"
        else:
            cont = r.pick(["<", "<="]) if strides[gi] > 0 else r.pick([">", ">="])
        brk = {"<": ">=", "<=": ">", ">": "<=", ">=": "<"}[cont]
        body = []
        if print_guard:
            body.append(f"let _ = Process.println(Str.fromInt({names[gi]}));")
        accs = []
        for _ in range(r.range(1, 3)):
            b = r.below(k)
            if "C02-F4" in avoid and not print_guard and b == gi:
                m = r.pick([1, 2, 3])
            else:
                m = r.pick([1, 2, 3, -1, -2, 4, 5])
            c = r.pick([0, 1, -3, 4, 7])
            e = r.pick([f"{names[b]} * {m} + {c}", f"{names[b]} + {c}", f"{names[b]} * {m}", f"({names[b]} + {c}) * {m}"]).replace("+ -", "- ")
            if r.chance(2, 3):
                body.append(f"let _ = Process.println(Str.fromInt({e}));")
            else:
                accs.append(e)
        acc_next = "acc" + "".join(f" + ({e})" for e in accs)
        rec = ", ".join(f"{n} {'+' if st > 0 else '-'} {abs(st)}" for n, st in zip(names, strides))
        params = ", ".join(f"{n}: int" for n in names)
        then_break = r.chance(1, 2)
        lit_bound = None if r.chance(1, 3) else (r.range(-4, 12) if strides[gi] > 0 else r.range(-12, 4))
        nparam, narg, bnd = ("n: int, ", "n, ", "n") if lit_bound is None else ("", "", str(lit_bound))
        loop_part = "{\n      " + "\n      ".join(body) + f"\n      Main.w{w}({rec}, {narg}{acc_next})\n    }}"
        if then_break:
            text = f"  function w{w}({params}, {nparam}acc: int): int =\n    if {names[gi]} {brk} {bnd} {{ acc }} else {loop_part}\n"
        else:
            text = f"  function w{w}({params}, {nparam}acc: int): int =\n    if {names[gi]} {cont} {bnd} {loop_part} else {{ acc }}\n"
        fns.append(text)
        wsig.append((k, gi, strides[gi], lit_bound))
    # a function whose exit value recomputes the expression of its exit test (and/or logs it first):
    # after the tail-recursion rewrite the break value is a statement result that duplicates an
    # available value
    extra = None
    if r.chance(2, 3):
        m, c = r.range(1, 4), r.range(0, 5)
        e = r.pick(["i * i", f"i * {m} + {c}", f"i * {m}", f"(i + {c}) * {m}", "i * j"])
        cmp_ = r.pick([">", ">="])
        log = f"let _ = Process.println(Str.fromInt({e}));\n      " if r.chance(1, 2) else ""
        step_print = "let _ = Process.println(Str.fromInt(i));\n      " if r.chance(1, 2) else ""
        if r.chance(1, 2):
            text = (f"  function e0(i: int, j: int, n: int): int =\n    if {e} {cmp_} n {{\n      {log}{e}\n    }} else {{\n      "
                    f"{step_print}Main.e0(i + 1, j + 1, n)\n    }}\n")
        else:
            neg = {">": "<=", ">=": "<"}[cmp_]
            text = (f"  function e0(i: int, j: int, n: int): int =\n    if {e} {neg} n {{\n      "
                    f"{step_print}Main.e0(i + 1, j + 1, n)\n    }} else {{\n      {log}{e}\n    }}\n")
        fns.append(text)
        extra = f"Main.e0({r.pick(['0', '1', 'a', '2'])}, {r.pick(['1', '2', 'b', '3'])}, {r.range(3, 90)})"
    if nested:
        fns.append(nested_source(r))
    # run(a, b): distinct, partly symbolic starting values
    lines = []
    for w, (k, gi, gst, lit_bound) in enumerate(wsig):
        # the guarded counter starts from a small value (literal or `a`), the bound is a literal: the real
        # lowering turns a parameter bound into a loop variable, which switches loop optimisation off
        pool = r.shuffle(["b", "b - 3", "b + 11", "a * 2", "a + b", str(r.range(-6, 6)), "b * 3"])
        starts = [pool[t] for t in range(k)]
        starts[gi] = r.pick(["a", "a + 7", str(r.range(-6, 6)), "a - 2"])
        trip = r.range(0, 8)
        barg = "" if lit_bound is not None else f"({starts[gi]}) + {gst * trip}, ".replace("+ -", "- ")
        lines.append(f"let r{w} = Main.w{w}({', '.join(starts)}, {barg}{r.range(-2, 2)});")
        lines.append(f"let _ = Process.println(Str.fromInt(r{w}));")
    ret = " + ".join(f"r{w}" for w in range(nw))
    if nested:
        lines.append("let y0 = Main.outer(a - a, 0, 0);")
        lines.append("let _ = Process.println(Str.fromInt(y0));")
        lines.append("let y1 = Main.hold(0, b) + Main.hold(3, 5) + Main.seen(0, 0, a) + Main.swp(1, a, b) + Main.down(2, b, a);")
        lines.append("let _ = Process.println(Str.fromInt(y1));")
        ret += " + y0 + y1"
    if extra:
        lines.append(f"let x0 = {extra};")
        lines.append("let _ = Process.println(Str.fromInt(x0));")
        ret += " + x0"
    fns.append("  function run(a: int, b: int): int = {\n    " + "\n    ".join(lines) + f"\n    {ret}\n  }}\n")
    calls = []
    grid = [(0, 0), (1, 2), (-1, 3), (7, -8), (60, 5), (-40, 40), (-7, 1000000), (3, 2000000), (5, -2147483647)]
    for a, b in r.shuffle(grid)[:4]:
        calls.append(f"let _ = Process.println(Str.fromInt(Main.run({a}, {b})));")
    fns.append("  function main(): unit = {\n    " + "\n    ".join(calls) + "\n  }\n")
    return "class Main {\n" + "\n".join(fns) + "}\n"


def gen_source_e2e(rng):
    """Programs for the end-to-end stream (real compile_sources vs un-optimised build, run under Node):
    counted tail-recursive loops with derived values, lambdas called inside the loop (0-3 calls per
    iteration), a method reference passed as a function value, call results that are not used."""
    r = rng
    ncalls = r.range(0, 3)
    m, c = r.range(2, 5), r.range(0, 4)
    bound = r.range(3, 12)
    calls = ["f(i * %d)" % m, "g(acc)", "f(i + %d)" % c][:ncalls]
    acc_next = "acc" + "".join(f" + {x}" for x in calls) + (f" + i * {m}" if r.chance(1, 2) or not calls else "")
    body = []
    if r.chance(2, 3):
        body.append(f"let _ = Process.println(Str.fromInt(i * {m} + {c}));")
    if r.chance(1, 2):
        body.append("let _ = Main.helper(i);")                       # unused call result
    if r.chance(1, 2):
        body.append("let _ = Main.boxed(i);")                        # unused pointer-typed result
    if r.chance(1, 3) and ncalls:
        body.append("let _ = Process.println(Str.fromInt(g(i)));")
    walk = ("  function walk(f: (int) -> int, g: (int) -> int, i: int, acc: int): int =\n"
            f"    if i >= {bound} {{\n      acc\n    }} else {{\n      " + "\n      ".join(body) +
            f"\n      Main.walk(f, g, i + {r.range(1, 2)}, {acc_next})\n    }}\n")
    second = ""
    call2 = ""
    if r.chance(1, 2):
        second = ("  function count(i: int, j: int, acc: int): int =\n"
                  f"    if i < {r.range(4, 9)} {{\n      Main.count(i + 1, j + {r.range(2, 6)}, acc + (j * {r.range(2, 4)} + 1))\n    }} else {{ acc }}\n")
        call2 = "    let _ = Process.println(Str.fromInt(Main.count(start, start + 7, 0)));\n"
    helper = "  function helper(x: int): int = x * 2 + 1\n\n  function boxed(x: int): Str = Str.fromInt(x)\n\n" + nested_source(r)
    call2 += "    let _ = Process.println(Str.fromInt(Main.outer(start, 0, 0)));\n"
    call2 += "    let _ = Process.println(Str.fromInt(Main.hold(0, k) + Main.hold(3, 5) + Main.seen(0, 0, k) + Main.swp(1, k, start) + Main.down(2, k, start)));\n"
    lam = r.pick(["(x0) -> x0 * 2 + k", "(x0) -> x0 + k", "(x0) -> k - x0"])
    gval = r.pick(["Main.helper", "(y0) -> y0 + 1", "(y0) -> Main.helper(y0) - k"])
    main = ("  function main(): unit = {\n    let start = \"0\".toInt();\n    let k = \"7\".toInt();\n"
            f"    let _ = Process.println(Str.fromInt(Main.walk({lam}, {gval}, start, {r.range(0, 3)})));\n" + call2 +
            "    Process.println(\"done\")\n  }\n")
    return "class Main {\n" + walk + "\n" + second + "\n" + helper + "\n" + main + "}\n"


def gen_source_rich_nostr(rng):
    """the same family without string literals (for the harness MIR interpreter, which models strings
    only as Str.fromInt(x) fed to Process.println)"""
    t = gen_source_rich(rng)
    t = t.replace('let start = "0".toInt();', "let start = 0;")
    t = re.sub(r'let k = "(\d+)".toInt\(\);', r"let k = \1;", t)
    t = t.replace('    Process.println("done")\n', "    {  }\n")
    return t


def gen_source_rich(rng, strings=True):
    """Deterministic family (structure fixed, constants vary): loops whose bodies contain every MIR
    statement kind the optimiser dispatches on — struct allocation and field reads (StructInit,
    IndexedAccess; non-escaping structs for scalar replacement; the same field read in both branches
    for CSE), enum construction and matching (IsPointer, Cast, LateInit), closures created and called
    in the loop (ClosureInit, indirect calls), boolean if/else values (CCP's 1/0 and 0/1 final
    assignments), a loop that leaves in its first iteration, generics, unused results."""
    r = rng
    m, c, n1, n2, n3 = r.range(2, 4), r.range(0, 3), r.range(3, 6), r.range(4, 7), r.range(2, 5)
    return f"""class Pair(val a: int, val b: int) {{
  method sum(): int = this.a + this.b

  method swap(): Pair = Pair.init(this.b, this.a)
}}

class Box<T>(val v: T) {{
  method get(): T = this.v
}}

class Opt(Some(int), None(unit)) {{
  function of(x: int): Opt = if x % 2 == 0 {{ Opt.Some(x) }} else {{ Opt.None({{  }}) }}

  method getOr(d: int): int =
    match this {{
      Some(v) -> v,
      None(_) -> d,
    }}
}}

class Color(Red, Green, Custom(int, int)) {{
  function of(x: int): Color =
    if x % 3 == 0 {{ Color.Red() }} else {{ if x % 3 == 1 {{ Color.Green() }} else {{ Color.Custom(x, x + {c}) }} }}

  method weight(): int =
    match this {{
      Red -> 1,
      Green -> 2,
      Custom(a, b) -> a * b,
    }}

  method isRed(): bool =
    match this {{
      Red -> true,
      _ -> false,
    }}
}}

class Wrap(Only(Pair), Nothing) {{
  method total(): int =
    match this {{
      Only(p) -> p.sum(),
      Nothing -> 0 - 1,
    }}
}}

class Main {{
  function colors(i: int, n: int, prev: Color, acc: int): int =
    if i >= n {{
      acc + prev.weight()
    }} else {{
      let col = Color.of(i);
      let w = if i % 2 == 0 {{ col.weight() + prev.weight() }} else {{ col.weight() - prev.weight() }};
      let wr = if i % 2 == 0 {{ Wrap.Only(Pair.init(i, w)) }} else {{ Wrap.Nothing() }};
      let tmp = Pair.init(i, w);
      let z = tmp.a + tmp.b;
      let dbl = col.weight() * col.weight();
      let nb = !(i > 3);
      let redBonus = if col.isRed() && nb {{ 40 }} else {{ 0 }};
      let _ = Process.println(Str.fromInt(w + wr.total() + z + dbl + redBonus + Main.blk(i)));
      Main.colors(i + 1, n, col, acc + w)
    }}

  function structs(i: int, n: int, base: Pair, acc: int): int =
    if i >= n {{
      acc
    }} else {{
      let p = Pair.init(i, i * {m} + {c});
      let q = if i % 2 == 0 {{ Pair.init(base.a, i) }} else {{ Pair.init(base.a, i + 1) }};
      let w = p.swap();
      let bx = Box.init(i + {c});
      let np = Pair.init(i + 1, acc);
      let viaFields = np.a * 2 + np.b + base.b;
      let _ = Process.println(Str.fromInt(p.sum() + q.a + base.b + w.a + bx.get() + viaFields));
      let _ = Pair.init(acc, acc);
      Main.structs(i + 1, n, base, acc + p.b + q.b)
    }}

  function escape(i: int, n: int, last: Pair): Pair =
    if i >= n {{ last }} else {{ Main.escape(i + 1, n, Pair.init(last.b, last.a + i)) }}

  function enums(i: int, n: int, acc: int): int =
    if i >= n {{
      acc
    }} else {{
      let o = Opt.of(i);
      let none = Opt.None({{  }});
      let big = i > 2;
      let flag = if big {{ 1 }} else {{ 0 }};
      let nflag = if big {{ 0 }} else {{ 1 }};
      let isBig = if big {{ true }} else {{ false }};
      let notBig = if big {{ false }} else {{ true }};
      let extra = if isBig && !notBig {{ 5 }} else {{ 6 }};
      let _ = Process.println(Str.fromInt(o.getOr(0 - 1) + flag * 10 + nflag * 100 + none.getOr({c}) + extra));
      Main.enums(i + 1, n, acc + o.getOr(7))
    }}

  function walkOpt(o: Opt, i: int, acc: int): int =
    match o {{
      None(_) -> acc,
      Some(v) -> if i >= {n3} {{ acc + v }} else {{ Main.walkOpt(Opt.of(i + v), i + 1, acc + v) }},
    }}

  function closures(i: int, n: int, k: int, acc: int): int =
    if i >= n {{
      acc
    }} else {{
      let f = (x: int) -> x * k + 1;
      let g = (x: int) -> x + i;
      let h = (x: int) -> x + {m};
      let made = Main.mk(i);
      let _ = Process.println(Str.fromInt(f(i) + g(2) + h(i) + Main.app(made, 3) + Main.app(f, i)));
      Main.closures(i + 1, n, k, acc + f(g(i)))
    }}

  function once(i: int, acc: int): int = if i >= 0 {{ acc + i }} else {{ Main.once(i + 1, acc) }}

  function noisyFalse(x: int): bool = {{
    let _ = Process.println(Str.fromInt(x + 1000));
    false
  }}

  function noisyTrue(x: int): bool = {{
    let _ = Process.println(Str.fromInt(x + 2000));
    true
  }}

  function checked(c: bool, x: int): bool =
    if c {{ true }} else {{
      let _ = Process.println(Str.fromInt(x + 3000));
      false
    }}

  function checkedNot(c: bool, x: int): bool =
    if c {{
      let _ = Process.println(Str.fromInt(x + 4000));
      false
    }} else {{ true }}

  function bools(i: int, n: int, acc: int): int =
    if i >= n {{
      acc
    }} else {{
      let a = i % 2 == 0;
      let r1 = a || Main.noisyFalse(i);
      let r2 = a && Main.noisyTrue(i);
      let r3 = Main.checked(a, i);
      let r4 = Main.checkedNot(a, i);
      let r5 = if a {{ true }} else {{ let _ = Process.println(Str.fromInt(i + 5000)); false }};
      let s = (if r1 {{ 1 }} else {{ 0 }}) + (if r2 {{ 2 }} else {{ 0 }}) + (if r3 {{ 4 }} else {{ 0 }}) + (if r4 {{ 8 }} else {{ 0 }}) + (if r5 {{ 16 }} else {{ 0 }});
      Main.bools(i + 1, n, acc + s)
    }}

  function mk(k: int): (int) -> int = (x: int) -> x + k

  function go(i: int, f: (int) -> int, acc: int): int =
    if i >= {n1} {{ acc }} else {{ Main.go(i + 1, Main.mk(i), f(acc)) }}

  function keep(i: int, f: (int) -> int, acc: int): int =
    if i >= {n1} {{ acc }} else {{ Main.keep(i + 1, f, f(acc)) }}

  function pairs(i: int, p: Pair, acc: int): int =
    if i >= {n3} {{ acc }} else {{ Main.pairs(i + 1, Pair.init(acc, i), acc + p.b) }}

  function cols(i: int, col: Color, acc: int): int =
    if i >= {n2} {{ acc }} else {{ Main.cols(i + 1, Color.of(i + acc), acc + col.weight()) }}

  function app(f: (int) -> int, x: int): int = f(x)

  function blk(x: int): int = {{
    let y = {{
      let z = x + 1;
      z * 2
    }};
    y + 1
  }}

  function hp(x: int): int = x + 1

  function big(x: int): int = {{
    let a0 = Main.hp(x);\n    let a1 = Main.hp(a0);\n    let a2 = Main.hp(a1);\n    let a3 = Main.hp(a2);\n    let a4 = Main.hp(a3);\n    let a5 = Main.hp(a4);\n    let a6 = Main.hp(a5);\n    let a7 = Main.hp(a6);\n    let a8 = Main.hp(a7);\n    let a9 = Main.hp(a8);\n    let a10 = Main.hp(a9);\n    let a11 = Main.hp(a10);\n    let a12 = Main.hp(a11);\n    let a13 = Main.hp(a12);\n    let a14 = Main.hp(a13);\n    let a15 = Main.hp(a14);\n    let a16 = Main.hp(a15);\n    let a17 = Main.hp(a16);\n    let a18 = Main.hp(a17);\n    let a19 = Main.hp(a18);\n    let a20 = Main.hp(a19);\n    let a21 = Main.hp(a20);\n    let a22 = Main.hp(a21);\n    let a23 = Main.hp(a22);\n    let a24 = Main.hp(a23);\n    let a25 = Main.hp(a24);\n    let a26 = Main.hp(a25);\n    let a27 = Main.hp(a26);\n    let a28 = Main.hp(a27);\n    let a29 = Main.hp(a28);\n    let a30 = Main.hp(a29);\n    let a31 = Main.hp(a30);\n    let a32 = Main.hp(a31);\n    let a33 = Main.hp(a32);\n    let a34 = Main.hp(a33);\n    let a35 = Main.hp(a34);\n    let a36 = Main.hp(a35);\n    let a37 = Main.hp(a36);\n    let a38 = Main.hp(a37);\n    let a39 = Main.hp(a38);\n    let a40 = Main.hp(a39);\n    let a41 = Main.hp(a40);\n    let a42 = Main.hp(a41);\n    let a43 = Main.hp(a42);\n    let a44 = Main.hp(a43);\n    let a45 = Main.hp(a44);\n    let a46 = Main.hp(a45);\n    let a47 = Main.hp(a46);\n    let a48 = Main.hp(a47);\n    let a49 = Main.hp(a48);\n    let a50 = Main.hp(a49);\n    let a51 = Main.hp(a50);\n    let a52 = Main.hp(a51);\n    let a53 = Main.hp(a52);\n    let a54 = Main.hp(a53);\n    let a55 = Main.hp(a54);\n    let a56 = Main.hp(a55);\n    let a57 = Main.hp(a56);\n    let a58 = Main.hp(a57);\n    let a59 = Main.hp(a58);\n    let a60 = Main.hp(a59);\n    let a61 = Main.hp(a60);\n    let a62 = Main.hp(a61);\n    let a63 = Main.hp(a62);\n    let a64 = Main.hp(a63);\n    let a65 = Main.hp(a64);\n    let a66 = Main.hp(a65);\n    let a67 = Main.hp(a66);\n    let a68 = Main.hp(a67);\n    let a69 = Main.hp(a68);\n    let a70 = Main.hp(a69);\n    let a71 = Main.hp(a70);\n    let a72 = Main.hp(a71);\n    let a73 = Main.hp(a72);\n    let a74 = Main.hp(a73);\n    let a75 = Main.hp(a74);\n    let a76 = Main.hp(a75);\n    let a77 = Main.hp(a76);\n    let a78 = Main.hp(a77);\n    let a79 = Main.hp(a78);\n    let a80 = Main.hp(a79);\n    let a81 = Main.hp(a80);\n    let a82 = Main.hp(a81);\n    let a83 = Main.hp(a82);\n    let a84 = Main.hp(a83);\n    let a85 = Main.hp(a84);\n    let a86 = Main.hp(a85);\n    let a87 = Main.hp(a86);\n    let a88 = Main.hp(a87);\n    let a89 = Main.hp(a88);\n    let a90 = Main.hp(a89);\n    let a91 = Main.hp(a90);\n    let a92 = Main.hp(a91);\n    let a93 = Main.hp(a92);\n    let a94 = Main.hp(a93);\n    let a95 = Main.hp(a94);\n    let a96 = Main.hp(a95);\n    let a97 = Main.hp(a96);\n    let a98 = Main.hp(a97);\n    let a99 = Main.hp(a98);\n    let a100 = Main.hp(a99);\n    let a101 = Main.hp(a100);\n    let a102 = Main.hp(a101);\n    let a103 = Main.hp(a102);\n    a103
  }}

  function main(): unit = {{
    let start = "0".toInt();
    let k = "{m}".toInt();
    let _ = Process.println(Str.fromInt(Main.structs(start, {n1}, Pair.init(k, 11), 0)));
    let _ = Process.println(Str.fromInt(Main.escape(start, {n3}, Pair.init(1, k)).sum()));
    let _ = Process.println(Str.fromInt(Main.enums(start, {n2}, 0)));
    let _ = Process.println(Str.fromInt(Main.colors(start, {n2} + 2, Color.Green(), 0)));
    let _ = Process.println(Str.fromInt(Main.walkOpt(Opt.Some(k), start, 0)));
    let _ = Process.println(Str.fromInt(Main.closures(start, {n1}, k, 0)));
    let _ = Process.println(Str.fromInt(Main.once(k, 5)));
    let _ = Process.println(Str.fromInt(Main.big(k)));
    let _ = Process.println(Str.fromInt(Main.bools(start, {n3} + 1, 0)));
    let _ = Process.println(Str.fromInt(Main.go(start, (x: int) -> x + 1, 1) + Main.keep(start, (x: int) -> x + 3, 1)));
    let _ = Process.println(Str.fromInt(Main.pairs(start, Pair.init(k, k + 1), 2) + Main.cols(start, Color.Red(), 1)));
    Process.println("done")
  }}
}}
"""


def check_e2e(ctx, progs, cfgs, run_ts, label):
    lines = [f"e2e {','.join(map(str, cfgs))} {1 if run_ts else 0} | | {t.encode().hex()}" for t in progs]
    out = run_harness(lines)
    stats = {"compared": 0, "programs": 0, "no_node": 0, "rejected": 0}
    for text, ans in zip(progs, out):
        if ans.startswith("ok "):
            stats["programs"] += 1
            m = re.search(r"compared=(\d+)", ans)
            stats["compared"] += int(m.group(1)) if m else 0
        elif ans == "no-node":
            stats["no_node"] += 1
        elif ans.startswith("bad-program"):
            stats["rejected"] += 1
            if stats["rejected"] == 1:
                ctx.violation("generated end-to-end program rejected by the front end (generator out of date): " + ans[:200],
                              {"protocol": "e2e", "label": label, "source": text, "answer": ans}, no_input=True)
        elif ans.startswith("invariant"):
            ctx.violation("optimize_sources leaves the heap's temporary-name counter behind names it issued itself "
                          "(the next phase re-issues them): " + ans[:240],
                          {"protocol": "e2e", "label": label, "configs": cfgs, "source": text, "answer": ans})
        else:
            ctx.violation("the optimised build behaves differently from the un-optimised build of the same program under Node: " + ans[:300],
                          {"protocol": "e2e", "label": label, "configs": cfgs, "source": text, "answer": ans})
    return stats


def struct_family(rng):
    """Deterministic family over the statement kinds with heap objects (StructInit, IndexedAccess,
    ClosureInit, indirect calls, IsPointer, Cast, Not): non-escaping and escaping structs, closures
    called locally / passed on, in straight-line code, branches and loops. Pointers are never printed
    or returned (their numeric value is an artefact of the interpreter)."""
    r = rng
    a, b, c = r.range(1, 9), r.range(-4, 4), r.range(2, 5)
    getter = f"fn f1 2 idx x p0 0 bin y add x p1 ret y end"
    summer = f"fn f2 2 idx x p0 0 idx z p0 1 bin y add x z bin w mul y p1 ret w end"
    progs = [
        # non-escaping struct, both fields read
        f"fn f0 2 struct s 2 p0 p1 idx a s 0 idx b s 1 bin c add a b call print 1 c _ ret c end",
        # escaping struct (passed to a function) + local reads
        f"fn f0 2 struct s 2 p0 {a} call f2 2 s {c} r idx a s 1 bin d add r a ret d end {summer}",
        # closure created and called locally; IsPointer / Not / Cast in the same function
        f"fn f0 2 struct s 2 p0 p1 clo g f1 s icall g 1 {a} r isp q s not nq q idx a s 1 cast cs a bin c add r cs bin d add c nq ret d end {getter}",
        # closure passed on (escapes) and called by the callee
        f"fn f0 2 struct s 2 p1 {b} clo g f1 s call f3 2 g p0 r ret r end {getter} fn f3 2 icall p0 1 p1 r bin t add r 1 ret t end",
        # struct whose field is a field of another struct (substitution chains)
        f"fn f0 2 struct s 2 p0 {a} idx a s 1 struct t 2 a p1 idx u t 0 idx v t 1 bin w mul u v call print 1 w _ ret w end",
        # struct defined before a branch, read in both branches; escapes only in one of them
        f"fn f0 2 struct s 2 p0 p1 bin c gt p0 {b} if c {{ idx a s 0 bin x add a 1 }} {{ call f2 2 s {c} y }} 1 f x y idx q s 1 bin z add f q ret z end {summer}",
        # struct allocated in every iteration of a loop and read in the same iteration
        f"fn f0 2 while 2 i 0 ni acc 0 nacc {{ bin cc ge i {c} sif cc 0 {{ brk acc }} bin t add i p0 struct s 2 i t idx a s 1 idx b s 0 bin d mul a {a} bin e add d b call print 1 e _ bin nacc add acc e bin ni add i 1 }} r ret r end",
        # struct created before a loop and read inside it (pointer is loop invariant), plus a closure call per iteration
        f"fn f0 2 struct s 2 p0 p1 clo g f1 s while 2 i 0 ni acc 0 nacc {{ bin cc ge i {c} sif cc 0 {{ brk acc }} idx a s 1 icall g 1 i r bin t add a r bin nacc add acc t bin ni add i 1 }} rr ret rr end {getter}",
        # a struct stored into another struct (escapes through the field), read back through it
        f"fn f0 2 struct s 2 p0 p1 struct t 2 s {a} idx u t 0 idx v u 1 idx w t 1 bin z add v w ret z end",
        # struct as loop variable (escapes through the loop), swapped fields each iteration
        f"fn f0 2 struct s 2 p0 p1 while 2 i 0 ni cur s nxt {{ bin cc ge i {c} sif cc 0 {{ brk cur }} idx a cur 0 idx b cur 1 bin b2 add b i struct nxt 2 b2 a bin ni add i 1 }} fin idx x fin 0 idx y fin 1 bin z sub x y ret z end",
    ]
    return [parse_prog_text(t) for t in progs]


def usepos_family():
    """Deterministic: loops whose loop variable `v` is a closure / struct / int that CHANGES every
    iteration and is read in exactly one syntactic position (callee, closure context, struct field,
    indexed-access pointer, cast / is-pointer / not operand, call argument, operand, final assignment,
    loop value of another variable), placed directly in the body, inside a SingleIf, inside an IfElse
    branch, or inside a nested loop."""
    getter = "fn f1 2 idx x p0 0 bin y add x p1 ret y end"
    summer = "fn f2 2 idx x p0 0 idx z p0 1 bin y add x z bin w mul y p1 ret w end"
    kinds = {
        # position: (kind of v, use statements producing the int `u`)
        "callee": ("clo", "icall v 1 acc u"),
        "context": ("struct", "clo c f1 v icall c 1 3 u"),
        "field": ("struct", "struct t 2 v 1 idx w t 0 idx u w 0"),
        "pointer": ("struct", "idx u v 1"),
        "cast": ("struct", "cast w v idx u w 0"),
        "isp": ("struct", "isp u v"),
        "arg": ("struct", "call f2 2 v 3 u"),
        "not": ("int", "not u v"),
        "operand": ("int", "bin u add v 5"),
    }
    out = []
    for pos, (kind, use) in kinds.items():
        if kind == "clo":
            init, pre, nxt = "g0", "struct s0 2 p0 p1 clo g0 f1 s0", "struct sn 2 i acc clo nv f1 sn"
        elif kind == "struct":
            init, pre, nxt = "s0", "struct s0 2 p0 p1", "struct nv 2 acc i"
        else:
            init, pre, nxt = "1", "", "bin nv xor v 1"
        for nest in ("direct", "sif", "ife", "loop"):
            if nest == "direct":
                mid = f"{use} bin nacc add acc u"
            elif nest == "sif":
                mid = f"bin odd and i 1 sif odd 0 {{ {use} call print 1 u _ }} bin nacc add acc i"
            elif nest == "ife":
                mid = f"bin odd and i 1 if odd {{ {use} }} {{ }} 1 fu u 7 bin nacc add acc fu"
            else:
                mid = (f"while 1 k 0 nk {{ bin c2 ge k 2 sif c2 0 {{ brk 0 }} {use} call print 1 u _ bin nk add k 1 }} _ "
                       "bin nacc add acc i")
            text = (f"fn f0 2 {pre} while 3 i 0 ni v {init} nv acc p1 nacc {{ bin cc ge i 4 sif cc 0 {{ brk acc }} {mid} {nxt} "
                    f"bin ni add i 1 }} r ret r end {getter} {summer}").replace("  ", " ")
            out.append(text)
    # `v` only as final assignment / loop value of another variable / break value
    out.append(f"fn f0 2 while 3 i 0 ni v 1 nv acc p1 nacc {{ bin cc ge i 4 sif cc 0 {{ brk acc }} bin odd and i 1 if odd {{ }} {{ }} 1 fu v 7 "
               "bin nacc add acc fu bin nv xor v 3 bin ni add i 1 } r ret r end")
    out.append("fn f0 2 while 3 i 0 ni v 1 nv w 0 v { bin cc ge i 4 sif cc 0 { brk w } bin nv add v i bin ni add i 1 } r ret r end")
    out.append("fn f0 2 while 2 i 0 ni v p1 nv { bin cc ge i 4 sif cc 0 { brk v } bin nv add v i bin ni add i 1 } r ret r end")
    return out


def multibreak_family():
    """Deterministic: loops with two or three `break`s where constant propagation makes a LATER break
    unconditional in the first iteration (loop peeling) while an earlier one stays conditional; also nested
    inside another loop (a stray break would leave the outer loop)."""
    out = []
    for n0 in ("0", "1", "p1"):
        for cmp1, lim in (("gt", 5), ("le", 2)):
            inner = (f"while 2 n {n0} nn x p0 nx {{ bin c1 {cmp1} x {lim} sif c1 0 {{ brk 1 }} bin c2 eq n 0 sif c2 0 {{ brk 2 }} "
                     "call print 1 x _ bin nn sub n 1 bin nx add x 1 } r")
            out.append(f"fn f0 2 {inner} call print 1 r _ ret r end")
            out.append(f"fn f0 2 {inner.replace('sif c2 0 { brk 2 }', 'if c2 { brk 2 } { call print 1 7 _ } 0')} call print 1 r _ ret r end")
            out.append(f"fn f0 2 while 2 o 0 no acc 0 nacc {{ bin co ge o 3 sif co 0 {{ brk acc }} {inner} bin nacc add acc r bin no add o 1 }} ro ret ro end")
    return out


def ccpif_family():
    """Deterministic: if/else whose final assignment is a literal pair — (1,0), (0,1), (1,1), (0,0), (2,0) —
    x then-branch empty / effectful x else-branch empty / effectful x 0, 1 or 2 final assignments; the
    boolean-shortcut of CCP (`let r = c` / `let r = c ^ 1`) may only fire when BOTH branches are empty."""
    out = []
    for e1, e2 in (("1", "0"), ("0", "1"), ("1", "1"), ("0", "0"), ("2", "0")):
        for b1 in ("", "call print 1 11 _", "bin t1 div 7 p1 call print 1 t1 _"):
            for b2 in ("", "call print 1 22 _", "bin t2 mod 9 p1 call print 1 t2 _"):
                for nfa in (0, 1, 2):
                    fas = ["", f"r {e1} {e2}", f"r {e1} {e2} q p0 p1"][nfa]
                    use = {0: "bin z add c 0", 1: "bin z add r 5", 2: "bin w add r q bin z mul w 3"}[nfa]
                    out.append(f"fn f0 2 bin c gt p0 p1 if c {{ {b1} }} {{ {b2} }} {nfa} {fas} {use} call print 1 z _ ret z end".replace("  ", " "))
    return out


def algopt_family():
    """Deterministic family around the closed-form ("algebraic") loop elimination: counter with literal or
    run-time start, stride of either sign, all four guard kinds x extra loop variables (pass-through,
    constant-set, swapped pair, accumulating = general induction variable) x empty body / one statement
    x which variable (or literal) is the break value. Every 5th member of the product (fixed choice)."""
    out = []
    n = 0
    extras_all = [[], ["pass"], ["const"], ["acc"], ["swap"], ["pass", "acc"], ["const", "acc"], ["pass", "const"], ["acc", "acc2"]]
    for g, st in (("ge", 1), ("gt", 2), ("le", -1), ("lt", -3)):          # break tests; counter goes up for ge/gt, down for le/lt
        for start in ("0", "3", "p0"):
            for extras in extras_all:
                for body in ("empty", "print"):
                    lvs, upd, names = [], [], []
                    for e in extras:
                        if e == "pass": lvs.append("x p1 x"); names.append("x")
                        elif e == "const": lvs.append("c 0 1"); names.append("c")
                        elif e == "acc": lvs.append("a p1 na"); upd.append("bin na add a 5"); names.append("a")
                        elif e == "acc2": lvs.append("b 2 nb"); upd.append("bin nb add b -3"); names.append("b")
                        elif e == "swap": lvs.append("u p0 w"); lvs.append("w 9 u"); names += ["u", "w"]
                    bound = {"ge": 10, "gt": 9, "le": -7, "lt": -6}[g]
                    for brk in ["i", "7"] + names:
                        n += 1
                        if n % 5 != 0:
                            continue
                        pr = "call print 1 i _ " if body == "print" else ""
                        text = (f"fn f0 2 while {1 + len(lvs)} i {start} ni {' '.join(lvs)} {{ bin cc {g} i {bound} sif cc 0 {{ brk {brk} }} "
                                f"{pr}{' '.join(upd)} bin ni add i {st} }} r bin z mul r 2 call print 1 z _ ret z end").replace("  ", " ")
                        out.append(text)
    return out


def check_sources(ctx, cases, label):
    """cases: list of (pass, cfg, source text)."""
    lines = [f"srcprog {p} {c} | | {t.encode().hex()}" for p, c, t in cases]
    out = run_harness(lines)
    stats = {"changed": set(), "compared": 0, "lines": 0, "timeouts": 0, "rejected": 0}
    for (p, c, text), ans in zip(cases, out):
        if ans.startswith("ok "):
            kv = dict(x.split("=") for x in ans.split()[1:])
            stats["compared"] += int(kv["compared"]); stats["lines"] += int(kv["lines"]); stats["timeouts"] += int(kv["timeouts"])
            if kv["changed"] == "1":
                stats["changed"].add(text + "@" + p + str(c))
            continue
        if ans.startswith("bad-program"):
            stats["rejected"] += 1
            if stats["rejected"] <= 1:
                ctx.violation("generated samlang source rejected by the front end (generator out of date): " + ans[:200],
                              {"protocol": "srcprog", "label": label, "source": text, "answer": ans}, no_input=True)
            continue
        shown = run_harness([f"srcshow {p} {c} | | {text.encode().hex()}"])[0]
        payload = {"protocol": "srcprog", "label": label, "pass": p, "config_bits": c, "source": text, "answer": ans, "mir": shown}
        if ans.startswith("diff"):
            ctx.violation(f"optimisation pass `{p}` (config {c}) changes the behaviour of MIR compiled from samlang source: {ans[:300]}", payload)
        else:
            ctx.violation(f"pass `{p}` (config {c}) fails on MIR compiled from samlang source: {ans[:200]}", payload)
    return stats


ARG_GRID = [(0, 0), (1, 2), (-1, 3), (7, -8), (2, 0), (0, 5), (MAX, 1), (MIN, -1), (MAX - 1, MAX), (MIN + 1, 2),
            (46341, 46341), (65536, -65536), (3, 31), (-7, 33), (12, 1)]


def gen_args(rng, n=8):
    picks = rng.shuffle(ARG_GRID)[:n - 2] + [(gen_int(rng), gen_int(rng)), (rng.range(-9, 9), rng.range(-9, 9))]
    return picks


def prog_line(pass_, cfg, args, fns):
    a = ";".join(",".join(str(x) for x in t) for t in args)
    return f"prog {pass_} {cfg} | {a} | {pp_program(fns)}"


def all_stmt_paths(ss, prefix=()):
    for k, s in enumerate(ss):
        yield prefix + (k,)
        if s[0] == "if":
            yield from all_stmt_paths(s[2], prefix + (k, 2))
            yield from all_stmt_paths(s[3], prefix + (k, 3))
        elif s[0] == "sif":
            yield from all_stmt_paths(s[3], prefix + (k, 3))
        elif s[0] == "while":
            yield from all_stmt_paths(s[2], prefix + (k, 2))


def delete_path(ss, path):
    import copy
    ss = copy.deepcopy(ss)
    cur = ss
    for p in path[:-1]:
        cur = cur[p]
    del cur[path[-1]]
    return ss


def well_formed(fns):
    """every used name is defined somewhere in its function (the shrinker must not invent programs
    that only work because the unoptimised run never reaches a dangling use)"""
    for f in fns:
        defined = {f"p{k}" for k in range(f[2])}
        used = {f[4]}
        for s in walk(f[3]):
            k = s[0]
            if k == "bin": defined.add(s[1]); used |= {s[3], s[4]}
            elif k == "not": defined.add(s[1]); used.add(s[2])
            elif k == "struct": defined.add(s[1]); used |= set(s[2])
            elif k in ("idx", "isp", "cast"): defined.add(s[1]); used.add(s[2])
            elif k == "clo": defined.add(s[1]); used.add(s[3])
            elif k == "icall":
                used |= set(s[2]) | {s[1]}
                if s[3] != "_": defined.add(s[3])
            elif k == "call":
                used |= set(s[2])
                if s[3] != "_": defined.add(s[3])
            elif k == "if":
                used.add(s[1])
                for n, a, b in s[4]: defined.add(n); used |= {a, b}
            elif k == "sif": used.add(s[1])
            elif k == "brk": used.add(s[1])
            elif k == "while":
                for n, a, b in s[1]: defined.add(n); used |= {a, b}
                if s[3]: defined.add(s[3])
        if any(not u.lstrip("-").isdigit() and u not in defined for u in used):
            return False
    return True


def shrink_program(fns, fails):
    """Greedy statement deletion (all nesting levels), then helper-function deletion."""
    changed = True
    budget = 150
    while changed and budget > 0:
        changed = False
        for fi, f in enumerate(fns):
            for path in sorted(all_stmt_paths(f[3]), reverse=True):
                budget -= 1
                if budget <= 0:
                    break
                cand = [list(g) for g in fns]
                cand[fi] = f[:3] + [delete_path(f[3], path)] + f[4:]
                if well_formed(cand) and fails(cand):
                    fns = cand; changed = True
                    break
            if changed:
                break
    return fns


def walk(ss):
    for s in ss:
        yield s
        if s[0] == "if":
            yield from walk(s[2]); yield from walk(s[3])
        elif s[0] == "sif":
            yield from walk(s[3])
        elif s[0] == "while":
            yield from walk(s[2])


def classify_prog(pass_, fns, answer):
    """Known-finding signature over a (shrunk) failing program. Returns finding id or None."""
    stmts = [s for f in fns for s in walk(f[3])]
    defs = {s[1]: s for s in stmts if s[0] == "bin"}
    m = re.match(r"diff arg=\d+ args=(\S*) before=(\S+) after=(\S+)", answer)
    if not m:
        return None
    before, after = m.group(2), m.group(3)
    if "|bad:" in after:
        return None          # no other open finding makes the optimised program ill-formed (dangling names etc.)
    b_trap, a_trap = "|trap" in before, "|trap" in after
    # F2: x/x or x%x (possibly after copy propagation): the removed trap had dividend 0 as well
    if pass_ in ("ccp", "rounds", "all") and re.search(r"\|trap:(div0|rem0):0$", before) and before.split("|")[1] != after.split("|")[1] \
            and any(s[0] == "bin" and s[2] in ("div", "mod") for s in stmts):
        return "C02-F2"
    loops = [s for s in stmts if s[0] == "while"]
    if pass_ in ("ccp", "rounds", "all"):
        for s in stmts:
            if s[0] == "bin" and s[2] in ORD:
                for e in (s[3], s[4]):
                    d = defs.get(e)
                    if d and d[2] in ("add", "sub"):
                        return "C02-F3"
    if pass_ in ("loop", "rounds", "all") and loops:
        for w in loops:
            body = w[2]
            inside = list(walk(body))
            lvnames = {lv[0] for lv in w[1]}
            # F4 / F5: counting loop whose guard is not `<` (i.e. break test not `>=`), non-positive multiplier, or bounds near the ends
            if body and body[0][0] == "bin" and body[0][2] in ORD:
                guard = body[0]
                ivar = guard[3]
                incr = [lv[2] for lv in w[1] if lv[0] == ivar]
                derived = [s for s in body if s[0] == "bin" and s[2] in ("mul", "add", "sub") and ivar in (s[3], s[4]) and s[1] not in incr]
                effects = [s for s in inside if s[0] == "call" and ivar in s[2]]
                if len(derived) >= 1 and not effects:
                    d = derived[0]
                    mult = d[4] if d[3] == ivar else d[3]
                    bad_mult = d[2] == "mul" and not mult.lstrip("-").isdigit()      # symbolic multiplier of unknown sign
                    init = [lv[1] for lv in w[1] if lv[0] == ivar]
                    symbolic = not guard[4].lstrip("-").isdigit() or any(not x.lstrip("-").isdigit() for x in init)
                    if guard[2] != "ge" or bad_mult or symbolic:
                        return "C02-F4"
    return None


# dedicated probes, one (or a few) per open finding: (finding id, pass, cfg, args, program text)
PROBES = [
    ("C02-F2", "ccp", 31, [(0, 0), (3, 0)], "fn f0 2 bin a div p0 p0 call print 1 a _ ret a end"),
    ("C02-F2", "all", 31, [(0, 0), (3, 0)], "fn f0 2 bin a mod p0 p0 ret a end"),
    ("C02-F3", "ccp", 31, [(1, 2), (MAX, 0)], "fn f0 2 bin a add p0 1 bin b lt a 0 call print 1 b _ ret b end"),
    ("C02-F3", "all", 31, [(1, 2), (MIN, 0)], "fn f0 2 bin a sub p0 1 bin b gt a 5 ret b end"),
    ("C02-F4", "loop", 31, [(0, 0)], "fn f0 2 while 2 i 0 ni last 0 j { bin cc gt i 10 sif cc 0 { brk last } bin j mul i 2 bin ni add i 1 } r ret r end"),
    ("C02-F4", "all", 4, [(0, 0)], "fn f0 2 while 2 i 0 ni last 0 j { bin cc gt i 10 sif cc 0 { brk last } bin j mul i 2 bin ni add i 1 } r ret r end"),
    ("C02-F4", "loop", 31, [(0, -1)], "fn f0 2 while 2 i 0 ni last 0 j { bin cc ge i 3 sif cc 0 { brk last } call print 1 last _ bin j mul i p1 bin ni add i 1 } r ret r end"),
]


def parse_prog_text(text):
    """inverse of pp_program for the probe texts (only what classify_prog needs)"""
    toks = text.split()
    pos = [0]

    def nxt():
        pos[0] += 1
        return toks[pos[0] - 1]

    def stmts():
        out = []
        while pos[0] < len(toks) and toks[pos[0]] not in ("}", "ret"):
            k = nxt()
            if k == "bin": out.append(["bin", nxt(), nxt(), nxt(), nxt()])
            elif k == "not": out.append(["not", nxt(), nxt()])
            elif k == "call":
                f = nxt(); n = int(nxt()); out.append(["call", f, [nxt() for _ in range(n)], nxt()])
            elif k == "if":
                c = nxt(); nxt(); a = stmts(); nxt(); nxt(); b = stmts(); nxt()
                n = int(nxt()); out.append(["if", c, a, b, [[nxt(), nxt(), nxt()] for _ in range(n)]])
            elif k == "sif":
                c = nxt(); inv = nxt(); nxt(); a = stmts(); nxt(); out.append(["sif", c, inv, a])
            elif k == "brk": out.append(["brk", nxt()])
            elif k == "struct":
                nm = nxt(); n = int(nxt()); out.append(["struct", nm, [nxt() for _ in range(n)]])
            elif k == "idx": out.append(["idx", nxt(), nxt(), nxt()])
            elif k == "isp": out.append(["isp", nxt(), nxt()])
            elif k == "cast": out.append(["cast", nxt(), nxt()])
            elif k == "clo": out.append(["clo", nxt(), nxt(), nxt()])
            elif k == "icall":
                v = nxt(); n = int(nxt()); out.append(["icall", v, [nxt() for _ in range(n)], nxt()])
            elif k == "while":
                n = int(nxt()); lvs = [[nxt(), nxt(), nxt()] for _ in range(n)]
                nxt(); b = stmts(); nxt(); bc = nxt(); out.append(["while", lvs, b, None if bc == "_" else bc])
        return out
    fns = []
    while pos[0] < len(toks):
        nxt(); name = nxt(); n = int(nxt()); body = stmts(); nxt(); ret = nxt(); nxt()
        fns.append(["fn", name, n, body, ret])
    return fns


# ------------------------------------------------------------------------------------------
# run
# ------------------------------------------------------------------------------------------

def finding(ctx, fid):
    for f in ctx.open_findings:
        if f["id"] == fid:
            return f
    return None


def report(ctx, verdict, payload):
    """verdict = ('known', id, detail) | ('bad', msg)"""
    if verdict[0] == "known":
        f = finding(ctx, verdict[1])
        if f:
            ctx.known(f)
            return
        verdict = ("bad", f"{verdict[2]} (matches signature {verdict[1]}, which is not an open finding)")
    ctx.violation(verdict[1], payload)


def run_kernels(ctx, lines, label):
    impl, model = common.run_pair("C02", lines)
    stats = {"nontrivial": set(), "known": 0}
    d = common.first_diff(impl, model)
    oracle_failed = False
    nbad = 0
    by_line = dict()
    for i, l in enumerate(lines):
        a = impl[i] if i < len(impl) else "<missing>"
        by_line[l] = a
        v = judge_pair(lines, impl, i)
        if v and v[0] == "bad" and nbad >= 3:
            continue
        if v:
            if v[0] == "bad":
                oracle_failed = True
                nbad += 1
            else:
                stats["known"] += 1
            report(ctx, v, {"protocol": "kernel", "label": label, "line": l, "impl": a,
                            "model": model[i] if i < len(model) else "<missing>"})
        if nontrivial_kernel(l, a):
            stats["nontrivial"].add(l)
    if d is not None and not oracle_failed:
        # tie broken: search the neighbourhood of the disagreeing line for a property-level failure
        l = lines[d]
        found = search_near(ctx, l)
        if not found:
            ctx.violation(f"model/implementation disagreement on kernel protocol line `{l}`: impl `{impl[d] if d < len(impl) else '<missing>'}` model `{model[d] if d < len(model) else '<missing>'}`; "
                          "no property-level failure found nearby",
                          {"protocol": "kernel", "label": label, "line": l, "impl": impl[d] if d < len(impl) else None,
                           "model": model[d] if d < len(model) else None,
                           "broken": "correspondence of Model/OptKernel.lean with crates/samlang-optimization (theorems of Props/C02.lean no longer speak about this code)"},
                          no_input=True)
    return stats, impl


def search_near(ctx, line):
    """Densified probes around a disagreeing kernel line, judged by the model-free oracle."""
    t = line.split()
    cands = []
    if t[0] in ("fold", "tgt"):
        for a in BOUNDARY + [int(t[2])]:
            for b in BOUNDARY + [int(t[3])]:
                cands.append(f"fold {t[1]} {a} {b}")
    elif t[0] == "merge":
        for c1 in [int(t[3]), 1, -1, 5, 0]:
            for c2 in [int(t[4]), 0, 7, -3]:
                cands.append(f"merge {t[1]} {t[2]} {c1} {c2}")
    elif t[0] == "trip":
        for i0 in range(-4, 5):
            for st in (1, 2, 3, -1, -2):
                for b in range(-6, 7):
                    cands.append(f"trip {t[1]} {i0} {st} {b}")
    elif t[0] in ("flex", "order", "unwrap", "ccp"):
        toks = ["i0", "i1", "i-1", "i5", "i-2147483648", "v0", "v1", "v0"]
        for a in toks:
            for b in toks:
                if t[0] == "ccp" or True:
                    cands.append(f"{t[0]} {t[1]} {a} {b}")
    elif t[0] in ("dceuse", "dceloop"):
        lines = [f"prog dce 31 | 3,4;0,0;-5,7 | {pt}" for pt in usepos_family()]
        outs = run_harness(lines)
        for l, o in zip(lines, outs):
            if not o.startswith("ok "):
                ctx.violation(f"dead-code elimination removes something that is still read: {o[:200]}",
                              {"protocol": "prog", "pass": "dce", "config_bits": 31, "args": [(3, 4), (0, 0), (-5, 7)],
                               "program": l.split("|", 2)[2].strip(), "answer": o})
                return True
        return False
    elif t[0] == "ccpif":
        lines = [f"prog ccp 31 | 3,1;1,3;2,0;0,0 | {pt}" for pt in ccpif_family()]
        outs = run_harness(lines)
        for l, o in zip(lines, outs):
            if not o.startswith("ok "):
                ctx.violation(f"CCP's if/else simplification changes behaviour: {o[:200]}",
                              {"protocol": "prog", "pass": "ccp", "config_bits": 31, "args": [(3, 1), (1, 3), (2, 0), (0, 0)],
                               "program": l.split("|", 2)[2].strip(), "answer": o})
                return True
        return False
    elif t[0] == "algopt":
        lines = [f"prog loop 31 | 0,5;4,-2;-30,1 | {pt}" for pt in algopt_family()]
        outs = run_harness(lines)
        for l, o in zip(lines, outs):
            if not o.startswith("ok "):
                ctx.violation(f"closed-form loop elimination changes behaviour: {o[:200]}",
                              {"protocol": "prog", "pass": "loop", "config_bits": 31, "args": [(0, 5), (4, -2), (-30, 1)],
                               "program": l.split("|", 2)[2].strip(), "answer": o})
                return True
        return False
    elif t[0] == "ivuse":
        progs = []
        for pos in ("init", "loopvalue", "guard", "body", "print", "none"):
            kinit = "i" if pos == "init" else "0"
            ibound = "i" if pos == "guard" else "4"
            addend = "i" if pos == "body" else "k"
            extra, nlv, brk = (" w 0 i", 3, "w") if pos == "loopvalue" else ("", 2, "s")
            pr = "call print 1 i _ " if pos == "print" else ""
            progs.append(f"fn f0 2 while 3 i 0 ni last 0 j acc 0 nacc {{ bin cc ge i 5 sif cc 0 {{ brk acc }} {pr}while {nlv} k {kinit} nk s 0 ns{extra} "
                         f"{{ bin c2 ge k {ibound} sif c2 0 {{ brk {brk} }} bin ns add s {addend} bin nk add k 1 }} r2 bin t add acc last bin nacc add t r2 "
                         "bin j mul i 3 bin ni add i 1 } r ret r end")
        lines = [f"prog loop 31 | 0,0;2,1 | {pt}" for pt in progs]
        outs = run_harness(lines)
        for l, o in zip(lines, outs):
            if not o.startswith("ok "):
                ctx.violation(f"induction-variable elimination removes a counter that a nested loop still reads: {o[:200]}",
                              {"protocol": "prog", "pass": "loop", "config_bits": 31, "args": [(0, 0), (2, 1)],
                               "program": l.split("|", 2)[2].strip(), "answer": o})
                return True
        return False
    elif t[0] == "lvn":
        # property-level search: one small program per consuming position downstream of a deleted duplicate
        progs = [
            "fn f0 2 while 1 i 0 ni { bin t mul i i bin c gt t p1 sif c 0 { bin u mul i i brk u } bin ni add i 1 } r ret r end",
            "fn f0 2 bin t mul p0 p0 bin u mul p0 p0 call print 1 u _ ret t end",
            "fn f0 2 bin t mul p0 p0 bin u mul p0 p0 ret u end",
            "fn f0 2 bin t mul p0 p0 bin c gt p0 p1 if c { bin u mul p0 p0 } { } 1 f u 7 ret f end",
            "fn f0 2 bin t mul p0 p0 bin u mul p0 p0 bin w add u 1 ret w end",
            "fn f0 2 bin t mul p0 p0 bin u mul p0 p0 while 1 i u ni { bin c ge i 40 sif c 0 { brk i } bin ni add i 7 } r ret r end",
            "fn f0 2 bin t mul p0 3 while 2 i 0 ni l 0 nl { bin c ge i 3 sif c 0 { brk l } bin nl mul p0 3 bin ni add i 1 } r ret r end",
            "fn f0 2 bin t eq p0 p1 bin u eq p0 p1 sif u 0 { call print 1 1 _ } ret t end",
        ]
        lines = [f"prog lvn 31 | 3,5;2,2;6,20 | {pt}" for pt in progs]
        outs = run_harness(lines)
        for l, o in zip(lines, outs):
            if not o.startswith("ok "):
                ctx.violation(f"local value numbering changes behaviour: {o[:200]}",
                              {"protocol": "prog", "pass": "lvn", "config_bits": 31, "args": [(3, 5), (2, 2), (6, 20)],
                               "program": l.split("|", 2)[2].strip(), "answer": o})
                return True
        return False
    elif t[0] in ("srloop", "srorig"):
        for a0, b0 in ((0, 7), (3, -2), (5, 5)):
            for sa, sb in ((1, 5), (2, -1)):
                for m, c in ((3, 1), (1, 4), (2, 0), (-1, 2)):
                    for base in (0, 1):
                        p = f"lt {a0 + 4 * sa} 0 2 {a0} {sa} {b0} {sb} 1 {base} {m} {c} 24"
                        cands += [f"srloop {p}", f"srorig {p}"]
    elif t[0] in ("ivloop", "ivorig"):
        for i0 in (-2, 0, 1):
            for st in (1, 2):
                for b in range(-1, 8):
                    for m, c in ((1, 0), (2, 0), (3, 0), (1, 2), (1, -1), (2, 3)):
                        p = f"lt {i0} {st} {b} {m} {c} 40"
                        cands += [f"ivloop {p}", f"ivorig {p}"]
    if not cands:
        return False
    rc, impl, err = common.run_exec(common.harness_bin("C02"), [], cands)
    for i, l in enumerate(cands):
        a = impl[i] if i < len(impl) else "<missing>"
        v = judge_pair(cands, impl, i)
        if v and v[0] == "bad":
            ctx.violation(v[1], {"protocol": "kernel", "label": "search near " + line, "line": l, "impl": a})
            return True
    return False


def run_harness(lines):
    rc, out, err = common.run_exec(common.harness_bin("C02"), [], lines)
    while len(out) < len(lines):
        out.append(f"harness-died rc={rc} {err.strip()[-200:]}")
    return out


def check_programs(ctx, cases, label):
    """cases: list of (pass, cfg, args, fns). Returns stats."""
    lines = [prog_line(p, c, a, f) for p, c, a, f in cases]
    out = run_harness(lines)
    stats = {"changed": set(), "compared": 0, "traps": 0, "timeouts": 0, "lines": 0}
    for (p, c, a, fns), line, ans in zip(cases, lines, out):
        if ans.startswith("ok "):
            kv = dict(x.split("=") for x in ans.split()[1:])
            stats["compared"] += int(kv["compared"]); stats["traps"] += int(kv["traps"])
            stats["timeouts"] += int(kv["timeouts"]); stats["lines"] += int(kv["lines"])
            if kv["changed"] == "1":
                stats["changed"].add(pp_program(fns) + "@" + p + str(c))
            continue
        # failure: shrink, classify, report
        def fails(cand, p=p, c=c, a=a):
            o = run_harness([prog_line(p, c, a, cand)])[0]
            return (o.startswith("diff ") and "before=" in o and "|bad:" not in o.split("before=")[1].split(" ")[0]) or o.startswith("panic")
        small = shrink_program(fns, fails) if fails(fns) else fns
        ans2 = run_harness([prog_line(p, c, a, small)])[0]
        m = re.match(r"diff arg=(\d+)", ans2)
        args2 = [a[int(m.group(1))]] if m else a
        shown = run_harness([f"show {p} {c} | | {pp_program(small)}"])[0]
        payload = {"protocol": "prog", "label": label, "pass": p, "config_bits": c, "args": args2,
                   "program": pp_program(small), "answer": ans2, "mir": shown}
        fid = classify_prog(p, small, ans2)
        if fid and ans2.startswith("diff"):
            # the signature must explain *every* failing argument tuple, not just the first one
            for one in a:
                o = run_harness([prog_line(p, c, [one], small)])[0]
                if not o.startswith("ok ") and classify_prog(p, small, o) != fid:
                    fid, ans2, args2 = None, o, [one]
                    payload.update({"args": args2, "answer": ans2})
                    break
        if fid and finding(ctx, fid):
            ctx.known(finding(ctx, fid))
        elif ans2.startswith("panic temp-counter-stale"):
            ctx.violation("optimize_sources leaves the heap's temporary-name counter behind names it issued itself "
                          f"(later phases will re-issue them): {ans2[6:200]}", payload)
        elif ans2.startswith("panic"):
            ctx.violation(f"optimisation pass `{p}` (config {c}) panics on a generated MIR program: {ans2[:160]}", payload)
        elif ans2.startswith("diff"):
            ctx.violation(f"optimisation pass `{p}` (config {c}) changes behaviour: {ans2}", payload)
        else:
            ctx.violation(f"harness could not run a generated program: {ans2[:200]}", payload, no_input=True)
    return stats


def run_probes(ctx):
    """One dedicated probe per open finding; a probe that stops failing prints nothing."""
    for fid, p, c, args, text in PROBES:
        f = finding(ctx, fid)
        line = f"prog {p} {c} | {';'.join(','.join(map(str, t)) for t in args)} | {text}"
        ans = run_harness([line])[0]
        if ans.startswith("ok "):
            continue
        got = classify_prog(p, parse_prog_text(text), ans)
        if f and got == fid:
            ctx.known(f)
        elif got and finding(ctx, got):
            ctx.known(finding(ctx, got))
        else:
            ctx.violation(f"probe for {fid} fails with an unrecognised signature: {ans[:200]}",
                          {"protocol": "prog", "pass": p, "config_bits": c, "args": args, "program": text, "answer": ans})


def run(ctx):
    def search():
        # a proof obligation broke: try to find a concrete failing input with the model-free oracle
        rng = ctx.rng.fork()
        lines = []
        for _ in range(1500):
            lines += gen_kernel_line(rng)
        impl = run_harness(lines)
        for i, l in enumerate(lines):
            v = judge_pair(lines, impl, i)
            if v and v[0] == "bad":
                ctx.violation(v[1], {"protocol": "kernel", "label": "search after broken proof", "line": l, "impl": impl[i]})
                return True
        return False

    res = common.proof_gate(ctx, search)
    if not os.path.exists(common.harness_bin("C02")) or not os.path.exists(common.driver_bin("C02")):
        return ctx.finish(res, trusted=common.TRUSTED_COMMON)
    rng = ctx.rng
    # corpus first
    cdir = os.path.join(common.VERIF, "corpus", "C02")
    corpus_lines = 0
    for f in sorted(os.listdir(cdir)) if os.path.isdir(cdir) and not os.environ.get("C02_ONLY") else []:
        lines = [l.rstrip("\n") for l in open(os.path.join(cdir, f)) if l.strip() and not l.startswith("#")]
        klines = [l for l in lines if not l.startswith("prog ")]
        if klines:
            run_kernels(ctx, klines, f"corpus/{f}")
        for l in lines:
            if l.startswith("prog "):
                head, args, text = l[5:].split("|", 2)
                p, c = head.split()
                a = [tuple(int(x) for x in t.split(",") if x.strip()) for t in args.split(";") if t.strip()]
                check_programs(ctx, [(p, int(c), a, parse_prog_text(text))], f"corpus/{f}")
        corpus_lines += len(lines)
    # 1. kernel correspondence + kernel oracle
    only = os.environ.get("C02_ONLY", "")      # diagnosis only: restrict to one stream (kernel|prog|src)
    nk = ctx.scale(5000, 80000) if only in ("", "kernel") else 0
    lines = []
    if nk:
        # deterministic: every position at which a nested loop may mention the outer counter
        lines += [f"ivuse {pos} {b}" for pos in ("none", "init", "loopvalue", "guard", "body", "print", "ip", "nt", "ix", "cs", "la", "st", "cl") for b in (3, 6)]
        # CCP's boolean shortcut: literal pairs x branch emptiness x number of final assignments
        for e1_, e2_ in ((1, 0), (0, 1), (1, 1), (0, 0), (2, 0)):
            for s1_ in "epd":
                for s2_ in "epd":
                    for nfa_ in (0, 1, 2):
                        lines.append(f"ccpif {e1_} {e2_} {s1_} {s2_} {nfa_}")
        # DCE through branches: dead / live definitions before, inside and after SingleIf / IfElse, dead final assignments
        lines += ["dcel v6 b v2 add v0 i1 [ v0 0 b v3 mul v2 v2 ] { v1 b v4 add v2 i1 p v4 | ; 2 v5 v4 i0 v6 v2 v2 }",
                  "dcel v0 b v2 div v0 v1 { v1 b v4 add v2 i1 | b v7 mod v0 v1 ; 1 v5 v4 i0 } [ v1 1 p v0 ]",
                  "dcel v9 b v2 add v0 i1 { v1 | ; 1 v9 v2 i3 }",
                  "dcel v0 b v2 add v0 i1 { v1 b v3 mul v2 i2 | b v4 mul v2 i3 ; 1 v5 v3 v4 } [ v1 0 b v6 add v5 i1 ]",
                  "dcel v5 b v2 add v0 i1 { v1 b v3 mul v2 i2 | b v4 mul v2 i3 ; 1 v5 v3 v4 } [ v1 0 b v6 add v5 i1 p v6 ]",
                  "dcel v1 [ v0 1 b v2 add v0 i1 p v2 ] [ v0 0 b v3 div v1 v0 ] [ v1 0 ]"]
        # DCE's use collector: the probed loop variable v1 is read in exactly ONE syntactic position (or none)
        uses = {"callee": "ic v1 v2 1 v0 p v2", "arg": "cr v2 1 v1 p v2", "ctx": "cl v2 v1 ic v2 v3 1 v0 p v3", "field": "st v2 2 v1 i1 cr _ 1 v2",
                "ptr": "ix v2 v1 0 p v2", "cast": "cs v2 v1 p v2", "isp": "ip v2 v1 p v2", "not": "nt v2 v1 p v2", "operand": "b v2 add v1 i1 p v2",
                "brk": "k v1", "dead": "b v2 add v1 i1", "none": "p v0"}
        for u_ in uses.values():
            lines.append("dceloop " + u_)
            lines.append("dceloop p v0 " + u_ + " p v0")
        # straight-line: a definition used only in ONE position of a later statement (or not at all)
        for u_ in uses.values():
            lines.append("dceuse v0 b v1 add v0 i1 " + u_)
            lines.append("dceuse v0 st v1 1 v0 " + u_)
        # closed-form loop elimination: every combination of its decline conditions x break value kinds x guard kinds
        for g_, i0_, st_, b_ in (("lt", 0, 1, 10), ("le", 3, 2, 9), ("gt", 5, -1, -4), ("ge", 0, -3, -9), ("lt", 0, 0, 5), ("lt", 9, 1, 2)):
            for lit_ in (1, 0):
                for flags in ((0, 0, 0), (1, 0, 0), (0, 1, 0), (0, 0, 1), (1, 1, 1)):
                    for brk_ in ("counter", "lit", "giv", "outer", "inner", "none"):
                        if brk_ == "inner" and flags == (0, 0, 0):
                            continue
                        lines.append(f"algopt {g_} {i0_} {st_} {b_} {lit_} {flags[0]} {flags[1]} {flags[2]} {brk_}")
        # LICM: every statement kind with (a) an invariant operand, (b) the loop variable, (c) a name defined by a
        # statement that stays in the loop (late init / call collector / final assignment / break collector / kept def)
        kinds = {"ip": "ip v{x} {a}", "nt": "nt v{x} {a}", "cs": "cs v{x} {a}", "cl": "cl v{x} {a}", "ix": "ix v{x} {a} 1",
                 "st": "st v{x} 2 {a} i3", "b": "b v{x} mul {a} i3", "bd": "b v{x} div i7 {a}", "bm": "b v{x} mod {a} i2"}
        # CSE: every value kind it tracks, common / not common to the two branches, behind an effect
        for a_, b_ in (("ix v2 v1 0", "ix v3 v1 0"), ("ix v2 v1 0", "ix v3 v1 1"), ("ip v2 v1", "ip v3 v1"), ("ip v2 v1", "ip v3 v0"),
                       ("nt v2 v1", "nt v3 v1"), ("nt v2 v1", "ip v3 v1"), ("b v2 div v0 v1", "b v3 div v0 v1"), ("b v2 xor v0 v1", "b v3 xor v0 v1")):
            lines.append(f"csek p v0 {a_} / p v1 {b_}")
            lines.append(f"csek {a_} b v4 add v0 i1 / b v5 add v0 i1 {b_}")
        stays = ["ld v3 la v3 v1", "cr v3 1 v1", "if 1 v3", "wh v3", "b v3 add v0 i1", "sf", "p v1", "k v1"]
        for kname, pat in kinds.items():
            for a in ("v1", "v0", "i4"):
                lines.append("licmk " + pat.format(x=2, a=a))
            for st_ in stays:
                lines.append("licmk " + st_ + " " + pat.format(x=5, a="v3") + " " + pat.format(x=6, a="v1"))
    while len(lines) < nk:
        lines += gen_kernel_line(rng)
    kstats, kimpl = run_kernels(ctx, lines, f"generated seed={ctx.seed}") if lines else ({"nontrivial": set(), "known": 0}, [])
    hist = {}
    for l in lines:
        hist[l.split()[0]] = hist.get(l.split()[0], 0) + 1
    # 2. probes for the open findings
    if not only:
        run_probes(ctx)
    # 3. translation validation on generated MIR programs
    nprog = ctx.scale(550, 6000) if only in ("", "prog") else 0
    cases, samples = [], []
    pass_hist = {}
    for k in range(nprog):
        fns = gen_program(rng.fork(), frozenset(f["id"] for f in ctx.open_findings))
        args = gen_args(rng)
        for p in FN_PASSES + ["inline", "unused"]:
            cases.append((p, 31, args, fns))
        cfgs = [rng.below(32), 31] if ctx.quick else list(range(32))
        for c in cfgs:
            cases.append(("rounds", c, args, fns))
        for c in ([rng.below(32), 31] if ctx.quick else list(range(32))):
            cases.append(("all", c, args, fns))
        if k < 2:
            samples.append({"program": pp_program(fns), "args": args[:3]})
    for p, c, _, _ in cases:
        pass_hist[p] = pass_hist.get(p, 0) + 1
    # deterministic: heap-object statement kinds through every pass that dispatches on them
    if only in ("", "prog"):
        sargs = [(3, 4), (0, 0), (-5, 7), (MAX, 2)]
        for fns in struct_family(rng.fork()):
            for p_ in ["sr", "ccp", "lvn", "cse", "dce", "loop", "inline", "unused"]:
                cases.append((p_, 31, sargs, fns))
            for c_ in (16, 31, 24, 0):
                cases.append(("rounds", c_, sargs, fns)); cases.append(("all", c_, sargs, fns))
        for text in multibreak_family():
            fns = parse_prog_text(text)
            for p_, c_ in (("ccp", 31), ("rounds", 31), ("all", 31), ("all", 8)):
                cases.append((p_, c_, [(3, 0), (9, 0), (0, 2), (6, 1)], fns))
        for text in ccpif_family():
            fns = parse_prog_text(text)
            for p_, c_ in (("ccp", 31), ("rounds", 0), ("all", 31)):
                cases.append((p_, c_, [(3, 1), (1, 3), (2, 0), (0, 0)], fns))
        for text in usepos_family():
            fns = parse_prog_text(text)
            for p_, c_ in (("dce", 31), ("loop", 31), ("rounds", 31), ("all", 31), ("all", 4)):
                cases.append((p_, c_, [(3, 4), (0, 0), (-5, 7)], fns))
        for text in algopt_family():
            fns = parse_prog_text(text)
            for p_, c_ in (("loop", 31), ("rounds", 31), ("all", 4)):
                cases.append((p_, c_, [(0, 5), (4, -2), (-30, 1)], fns))
    pstats = {"changed": set(), "compared": 0, "traps": 0, "timeouts": 0, "lines": 0}
    B = 400
    for i in range(0, len(cases), B):
        if len(ctx.violations) >= 3:
            break
        s = check_programs(ctx, cases[i:i + B], f"generated seed={ctx.seed}")
        pstats["changed"] |= s["changed"]
        for k in ("compared", "traps", "timeouts", "lines"):
            pstats[k] += s[k]
    # 4. MIR compiled from generated samlang sources through the real front end
    avoid = frozenset(f["id"] for f in ctx.open_findings)
    nsrc = ctx.scale(70, 1500) if only in ("", "src") else 0
    scases, src_sample = [], None
    if nsrc:
        rich = gen_source_rich_nostr(rng.fork())
        for p in ["ccp", "sr", "loop", "cse", "lvn", "dce", "inline", "unused"]:
            scases.append((p, 31, rich))
        for c in (31, 16, 24, 8, 0):
            scases.append(("rounds", c, rich)); scases.append(("all", c, rich))
    for k in range(nsrc):
        text = gen_source(rng.fork(), avoid, nested=(k < 4 or k % 5 == 0))     # the first modules always contain the nested family
        src_sample = src_sample or text
        for p in ["ccp", "sr", "loop", "cse", "lvn", "dce", "inline"]:
            scases.append((p, 31, text))
        for c in ([rng.below(32), 31] if ctx.quick else [0, 4, 8, 12, 20, 27, 31, rng.below(32)]):
            scases.append(("rounds", c, text)); scases.append(("all", c, text))
    sstats = {"changed": set(), "compared": 0, "lines": 0, "timeouts": 0, "rejected": 0}
    for i in range(0, len(scases), 300):
        if len(ctx.violations) >= 3:
            break
        st = check_sources(ctx, scases[i:i + 300], f"generated seed={ctx.seed}")
        sstats["changed"] |= st["changed"]
        for kk in ("compared", "lines", "timeouts", "rejected"):
            sstats[kk] += st[kk]
    # 5. end-to-end: the shipped compile_sources and other configurations vs the un-optimised build, under Node
    ne2e = (ctx.scale(4, 40) if only in ("", "e2e") else 0)
    estats = {"compared": 0, "programs": 0, "no_node": 0, "rejected": 0}
    e2e_sample = None
    _rich_placeholder = None
    # deterministic family first: every statement kind, each pass switched on alone and all together
    for k in range((ctx.scale(1, 6) if only in ("", "e2e") else 0)):
        if len(ctx.violations) >= 3:
            break
        text = gen_source_rich(rng.fork())
        cfgs = ["real", 31, 16, 4, 2, 1, 8, 0] if ctx.quick else ["real"] + list(range(32))
        st = check_e2e(ctx, [text], cfgs, run_ts=(k == 0), label="rich family")
        for kk in estats:
            estats[kk] += st[kk]
    for k in range(ne2e):
        if len(ctx.violations) >= 3:
            break
        text = gen_source_e2e(rng.fork())
        e2e_sample = e2e_sample or text
        cfgs = ["real", rng.below(32), rng.pick([4, 6, 12, 20, 28, 31])] if ctx.quick else ["real"] + list(range(32))
        st = check_e2e(ctx, [text], cfgs, run_ts=(k < 3 or not ctx.quick), label=f"generated seed={ctx.seed}")
        for kk in estats:
            estats[kk] += st[kk]
    if estats["no_node"]:
        ctx.assumptions.append("Node >= 22 not found: the end-to-end stream did not run")
    ksample = [{"line": l, "impl_answer": a} for l, a in list(zip(lines, kimpl))[:4]]
    ctx.cov.update({
        "e2e_programs": estats["programs"], "e2e_builds_run_and_compared": estats["compared"], "e2e_sample": e2e_sample,
        "evaluations": len(lines) + len(cases) + len(scases),
        "distinct_nontrivial": len(kstats["nontrivial"]) + len(pstats["changed"]) + len(sstats["changed"]),
        "source_program_cases": len(scases),
        "source_program_runs_compared": sstats["compared"],
        "source_program_lines_compared": sstats["lines"],
        "source_programs_changed_by_pass": len(sstats["changed"]),
        "source_sample": src_sample,
        "rule": "kernel lines (fold/tgt/merge/trip/flex/order/unwrap/ccp/ivloop/ivorig/srloop/srorig/dce/licm/licmk/lvn/lvnw/cse/csek/inl/ivuse/algopt/dceuse/dceloop/dcel/ccpif) over a boundary-heavy 32-bit distribution "
                "(0, +-1, +-2, MIN, MIN+1, MAX, MAX-1, powers of two, sqrt(MAX), random) answered by the real functions/passes and by the Lean model; "
                "generated int-only MIR programs (straight-line, if/else with phis, single-if, counting loops of all four guard kinds and both stride "
                "signs, empty loops for the closed form, IV-elimination candidates, loops with 2-3 basic induction variables with distinct literal/parameter starts and derived variables of any of them live in prints/calls/accumulators, duplicated pure computations whose copy feeds every consuming position (call argument, operand, condition, if/else final assignment, break value, loop initial/loop value, return value), helper functions for inlining) run before/after each single pass, "
                "the per-function round driver and optimize_sources (quick: 2 of the 32 configurations per program, thorough: all 32) over 8 argument "
                "tuples incl. MIN/MAX; MIR compiled from generated samlang sources (tail-recursive functions with several counters, functions whose exit value recomputes / logs the expression of their exit test) through the real front end, run before/after every pass; after every optimize_sources the invariant `heap's next temporary id > every _tN the optimised program defines` is checked; end-to-end programs (counted loops with derived values, lambdas called in the loop, method references, unused call results) are built by the shipped compile_sources and by other configurations and run under Node against the un-optimised build. Non-trivial = distinct kernel line on which a non-default rule fired (folded / merged / reordered / positive trip "
                "count / bind / loop with >=1 iteration) plus distinct (program, pass, config) whose MIR text was actually changed by the pass.",
        "samples": ksample + samples,
        "traces_validated_against_impl": len(lines),
        "kernel_line_histogram": hist,
        "program_cases_by_pass": pass_hist,
        "program_executions_compared": pstats["compared"],
        "program_runs_ending_in_trap": pstats["traps"],
        "program_runs_inconclusive_timeout": pstats["timeouts"],
        "printed_lines_compared": pstats["lines"],
        "programs_changed_by_pass": len(pstats["changed"]),
        "known_finding_hits_in_kernel_stream": kstats["known"],
        "corpus_lines": corpus_lines,
        "partial_theorems": {
            "ccp_rule_exact_partial": "CcpSafe: not (x/x or x%x with x = 0)  [C02-F2 open]",
            "merge_sound_partial": "ordering comparisons only when x + c1 does not wrap  [C02-F3 open]",
            "ivelim_guard_partial / ivelim_sound_noovf": "guard `<`, multiplier > 0, m*i+c in range along the run and at the bound  [C02-F4 open]",
            "ivelim_sound_partial": "the new guard decides like the old one at every iteration up to the exit",
        },
        "full_strength_theorems": ["fold_exact", "fold_never_panics", "binaryUnwrapped_sound", "flexibleOrder_sound", "flexUnwrapped_sound",
                                   "strength_sound", "strength_multi_sound", "strength_multi_trace", "loopopt_strength_path_sound",
                                   "tripcount_exact", "tripcount_final_value", "dce_preserves", "licm_no_new_trap",
                                   "lvnSimple_preserves", "lvn_preserves", "lvnL_preserves", "iterLoop_preserves", "lvnLoop_preserves",
                                   "cse_hoist_order", "inlineBody_preserves", "inline_preserves", "ivelim_negative_multiplier_fixed",
                                   "phases_disjoint", "rounds_invariant", "lowering_disjoint", "unused_counter_irrelevant",
                                   "licmF_hoisted_invariant", "licmF_kept_defs_variant", "cseC_never_hoists_div", "algopt_sound",
                                   "dceU_kept_uses_live", "dceU_removed_not_read", "dropped_loop_var_unused",
                                   "execL_irrelS", "fresh_prefix_preserves", "cse_preserves", "dceS_preserves", "dceL_preserves",
                                   "ifshortcut_sound", "ifshortcut_requires_empty_branches", "licm_permutation"],
        "pending": ["CSE is proved for an if/else whose branches are statement blocks (cse_preserves); if/else nested inside branches and loops are validated only",
                    "lvn: proved for blocks of Binary/call/Break, SingleIf and IfElse (with final assignments) over statement blocks, and for a While over such a body (initial values, loop values, every fuel); deeper nesting (loops inside branches, branches inside branches) is validated only",
                    "inlining: proved for a callee whose body is a block of Binary/call statements (fresh-name renaming, parameter substitution, return move); callee bodies with control flow, the cost model and recursion guards are validated only",
                    "scalar replacement: no Lean model; validated by the interpreter on a deterministic struct/closure family (MIR level) and on the rich source family, per pass and per configuration",
                    "DCE is proved through SingleIf / IfElse over statement blocks (dceL_preserves) and for the While arm's loop-variable retention (dropped_loop_var_unused); the semantic statement for DCE of a While body (fuel induction) and deeper nesting are validated only",
                    "LICM: permutation equivalence is proved for bodies of Binary / call statements (licm_permutation); for the other statement kinds only the hoisting rule (invariant operands, trap-free) is proved",
                    "inlining, LVN, scalar replacement, unused-name elimination, CCP/loop drivers: validated, not modelled"],
    })
    ctx.assumptions += ["dev build profile of the compiler (overflow checks on), as used by the repo's own tests",
                        "generated MIR programs are int-only (no structs/closures): scalar replacement is exercised only as a no-op; source-derived MIR uses strings only as Str.fromInt(x) fed to Process.println",
                        "the harness MIR interpreter and the Python `tgt` are the reference for the wasm target's i32 semantics (cross-checked against each other on every run)"]
    return ctx.finish(res, trusted=common.TRUSTED_COMMON + [
        "hand-written model Model/OptKernel.lean of evaluate_bin_op, CCP's literal rules, binary_unwrapped/flexible_order_binary, merge_binary_expression, trip counts, IV elimination and strength reduction (observed counting loop; loops with several basic induction variables), straight-line DCE, LICM of Binary statements",
        "the real front end (parser, checker, HIR lowering, specialisation, tail-recursion rewrite) as producer of source-derived MIR",
        "hook H1 (cfg(samlang_verif) wrappers around the private functions; add-only)",
        "MIR interpreter in harness/src/bin/c02.rs (wasm i32 semantics incl. traps; prints as observable trace) and the Python re-implementation `tgt`",
        "Node >= 22 and the real back ends for the end-to-end stream (shipped compile_sources and other configurations vs the un-optimised build)",
        "not modelled in Lean (validated by before/after execution only): CCP/loop drivers, LVN, CSE, DCE/LICM beyond straight-line blocks, inlining, unused-name elimination, scalar replacement"])


def replay(ctx, path):
    common.build_harness("C02"); common.build_lean(["drv-c02"])
    data = json.load(open(path))
    r = data["replay"]
    if r.get("protocol") == "prog":
        args = ";".join(",".join(str(x) for x in t) for t in r["args"])
        line = f"prog {r['pass']} {r['config_bits']} | {args} | {r['program']}"
        ans = run_harness([line, f"show {r['pass']} {r['config_bits']} | | {r['program']}"])
        print(line); print(ans[0]); print(ans[1].replace(" ; ", "\n"))
        return 0 if ans[0].startswith("ok ") else 1
    if r.get("line"):
        lines = [r["line"]]
        if lines[0].startswith("ivloop "):
            lines.append("ivorig " + lines[0][7:])
        if lines[0].startswith("srloop "):
            lines.append("srorig " + lines[0][7:])
        impl, model = common.run_pair("C02", lines)
        bad = False
        for i, l in enumerate(lines):
            v = judge_pair(lines, impl, i) if i + 1 < len(impl) or not l.startswith(("ivloop", "srloop")) else None
            print(f"{l:60} impl={impl[i]:30} model={model[i]}  oracle={v}")
            bad = bad or bool(v) or impl[i] != model[i]
        return 1 if bad else 0
    print(json.dumps(data, indent=1))
    return 1
