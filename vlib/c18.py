"""C18 — std Map / Set / List behave like finite maps, sets, sequences.

Proof: lean/SamVerif/Props/C18.lean over Model/StdMap.lean, StdSet.lean, StdList.lean (hand
transcriptions of std/map.sam, std/set.sam, std/list.sam).
Tie (`stdops` protocol): random operation histories are turned into a samlang driver program
(`gen_program`), compiled in-process by the real compiler together with the real std sources
(harness/src/bin/c18.rs) and executed as WebAssembly and TypeScript under Node 22; every printed
answer — including the full tree shape with stored heights after every update — is compared line
by line with the Lean model driver (lean/Driver/C18.lean) run on the same op lines.
Oracle (independent of the model): a finite-map/set/sequence specification written directly in
Python (`Spec`) plus structural invariants (strictly ascending in-order keys, stored heights, balance).
"""
import json, os, subprocess
from . import common

REGS = 4
I30 = (1 << 30) - 1

# ----------------------------------------------------------------------------------------------
# program generation (ops -> samlang)

PRELUDE = """import { Int, Bool } from std.boxed;
import { Map } from std.map;
import { Set } from std.set;
import { List } from std.list;
import { Option } from std.option;
import { Pair, Triple } from std.tuples;
import { Result } from std.result;

class Main {
  function dm(m: Map<Int, int>): Str =
    match m {
      Empty -> "E",
      Leaf(k, v) -> "(L " :: k.toString() :: " " :: Str.fromInt(v) :: ")",
      Node(h, k, v, l, r) -> "(N " :: Str.fromInt(h) :: " " :: k.toString() :: " " :: Str.fromInt(v) :: " " :: Main.dm(l) :: " " :: Main.dm(r) :: ")",
    }

  function ds(s: Set<Int>): Str =
    match s {
      Empty -> "E",
      Leaf(v) -> "(L " :: v.toString() :: ")",
      Node(h, v, l, r) -> "(N " :: Str.fromInt(h) :: " " :: v.toString() :: " " :: Main.ds(l) :: " " :: Main.ds(r) :: ")",
    }

  function dlh(l: List<int>): Str =
    match l {
      Nil -> "",
      Cons(v, rest) -> match rest {
        Nil -> Str.fromInt(v),
        Cons(_, _) -> Str.fromInt(v) :: "," :: Main.dlh(rest),
      },
    }

  function dl(l: List<int>): Str = "[" :: Main.dlh(l) :: "]"

  function deh(l: List<Pair<Int, int>>): Str =
    match l {
      Nil -> "",
      Cons(p, rest) -> match rest {
        Nil -> p.e0.toString() :: ":" :: Str.fromInt(p.e1),
        Cons(_, _) -> p.e0.toString() :: ":" :: Str.fromInt(p.e1) :: "," :: Main.deh(rest),
      },
    }

  function ob(b: bool): Str = if b { "true" } else { "false" }

  function oi(o: Option<int>): Str =
    match o {
      None -> "none",
      Some(v) -> "some " :: Str.fromInt(v),
    }

  function obi(o: Option<Int>): Str =
    match o {
      None -> "none",
      Some(v) -> "some " :: v.toString(),
    }

  function opair(o: Option<Pair<int, int>>): Str =
    match o {
      None -> "none",
      Some(p) -> "some " :: Str.fromInt(p.first()) :: "," :: Str.fromInt(p.second()),
    }

  function dr(r: Result<int, int>): Str =
    match r {
      Ok(v) -> "ok " :: Str.fromInt(v),
      Error(e) -> "err " :: Str.fromInt(e),
    }

  function dru(r: Result<unit, int>): Str =
    match r {
      Ok(_) -> "ok unit",
      Error(e) -> "err " :: Str.fromInt(e),
    }

  function okv(o: Option<Pair<Int, int>>): Str =
    match o {
      None -> "none",
      Some(p) -> "some " :: p.e0.toString() :: " " :: Str.fromInt(p.e1),
    }

"""


def lit(n):
    n = int(n)
    return str(n) if n >= 0 else f"({n})"


def pred_kv(p, c):
    # written `c > k.value`: the parser reads `k.value < c` as a type-argument list
    return {"klt": f"{lit(c)} > k.value", "kge": f"{lit(c)} <= k.value", "kodd": "k.value % 2 != 0",
            "vlt": f"{lit(c)} > v", "all": "true"}.get(p, "false")


def pred_x(p, c, x="x"):
    return {"lt": f"{lit(c)} > {x}", "ge": f"{lit(c)} <= {x}", "odd": f"{x} % 2 != 0", "all": "true"}.get(p, "false")


NONE = "Option.None<int>()"
UPD = {"0": lambda c: f"(d) -> {NONE}",
       "1": lambda c: f"(d) -> Option.Some({lit(c)})",
       "2": lambda c: f"(d) -> d.map((v) -> (v + {lit(c)}) % 1000)",
       "3": lambda c: f"(d) -> match d {{ None -> Option.Some({lit(c)}), Some(_) -> {NONE} }}"}
CUN = {"0": "(k, v1, v2) -> Option.Some((v1 + v2) % 1000)", "1": f"(k, v1, v2) -> {NONE}",
       "2": "(k, v1, v2) -> Option.Some(v2)", "3": "(k, v1, v2) -> Option.Some(v1)"}
MRG = {"0": "(k: Int, a: Option<int>, b: Option<int>) -> match a { Some(x) -> Option.Some(x), None -> b }",
       "1": f"(k: Int, a: Option<int>, b: Option<int>) -> match a {{ None -> {NONE}, Some(x) -> match b {{ None -> {NONE}, Some(y) -> Option.Some((x + y) % 1000) }} }}",
       "2": f"(k: Int, a: Option<int>, b: Option<int>) -> match a {{ None -> b, Some(x) -> match b {{ None -> Option.Some(x), Some(_) -> {NONE} }} }}"}
SMAP = {"0": lambda c: f"(x) -> Int.init(x.value + {lit(c)})", "1": lambda c: "(x) -> Int.init(0 - x.value)",
        "2": lambda c: f"(x) -> Int.init({lit(c)})", "3": lambda c: "(x) -> x"}


def gen_program(ops):
    """One history (without its leading `reset`) -> text of module Main. Every op prints exactly
    one line. Registers are SSA-renamed (samlang has no assignment)."""
    cur = {}
    body = []
    for i in range(REGS):
        body.append(f"    let mInit{i} = Map.empty<Int, int>();")
        body.append(f"    let sInit{i} = Set.empty<Int>();")
        body.append(f"    let lInit{i} = List.nil<int>();")
        cur[f"m{i}"], cur[f"s{i}"], cur[f"l{i}"] = f"mInit{i}", f"sInit{i}", f"lInit{i}"
    for n, line in enumerate(ops):
        t = line.split(" ")
        op = t[0]
        R = lambda r: cur[r]

        def new(r):
            v = f"{r[0]}v{n}r{r[1:]}"
            return v

        def store(r, expr, dump):
            v = new(r)
            body.append(f"    let {v} = {expr};")
            cur[r] = v
            body.append(f"    let _ = Process.println(Main.{dump}({v}));")

        def out(expr):
            body.append(f"    let _ = Process.println({expr});")

        K = lambda s: f"Int.init({lit(s)})"
        if op == "mins": store(t[1], f"{R(t[2])}.insert({K(t[3])}, {lit(t[4])})", "dm")
        elif op == "mrem": store(t[1], f"{R(t[2])}.remove({K(t[3])})", "dm")
        elif op == "mget": out(f"Main.oi({R(t[1])}.get({K(t[2])}))")
        elif op == "mhas": out(f"Main.ob({R(t[1])}.containsKey({K(t[2])}))")
        elif op == "mupd": store(t[1], f"{R(t[2])}.update({K(t[3])}, {UPD[t[4]](t[5])})", "dm")
        elif op == "muni": store(t[1], f"{R(t[2])}.union({R(t[3])})", "dm")
        elif op == "mcun": store(t[1], f"{R(t[2])}.customizedUnion({R(t[3])}, {CUN[t[4]]})", "dm")
        elif op == "mmrg": store(t[1], f"{R(t[2])}.merge({R(t[3])}, {MRG[t[4]]})", "dm")
        elif op == "mspl":
            body.append(f"    let sp{n} = {R(t[3])}.split({K(t[4])});")
            a, b = new(t[1]), new(t[2]) + "b"
            body.append(f"    let {a} = sp{n}.e0;")
            body.append(f"    let {b} = sp{n}.e2;")
            cur[t[1]] = a; cur[t[2]] = b
            out(f'Main.dm({a}) :: " " :: Main.oi(sp{n}.e1) :: " " :: Main.dm({b})')
        elif op == "mfil": store(t[1], f"{R(t[2])}.filter((k, v) -> {pred_kv(t[3], t[4])})", "dm")
        elif op == "mpar":
            body.append(f"    let pp{n} = {R(t[3])}.partition((k, v) -> {pred_kv(t[4], t[5])});")
            a, b = new(t[1]), new(t[2]) + "b"
            body.append(f"    let {a} = pp{n}.e0;")
            body.append(f"    let {b} = pp{n}.e1;")
            cur[t[1]] = a; cur[t[2]] = b
            out(f'Main.dm({a}) :: " " :: Main.dm({b})')
        elif op == "mfold": out(f'{R(t[1])}.fold("", (acc, k, v) -> acc :: k.toString() :: ":" :: Str.fromInt(v) :: ";")')
        elif op == "mmin": out(f"Main.okv({R(t[1])}.min())")
        elif op == "mmax": out(f"Main.okv({R(t[1])}.max())")
        elif op == "msize": out(f"Str.fromInt({R(t[1])}.size())")
        elif op == "ment": out(f'"[" :: Main.deh({R(t[1])}.entries()) :: "]"')
        elif op == "mkeys": store(t[1], f"{R(t[2])}.keys().map((k) -> k.value)", "dl")
        elif op == "mmap": store(t[1], f"{R(t[2])}.map((k, v) -> (v + {lit(t[3])}) % 1000)", "dm")
        elif op == "mall": out(f"Main.ob({R(t[1])}.forAll((k, v) -> {pred_kv(t[2], t[3])}))")
        elif op == "many": out(f"Main.ob({R(t[1])}.exists((k, v) -> {pred_kv(t[2], t[3])}))")
        elif op == "mcmp": out(f"Str.fromInt({R(t[1])}.compare({R(t[2])}, (x, y) -> x - y))")
        elif op == "meq": out(f"Main.ob({R(t[1])}.equal({R(t[2])}, (x, y) -> x == y))")
        elif op == "miter":
            body.append(f'    let _ = {R(t[1])}.iter((k, v) -> Process.println("~" :: k.toString() :: ":" :: Str.fromInt(v)));')
            out('"end"')
        elif op == "mmink": out(f"Main.obi({R(t[1])}.minKey())")
        elif op == "mmaxk": out(f"Main.obi({R(t[1])}.maxKey())")
        elif op == "scmp": out(f"Str.fromInt({R(t[1])}.compare({R(t[2])}, (x, y) -> x.value - y.value))")
        elif op == "seq": out(f"Main.ob({R(t[1])}.equal({R(t[2])}, (x, y) -> x.value == y.value))")
        elif op == "siter":
            body.append(f'    let _ = {R(t[1])}.iter((e) -> Process.println("~" :: e.toString()));')
            out('"end"')
        elif op == "sins": store(t[1], f"{R(t[2])}.insert({K(t[3])})", "ds")
        elif op == "srem": store(t[1], f"{R(t[2])}.remove({K(t[3])})", "ds")
        elif op == "shas": out(f"Main.ob({R(t[1])}.contains({K(t[2])}))")
        elif op == "suni": store(t[1], f"{R(t[2])}.union({R(t[3])})", "ds")
        elif op == "sint": store(t[1], f"{R(t[2])}.intersection({R(t[3])})", "ds")
        elif op == "sdif": store(t[1], f"{R(t[2])}.diff({R(t[3])})", "ds")
        elif op == "ssub": out(f"Main.ob({R(t[1])}.subset({R(t[2])}))")
        elif op == "sdis": out(f"Main.ob({R(t[1])}.disjoint({R(t[2])}))")
        elif op == "sspl":
            body.append(f"    let sp{n} = {R(t[3])}.split({K(t[4])});")
            a, b = new(t[1]), new(t[2]) + "b"
            body.append(f"    let {a} = sp{n}.e0;")
            body.append(f"    let {b} = sp{n}.e2;")
            cur[t[1]] = a; cur[t[2]] = b
            out(f'Main.ds({a}) :: " " :: Main.ob(sp{n}.e1) :: " " :: Main.ds({b})')
        elif op == "sfil": store(t[1], f"{R(t[2])}.filter((e) -> {pred_x(t[3], t[4], 'e.value')})", "ds")
        elif op == "spar":
            body.append(f"    let pp{n} = {R(t[3])}.partition((e) -> {pred_x(t[4], t[5], 'e.value')});")
            a, b = new(t[1]), new(t[2]) + "b"
            body.append(f"    let {a} = pp{n}.e0;")
            body.append(f"    let {b} = pp{n}.e1;")
            cur[t[1]] = a; cur[t[2]] = b
            out(f'Main.ds({a}) :: " " :: Main.ds({b})')
        elif op == "sfold": out(f'{R(t[1])}.fold("", (acc, e) -> acc :: e.toString() :: ";")')
        elif op == "smin": out(f"Main.obi({R(t[1])}.min())")
        elif op == "smax": out(f"Main.obi({R(t[1])}.max())")
        elif op == "ssize": out(f"Str.fromInt({R(t[1])}.size())")
        elif op == "sels": store(t[1], f"{R(t[2])}.elements().map((e) -> e.value)", "dl")
        elif op == "sfrl": store(t[1], f"Set.fromList({R(t[2])}.map((x) -> Int.init(x)))", "ds")
        elif op == "sall": out(f"Main.ob({R(t[1])}.forAll((e) -> {pred_x(t[2], t[3], 'e.value')}))")
        elif op == "sany": out(f"Main.ob({R(t[1])}.exists((e) -> {pred_x(t[2], t[3], 'e.value')}))")
        elif op == "smap": store(t[1], f"{R(t[2])}.map({SMAP[t[3]](t[4])})", "ds")
        elif op == "lcons": store(t[1], f"{R(t[2])}.cons({lit(t[3])})", "dl")
        elif op == "lof": store(t[1], f"List.of({lit(t[2])})", "dl")
        elif op == "lapp": store(t[1], f"{R(t[2])}.append({R(t[3])})", "dl")
        elif op == "lrev": store(t[1], f"{R(t[2])}.reverse()", "dl")
        elif op == "lrap": store(t[1], f"{R(t[2])}.reverseAndAppend({R(t[3])})", "dl")
        elif op == "lfil": store(t[1], f"{R(t[2])}.filter((x) -> {pred_x(t[3], t[4])})", "dl")
        elif op == "lmap": store(t[1], f"{R(t[2])}.map((x) -> x % 1000 * 2 + {lit(t[3])})", "dl")
        elif op == "lfmp": store(t[1], f"{R(t[2])}.filterMap((x) -> if {pred_x(t[3], t[4])} {{ Option.Some(x % 1000 + 1) }} else {{ {NONE} }})", "dl")
        elif op == "llen": out(f"Str.fromInt({R(t[1])}.length())")
        elif op == "lfst": out(f"Main.oi({R(t[1])}.first())")
        elif op == "lrst":
            body.append(f"    let rr{n} = {R(t[2])}.rest();")
            v = new(t[1])
            body.append(f"    let {v} = match rr{n} {{ None -> List.nil<int>(), Some(r) -> r }};")
            cur[t[1]] = v
            out(f'match rr{n} {{ None -> "none", Some(r) -> "some " :: Main.dl(r) }}')
        elif op == "lfold": out(f'{R(t[1])}.fold((acc, x) -> acc :: Str.fromInt(x) :: ";", "")')
        elif op == "lfdr": out(f'{R(t[1])}.foldRight((x, acc) -> acc :: Str.fromInt(x) :: ";", "")')
        elif op == "lhas": out(f"Main.ob({R(t[1])}.contains({lit(t[2])}, (a, b) -> a == b))")
        elif op == "lall": out(f"Main.ob({R(t[1])}.forAll((x) -> {pred_x(t[2], t[3])}))")
        elif op == "lany": out(f"Main.ob({R(t[1])}.exists((x) -> {pred_x(t[2], t[3])}))")
        elif op == "lfnd": out(f"Main.oi({R(t[1])}.find((x) -> {pred_x(t[2], t[3])}))")
        elif op == "lfdm": out(f"Main.oi({R(t[1])}.findMap((x) -> if {pred_x(t[2], t[3])} {{ Option.Some(x % 1000 * 2) }} else {{ {NONE} }}))")
        elif op == "lbnd": store(t[1], f"{R(t[2])}.bind((x) -> List.of(x % 1000 + {lit(t[3])}).cons(x))", "dl")
        elif op == "lflt": store(t[1], f"List.flatten(List.of({R(t[4])}).cons({R(t[3])}).cons({R(t[2])}))", "dl")
        elif op == "liter":
            body.append(f'    let _ = {R(t[1])}.iter((x) -> Process.println("~" :: Str.fromInt(x)));')
            out('"end"')
        elif op == "lemp": out(f"Main.ob({R(t[1])}.isEmpty())")
        elif op == "scmp2": out(f"Str.fromInt({R(t[1])}.compare({R(t[2])}, (x, y) -> 7))")
        elif op == "bool":
            bx, by = ("true" if t[1] == "1" else "false"), ("true" if t[2] == "1" else "false")
            body.append(f"    let bs{n} = Set.empty<Bool>().insert(Bool.init({bx})).insert(Bool.init({by}));")
            out(f'bs{n}.fold("", (acc, e) -> acc :: e.toString() :: ";") :: "|" :: '
                f'Str.fromInt(Bool.init({bx}).compare(Bool.init({by}))) :: "|" :: Str.fromInt(Bool.init({bx}).intValue())')
        elif op in ("ounw", "rexp", "runw"):
            o = f"ov{n}"
            body.append(f"    let {o} = Option.Some({lit(t[1])}).filter((x) -> {pred_x(t[2], t[3])});")
            if op == "ounw":
                out(f"Str.fromInt({o}.unwrap())")
            elif op == "rexp":
                out(f'Str.fromInt(Result.fromOption({o}, {lit(t[3])}).expect("boom"))')
            else:
                out(f'Str.fromInt(Result.fromOption({o}, {lit(t[3])}).unwrap("ignored"))')
        elif op in ("optx", "resx"):
            o = f"ov{n}"
            body.append(f"    let {o} = Option.Some({lit(t[1])}).filter((x) -> {pred_x(t[2], t[3])});")
            if op == "optx":
                body.append(f'    let _ = {o}.iter((x) -> Process.println("~" :: Str.fromInt(x)));')
                out(f'Main.oi({o}.map((x) -> x + 1)) :: "|" :: Main.oi({o}.filter((x) -> x % 2 != 0)) :: "|" :: '
                    f'Main.oi({o}.bind((x) -> if x % 2 != 0 {{ Option.Some(x * 2) }} else {{ {NONE} }})) :: "|" :: '
                    f'Str.fromInt({o}.valueMap(-1, (x) -> x + {lit(t[3])})) :: "|" :: Main.ob({o}.isSome()) :: Main.ob({o}.isNone()) :: "|" :: '
                    f'Main.opair(Option.both({o}, Option.Some({lit(t[3])}).filter((x) -> x % 2 != 0))) :: "|" :: Main.oi({o}.tryUnwrap())')
            else:
                r = f"rv{n}"
                body.append(f"    let {r} = Result.fromOption({o}, {lit(t[3])});")
                body.append(f'    let _ = {r}.iter((x) -> Process.println("~" :: Str.fromInt(x)));')
                body.append(f'    let _ = {r}.iterError((x) -> Process.println("~" :: Str.fromInt(x)));')
                out(f'Main.dr({r}) :: "|" :: Main.ob({r}.isOk()) :: Main.ob({r}.isError()) :: "|" :: Main.oi({r}.ok()) :: "|" :: '
                    f'Main.dr({r}.map((x) -> x + 1)) :: "|" :: Main.dr({r}.mapError((x) -> x + 1)) :: "|" :: '
                    f'Main.dru({r}.ignore()) :: "|" :: Main.oi({r}.tryUnwrap())')
        else:
            raise ValueError("unknown op " + line)
    return PRELUDE + "  function main(): unit = {\n" + "\n".join(body) + "\n  }\n}\n"


# ----------------------------------------------------------------------------------------------
# dumps

def parse_dump(s):
    """'(N 3 2 20 (L 1 10) E)' -> nested tuples; returns None if malformed."""
    toks = s.replace("(", " ( ").replace(")", " ) ").split()
    pos = [0]

    def rd():
        if pos[0] >= len(toks):
            raise ValueError
        t = toks[pos[0]]; pos[0] += 1
        if t == "E":
            return ("E",)
        if t != "(":
            raise ValueError
        kind = toks[pos[0]]; pos[0] += 1
        items = []
        while toks[pos[0]] != ")":
            if toks[pos[0]] in ("(", "E"):
                items.append(rd())
            else:
                items.append(int(toks[pos[0]])); pos[0] += 1
        pos[0] += 1
        return (kind, *items)
    try:
        out = []
        while pos[0] < len(toks):
            if toks[pos[0]] in ("(", "E"):
                out.append(rd())
            else:
                out.append(toks[pos[0]]); pos[0] += 1
        return out
    except (ValueError, IndexError):
        return None


def tree_parts(t, is_map):
    """-> (h, payload, l, r) for N; payload = (k, v) or (x,)"""
    if is_map:
        return t[1], (t[2], t[3]), t[4], t[5]
    return t[1], (t[2],), t[3], t[4]


def inorder(t, is_map, acc=None):
    acc = [] if acc is None else acc
    stack, node = [], t
    while stack or node[0] != "E":
        while node[0] == "N":
            stack.append(node); node = tree_parts(node, is_map)[2]
        if node[0] == "L":
            acc.append(tuple(node[1:]))
            node = ("E",)
        if stack:
            n = stack.pop()
            _, pl, _, r = tree_parts(n, is_map)
            acc.append(pl)
            node = r
        else:
            break
    return acc


def height(t):
    return 0 if t[0] == "E" else 1 if t[0] == "L" else t[1]


def invariant_errors(t, is_map):
    """Structural invariants of a dumped tree, checked without the model."""
    errs = []

    def go(n):
        if n[0] != "N":
            return
        h, _, l, r = tree_parts(n, is_map)
        hl, hr = height(l), height(r)
        if h != max(hl, hr) + 1:
            errs.append(f"stored height {h} but children have heights {hl},{hr}")
        if abs(hl - hr) > 2:
            errs.append(f"unbalanced node: child heights {hl},{hr}")
        if h < 2:
            errs.append("Node of height < 2")
        go(l); go(r)
    go(t)
    ks = [p[0] for p in inorder(t, is_map)]
    if any(a >= b for a, b in zip(ks, ks[1:])):
        errs.append("in-order keys are not strictly ascending")
    return errs


def left_spine_nodes(t, is_map):
    n = 0
    while t[0] == "N":
        n += 1
        t = tree_parts(t, is_map)[2]
    return n


def has_empty_subtree(t, is_map):
    if t[0] == "E":
        return True
    if t[0] == "L":
        return False
    _, _, l, r = tree_parts(t, is_map)
    return has_empty_subtree(l, is_map) or has_empty_subtree(r, is_map)


def find_node(t, key, is_map):
    while t[0] == "N":
        _, pl, l, r = tree_parts(t, is_map)
        if key == pl[0]:
            return t
        t = l if key < pl[0] else r
    return t if t[0] == "L" and t[1] == key else None


# ----------------------------------------------------------------------------------------------
# specification (finite map = dict, finite set = set, sequence = list)

def tmod(a, b):
    """truncating remainder (wasm i32.rem_s, JS %, Lean Int.tmod), b > 0"""
    return abs(a) % b if a >= 0 else -(abs(a) % b)


def P(p, c, x):
    c = int(c)
    return {"lt": x < c, "ge": x >= c, "odd": tmod(x, 2) != 0, "all": True}.get(p, False)


def PKV(p, c, k, v):
    c = int(c)
    return {"klt": k < c, "kge": k >= c, "kodd": tmod(k, 2) != 0, "vlt": v < c, "all": True}.get(p, False)


def fmt_opt(v):
    return "none" if v is None else f"some {v}"


def fmt_list(l):
    return "[" + ",".join(str(x) for x in l) + "]"


def fmt_b(b):
    return "true" if b else "false"


class Spec:
    def __init__(self):
        self.m = {f"m{i}": {} for i in range(REGS)}
        self.s = {f"s{i}": set() for i in range(REGS)}
        self.l = {f"l{i}": [] for i in range(REGS)}

    def step(self, line):
        """-> list of (kind, register, expected abstract value) for stores, or ('ans', text)"""
        t = line.split(" ")
        op = t[0]
        m, s, l = self.m, self.s, self.l
        I = int
        if op == "mins":
            d = dict(m[t[2]]); d[I(t[3])] = I(t[4]); return [("m", t[1], d)]
        if op == "mrem":
            d = dict(m[t[2]]); d.pop(I(t[3]), None); return [("m", t[1], d)]
        if op == "mget": return [("ans", fmt_opt(m[t[1]].get(I(t[2]))))]
        if op == "mhas": return [("ans", fmt_b(I(t[2]) in m[t[1]]))]
        if op == "mupd":
            d = dict(m[t[2]]); k = I(t[3]); c = I(t[5]); old = d.get(k)
            new = {"0": None, "1": c, "2": None if old is None else tmod(old + c, 1000),
                   "3": c if old is None else None}[t[4]]
            if new is None: d.pop(k, None)
            else: d[k] = new
            return [("m", t[1], d)]
        if op == "muni":
            d = dict(m[t[3]]); d.update(m[t[2]]); return [("m", t[1], d)]
        if op == "mcun":
            a, b = m[t[2]], m[t[3]]; d = {}
            for k in set(a) | set(b):
                if k in a and k in b:
                    r = {"0": tmod(a[k] + b[k], 1000), "1": None, "2": b[k], "3": a[k]}[t[4]]
                    if r is not None: d[k] = r
                else:
                    d[k] = a[k] if k in a else b[k]
            return [("m", t[1], d)]
        if op == "mmrg":
            a, b = m[t[2]], m[t[3]]; d = {}
            for k in set(a) | set(b):
                x, y = a.get(k), b.get(k)
                if t[4] == "0": r = x if x is not None else y
                elif t[4] == "1": r = tmod(x + y, 1000) if x is not None and y is not None else None
                else: r = None if (x is not None and y is not None) else (x if x is not None else y)
                if r is not None: d[k] = r
            return [("m", t[1], d)]
        if op == "mspl":
            src = m[t[3]]; k = I(t[4])
            lo = {a: b for a, b in src.items() if a < k}; hi = {a: b for a, b in src.items() if a > k}
            return [("m", t[1], lo), ("mid", fmt_opt(src.get(k))), ("m", t[2], hi)]
        if op == "mfil":
            return [("m", t[1], {a: b for a, b in m[t[2]].items() if PKV(t[3], t[4], a, b)})]
        if op == "mpar":
            src = m[t[3]]
            return [("m", t[1], {a: b for a, b in src.items() if PKV(t[4], t[5], a, b)}),
                    ("m", t[2], {a: b for a, b in src.items() if not PKV(t[4], t[5], a, b)})]
        if op == "mfold": return [("ans", "".join(f"{k}:{v};" for k, v in sorted(m[t[1]].items())))]
        if op == "mmin":
            d = m[t[1]]; return [("ans", "none" if not d else f"some {min(d)} {d[min(d)]}")]
        if op == "mmax":
            d = m[t[1]]; return [("ans", "none" if not d else f"some {max(d)} {d[max(d)]}")]
        if op == "msize": return [("ans", str(len(m[t[1]])))]
        if op == "ment": return [("ans", "[" + ",".join(f"{k}:{v}" for k, v in sorted(m[t[1]].items())) + "]")]
        if op == "mkeys": return [("l", t[1], sorted(m[t[2]]))]
        if op == "mmap": return [("m", t[1], {k: tmod(v + I(t[3]), 1000) for k, v in m[t[2]].items()})]
        if op == "mall": return [("ans", fmt_b(all(PKV(t[2], t[3], k, v) for k, v in m[t[1]].items())))]
        if op == "many": return [("ans", fmt_b(any(PKV(t[2], t[3], k, v) for k, v in m[t[1]].items())))]
        if op in ("mcmp", "meq"):
            xs, ys = sorted(m[t[1]].items()), sorted(m[t[2]].items())
            if op == "meq": return [("ans", fmt_b(xs == ys))]
            res = None
            for (k1, v1), (k2, v2) in zip(xs, ys):
                if k1 != k2: res = k1 - k2; break
                if v1 != v2: res = v1 - v2; break
            if res is None: res = 0 if len(xs) == len(ys) else (-1 if len(xs) < len(ys) else 1)
            return [("ans", str(res))]
        if op == "miter": return [("ans", "".join(f"{k}:{v};" for k, v in sorted(m[t[1]].items())) + "end")]
        if op == "mmink": return [("ans", fmt_opt(min(m[t[1]]) if m[t[1]] else None))]
        if op == "mmaxk": return [("ans", fmt_opt(max(m[t[1]]) if m[t[1]] else None))]
        if op in ("scmp", "seq"):
            xs, ys = sorted(s[t[1]]), sorted(s[t[2]])
            if op == "seq": return [("ans", fmt_b(xs == ys))]
            res = None
            for a, b in zip(xs, ys):
                if a != b: res = a - b; break
            if res is None: res = 0 if len(xs) == len(ys) else (-1 if len(xs) < len(ys) else 1)
            return [("ans", str(res))]
        if op == "siter": return [("ans", "".join(f"{v};" for v in sorted(s[t[1]])) + "end")]
        if op == "sins": return [("s", t[1], s[t[2]] | {I(t[3])})]
        if op == "srem": return [("s", t[1], s[t[2]] - {I(t[3])})]
        if op == "shas": return [("ans", fmt_b(I(t[2]) in s[t[1]]))]
        if op == "suni": return [("s", t[1], s[t[2]] | s[t[3]])]
        if op == "sint": return [("s", t[1], s[t[2]] & s[t[3]])]
        if op == "sdif": return [("s", t[1], s[t[2]] - s[t[3]])]
        if op == "ssub": return [("ans", fmt_b(s[t[1]] <= s[t[2]]))]
        if op == "sdis": return [("ans", fmt_b(not (s[t[1]] & s[t[2]])))]
        if op == "sspl":
            src = s[t[3]]; x = I(t[4])
            return [("s", t[1], {a for a in src if a < x}), ("mid", fmt_b(x in src)), ("s", t[2], {a for a in src if a > x})]
        if op == "sfil": return [("s", t[1], {a for a in s[t[2]] if P(t[3], t[4], a)})]
        if op == "spar":
            src = s[t[3]]
            return [("s", t[1], {a for a in src if P(t[4], t[5], a)}), ("s", t[2], {a for a in src if not P(t[4], t[5], a)})]
        if op == "sfold": return [("ans", "".join(f"{v};" for v in sorted(s[t[1]])))]
        if op == "smin": return [("ans", fmt_opt(min(s[t[1]]) if s[t[1]] else None))]
        if op == "smax": return [("ans", fmt_opt(max(s[t[1]]) if s[t[1]] else None))]
        if op == "ssize": return [("ans", str(len(s[t[1]])))]
        if op == "sels": return [("l", t[1], sorted(s[t[2]]))]
        if op == "sfrl": return [("s", t[1], set(l[t[2]]))]
        if op == "sall": return [("ans", fmt_b(all(P(t[2], t[3], a) for a in s[t[1]])))]
        if op == "sany": return [("ans", fmt_b(any(P(t[2], t[3], a) for a in s[t[1]])))]
        if op == "smap":
            c = I(t[4]); f = {"0": lambda x: x + c, "1": lambda x: -x, "2": lambda x: c, "3": lambda x: x}[t[3]]
            return [("s", t[1], {f(a) for a in s[t[2]]})]
        if op == "lcons": return [("l", t[1], [I(t[3])] + l[t[2]])]
        if op == "lof": return [("l", t[1], [I(t[2])])]
        if op == "lapp": return [("l", t[1], l[t[2]] + l[t[3]])]
        if op == "lrev": return [("l", t[1], l[t[2]][::-1])]
        if op == "lrap": return [("l", t[1], l[t[2]][::-1] + l[t[3]])]
        if op == "lfil": return [("l", t[1], [x for x in l[t[2]] if P(t[3], t[4], x)])]
        if op == "lmap": return [("l", t[1], [tmod(x, 1000) * 2 + I(t[3]) for x in l[t[2]]])]
        if op == "lfmp": return [("l", t[1], [tmod(x, 1000) + 1 for x in l[t[2]] if P(t[3], t[4], x)])]
        if op == "llen": return [("ans", str(len(l[t[1]])))]
        if op == "lfst": return [("ans", fmt_opt(l[t[1]][0] if l[t[1]] else None))]
        if op == "lrst":
            src = l[t[2]]
            return [("lrst", t[1], src[1:], "none" if not src else "some " + fmt_list(src[1:]))]
        if op == "lfold": return [("ans", "".join(f"{x};" for x in l[t[1]]))]
        if op == "lfdr": return [("ans", "".join(f"{x};" for x in reversed(l[t[1]])))]
        if op == "lhas": return [("ans", fmt_b(I(t[2]) in l[t[1]]))]
        if op == "lall": return [("ans", fmt_b(all(P(t[2], t[3], x) for x in l[t[1]])))]
        if op == "lany": return [("ans", fmt_b(any(P(t[2], t[3], x) for x in l[t[1]])))]
        if op == "lfnd": return [("ans", fmt_opt(next((x for x in l[t[1]] if P(t[2], t[3], x)), None)))]
        if op == "lfdm": return [("ans", fmt_opt(next((tmod(x, 1000) * 2 for x in l[t[1]] if P(t[2], t[3], x)), None)))]
        if op == "lbnd":
            out = []
            for x in l[t[2]]: out += [x, tmod(x, 1000) + I(t[3])]
            return [("l", t[1], out)]
        if op == "lflt": return [("l", t[1], l[t[2]] + l[t[3]] + l[t[4]])]
        if op == "lemp": return [("ans", fmt_b(not l[t[1]]))]
        if op == "scmp2":
            xs, ys = sorted(s[t[1]]), sorted(s[t[2]])
            res = None
            for a, b in zip(xs, ys):
                res = (a - b) if a != b else 7
                break
            if res is None: res = 0 if len(xs) == len(ys) else (-1 if len(xs) < len(ys) else 1)
            return [("ans", str(res))]
        if op == "bool":
            bx, by = t[1] == "1", t[2] == "1"
            return [("ans", "".join(("true" if b else "false") + ";" for b in sorted({bx, by})) + f"|{int(bx) - int(by)}|{int(bx)}")]
        if op in ("ounw", "rexp", "runw"):
            a = I(t[1])
            if P(t[2], t[3], a): return [("ans", str(a))]
            return [("panic", {"ounw": "Unwrapping Option.None", "rexp": "boom", "runw": "Unwrapping Result.Error"}[op])]
        if op == "liter": return [("ans", "".join(f"{x};" for x in l[t[1]]) + "end")]
        if op in ("optx", "resx"):
            a, c = I(t[1]), I(t[3])
            o = a if P(t[2], t[3], a) else None
            so = fmt_opt
            if op == "optx":
                pre = "" if o is None else f"{o};"
                both = "none" if (o is None or tmod(c, 2) == 0) else f"some {o},{c}"
                return [("ans", pre + "|".join([so(None if o is None else o + 1), so(o if (o is not None and tmod(o, 2) != 0) else None),
                        so(o * 2 if (o is not None and tmod(o, 2) != 0) else None), str(-1 if o is None else o + c),
                        fmt_b(o is not None) + fmt_b(o is None), both, so(o)]))]
            sr = lambda ok, v: (f"ok {v}" if ok else f"err {v}")
            ok = o is not None
            pre = f"{o};" if ok else f"{c};"
            return [("ans", pre + "|".join([sr(ok, o if ok else c), fmt_b(ok) + fmt_b(not ok), so(o), sr(ok, o + 1 if ok else c),
                    sr(ok, o if ok else c + 1), ("ok unit" if ok else f"err {c}"), so(o)]))]
        raise ValueError(line)


def oracle(ops, answers, end):
    """Implementation-side check of the property (no model). `answers` = lines the compiled program
    printed, `end` = how it ended.  Returns (failures, shapes) where failures = [(index, kind, msg)]
    and shapes[i] = {reg: dump tree} of the source registers *before* op i (for signatures)."""
    spec = Spec()
    fails = []
    dumps = {}            # register -> last dumped tree of the implementation
    pre = []
    for i, line in enumerate(ops):
        pre.append(dict(dumps))
        if line.split(" ")[0] in PANIC_OPS:
            exp = spec.step(line)
            if exp[0][0] == "panic":
                if i < len(answers) or end != "panic:" + exp[0][1]:
                    fails.append((i, "answer", f"`{line}` must panic with `{exp[0][1]}`; the program "
                                  + (f"answered `{answers[i]}`" if i < len(answers) else f"ended with `{end}`")))
                break
        if i >= len(answers):
            if end != "ok":
                fails.append((i, "panic", f"program ended with `{end}` while executing this operation"))
            else:
                fails.append((i, "missing", "program printed fewer lines than operations"))
            break
        exp = spec.step(line)
        ans = answers[i]
        if exp[0][0] == "ans":
            if ans != exp[0][1]:
                fails.append((i, "answer", f"`{line}` answered `{ans}`, a finite map/set/sequence gives `{exp[0][1]}`"))
            continue
        if exp[0][0] == "lrst":
            _, reg, val, text = exp[0]
            spec.l[reg] = val
            if ans != text:
                fails.append((i, "answer", f"`{line}` answered `{ans}`, expected `{text}`"))
                spec.l[reg] = _resync_list(ans[5:]) if ans.startswith("some ") else []
            continue
        if exp[0][0] == "l":
            _, reg, val = exp[0]
            spec.l[reg] = val
            if ans != fmt_list(val):
                fails.append((i, "store", f"`{line}` produced {ans}, expected {fmt_list(val)}"))
                r = _resync_list(ans)
                if r is not None:
                    spec.l[reg] = r
            continue
        # tree results (one or two trees, possibly a middle answer)
        parsed = parse_dump(ans)
        want = [e for e in exp]
        if parsed is None:
            fails.append((i, "malformed", f"`{line}` printed `{ans}`"))
            continue
        # re-tokenise so that `some 5` / `none` / `true` middle answers are compared textually
        mids = [e[1] for e in want if e[0] == "mid"]
        trees = [g for g in parsed if isinstance(g, tuple)]
        scal = " ".join(str(g) for g in parsed if not isinstance(g, tuple))
        want_trees = [e for e in want if e[0] in ("m", "s")]
        if len(trees) != len(want_trees):
            fails.append((i, "malformed", f"`{line}` printed `{ans}`"))
            continue
        if mids and scal != mids[0]:
            fails.append((i, "answer", f"`{line}`: presence answer `{scal}`, expected `{mids[0]}`"))
        for tr, e in zip(trees, want_trees):
            kind, reg, val = e
            is_map = kind == "m"
            got_abs = inorder(tr, is_map)
            exp_abs = sorted(val.items()) if is_map else [(x,) for x in sorted(val)]
            errs = invariant_errors(tr, is_map)
            if got_abs != exp_abs:
                fails.append((i, "store", f"`{line}` -> {reg}: contents {_short(got_abs)} but a finite {'map' if is_map else 'set'} gives {_short(exp_abs)}"))
            elif errs:
                fails.append((i, "invariant", f"`{line}` -> {reg}: {errs[0]}"))
            # resync the specification with what the implementation now holds
            if is_map:
                spec.m[reg] = {p[0]: p[1] for p in got_abs}
            else:
                spec.s[reg] = {p[0] for p in got_abs}
            dumps[reg] = tr
    return fails, pre


def _resync_list(text):
    try:
        body = text.strip()[1:-1]
        return [int(x) for x in body.split(",")] if body else []
    except ValueError:
        return None


def _short(xs):
    s = ",".join(":".join(str(a) for a in x) for x in xs)
    return "{" + (s if len(s) < 160 else s[:150] + "…") + "}"


# ----------------------------------------------------------------------------------------------
# known findings: signature predicates over a failing step

PANIC_OPS = {"ounw", "rexp", "runw"}
MAP_REBUILD_OPS = {"mrem", "mupd", "mfil", "mpar", "mcun", "muni", "mmrg"}


def classify(ops, i, kind, impl_ans, model_ans, end, pre):
    """-> finding id or None.  All std findings (C18-F1..F7, F9) are fixed by `fix:` commits; a fixed
    entry suppresses nothing, so no oracle failure is attributed to a known finding any more (a
    regression of one of them is a VIOLATION).  The only open finding, C18-F10, is a TypeScript-only
    difference and is matched in `examine`."""
    return None


# ----------------------------------------------------------------------------------------------
# generator

def gen_key(rng, mode):
    if mode == 0:
        return rng.range(-6, 6)
    if mode == 1:
        return rng.range(-40, 40)
    if mode == 2:
        return rng.pick([rng.range(-I30, I30), rng.range(-I30, -I30 + 50), rng.range(I30 - 50, I30), rng.range(-20, 20)])
    return rng.range(-300, 300)


def gen_history(rng, nops, mode, weights):
    ops = []
    r = lambda p: f"{p}{rng.below(REGS if rng.chance(1, 4) else 2)}"
    pk = lambda: rng.pick(["klt", "kge", "kodd", "vlt", "all", "non"])
    px = lambda: rng.pick(["lt", "ge", "odd", "all", "non"])
    used = []
    key = lambda: (rng.pick(used) if used and rng.chance(1, 2) else gen_key(rng, mode))
    for _ in range(nops):
        op = rng.weighted(weights)
        k = key(); used.append(k)
        if len(used) > 60: used.pop(0)
        c = rng.range(-10, 10) if mode != 2 else rng.pick([0, 1, -1, rng.range(-I30, I30)])
        v = rng.range(0, 99)
        if op == "mins": ops.append(f"mins {r('m')} {r('m')} {k} {v}")
        elif op == "mbulk":
            d = r('m'); n = rng.range(3, 14)
            base = gen_key(rng, mode); step = rng.pick([1, 1, -1, 2, -3])
            for j in range(n):
                kk = base + j * step if rng.chance(2, 3) else key()
                kk = max(-I30, min(I30, kk))
                ops.append(f"mins {d} {d} {kk} {rng.range(0, 99)}")
        elif op == "sbulk":
            d = r('s'); n = rng.range(3, 14)
            base = gen_key(rng, mode); step = rng.pick([1, 1, -1, 2, -3])
            for j in range(n):
                kk = base + j * step if rng.chance(2, 3) else key()
                kk = max(-I30, min(I30, kk))
                ops.append(f"sins {d} {d} {kk}")
        elif op == "mrem": ops.append(f"mrem {r('m')} {r('m')} {k}")
        elif op == "mget": ops.append(f"mget {r('m')} {k}")
        elif op == "mhas": ops.append(f"mhas {r('m')} {k}")
        elif op == "mupd": ops.append(f"mupd {r('m')} {r('m')} {k} {rng.below(4)} {v}")
        elif op == "muni": ops.append(f"muni {r('m')} {r('m')} {r('m')}")
        elif op == "mcun": ops.append(f"mcun {r('m')} {r('m')} {r('m')} {rng.below(4)}")
        elif op == "mmrg": ops.append(f"mmrg {r('m')} {r('m')} {r('m')} {rng.below(3)}")
        elif op == "mspl":
            a = r('m'); b = r('m')
            if a == b: b = f"m{(int(a[1:]) + 1) % REGS}"
            ops.append(f"mspl {a} {b} {r('m')} {k}")
        elif op == "mfil": ops.append(f"mfil {r('m')} {r('m')} {pk()} {c if mode != 2 else k}")
        elif op == "mpar":
            a = r('m'); b = r('m')
            if a == b: b = f"m{(int(a[1:]) + 1) % REGS}"
            ops.append(f"mpar {a} {b} {r('m')} {pk()} {c if mode != 2 else k}")
        elif op in ("mfold", "mmin", "mmax", "msize", "ment", "miter", "mmink", "mmaxk"): ops.append(f"{op} {r('m')}")
        elif op in ("mcmp", "meq"):
            a = r('m'); ops.append(f"{op} {a} {a if rng.chance(1, 5) else r('m')}")
        elif op == "mkeys": ops.append(f"mkeys {r('l')} {r('m')}")
        elif op == "mmap": ops.append(f"mmap {r('m')} {r('m')} {rng.range(0, 9)}")
        elif op in ("mall", "many"): ops.append(f"{op} {r('m')} {pk()} {c if mode != 2 else k}")
        elif op == "sins": ops.append(f"sins {r('s')} {r('s')} {k}")
        elif op == "srem": ops.append(f"srem {r('s')} {r('s')} {k}")
        elif op == "shas": ops.append(f"shas {r('s')} {k}")
        elif op in ("suni", "sint", "sdif"): ops.append(f"{op} {r('s')} {r('s')} {r('s')}")
        elif op in ("ssub", "sdis"): ops.append(f"{op} {r('s')} {r('s')}")
        elif op == "sspl":
            a = r('s'); b = r('s')
            if a == b: b = f"s{(int(a[1:]) + 1) % REGS}"
            ops.append(f"sspl {a} {b} {r('s')} {k}")
        elif op == "sfil": ops.append(f"sfil {r('s')} {r('s')} {px()} {c if mode != 2 else k}")
        elif op == "spar":
            a = r('s'); b = r('s')
            if a == b: b = f"s{(int(a[1:]) + 1) % REGS}"
            ops.append(f"spar {a} {b} {r('s')} {px()} {c if mode != 2 else k}")
        elif op in ("sfold", "smin", "smax", "ssize", "siter"): ops.append(f"{op} {r('s')}")
        elif op in ("scmp", "seq"):
            a = r('s'); ops.append(f"{op} {a} {a if rng.chance(1, 5) else r('s')}")
        elif op == "sels": ops.append(f"sels {r('l')} {r('s')}")
        elif op == "sfrl": ops.append(f"sfrl {r('s')} {r('l')}")
        elif op in ("sall", "sany"): ops.append(f"{op} {r('s')} {px()} {c if mode != 2 else k}")
        elif op == "smap": ops.append(f"smap {r('s')} {r('s')} {rng.below(3)} {rng.range(-5, 5)}")
        elif op == "lcons": ops.append(f"lcons {r('l')} {r('l')} {k}")
        elif op == "lof": ops.append(f"lof {r('l')} {k}")
        elif op in ("lapp", "lrap"): ops.append(f"{op} {r('l')} {r('l')} {r('l')}")
        elif op in ("lrev", "lrst"): ops.append(f"{op} {r('l')} {r('l')}")
        elif op in ("lfil", "lfmp"): ops.append(f"{op} {r('l')} {r('l')} {px()} {c if mode != 2 else k}")
        elif op == "lmap": ops.append(f"lmap {r('l')} {r('l')} {rng.range(-9, 9)}")
        elif op in ("llen", "lfst", "lfold", "lfdr", "liter"): ops.append(f"{op} {r('l')}")
        elif op in ("optx", "resx"): ops.append(f"{op} {rng.range(-300, 300)} {px()} {rng.range(-10, 10)}")
        elif op == "lhas": ops.append(f"lhas {r('l')} {k}")
        elif op in ("lall", "lany", "lfnd", "lfdm"): ops.append(f"{op} {r('l')} {px()} {c if mode != 2 else k}")
        elif op == "lbnd": ops.append(f"lbnd {r('l')} {r('l')} {rng.range(-9, 9)}")
        elif op == "lflt": ops.append(f"lflt {r('l')} {r('l')} {r('l')} {r('l')}")
    return ops


W_MAP = [("mins", 22), ("mbulk", 6), ("mrem", 12), ("mget", 6), ("mhas", 3), ("mupd", 8), ("muni", 4), ("mcun", 4),
         ("mmrg", 3), ("mspl", 4), ("mfil", 4), ("mpar", 3), ("mfold", 2), ("mmin", 3), ("mmax", 3), ("msize", 2),
         ("ment", 3), ("miter", 2), ("mcmp", 3), ("meq", 2), ("mmink", 1), ("mmaxk", 1), ("mkeys", 1), ("mmap", 1), ("mall", 1), ("many", 1)]
W_SET = [("sins", 22), ("sbulk", 6), ("srem", 12), ("shas", 6), ("suni", 5), ("sint", 4), ("sdif", 4), ("ssub", 3),
         ("sdis", 2), ("sspl", 4), ("sfil", 4), ("spar", 3), ("sfold", 3), ("smin", 3), ("smax", 3), ("ssize", 2), ("siter", 2), ("scmp", 3), ("seq", 2),
         ("sels", 2), ("sfrl", 2), ("sall", 1), ("sany", 1), ("smap", 2), ("lcons", 4)]
W_LIST = [("lcons", 20), ("lof", 2), ("lapp", 6), ("lrev", 5), ("lrap", 4), ("lfil", 5), ("lmap", 4), ("lfmp", 4),
          ("llen", 4), ("lfst", 3), ("lrst", 4), ("lfold", 4), ("lfdr", 4), ("lhas", 3), ("lall", 2), ("lany", 2),
          ("lfnd", 3), ("lfdm", 3), ("liter", 3), ("optx", 4), ("resx", 4), ("lbnd", 2), ("lflt", 3), ("sfrl", 2), ("sels", 2), ("sins", 3), ("mkeys", 1), ("mins", 3)]
W_MIX = W_MAP + W_SET + W_LIST


def sweep_histories():
    """Deterministic (seed-independent) enumeration stream: for every size n in 5..22 and insertion
    order ascending / descending / one fixed permutation, build a tall map (set), then EVERY split key,
    every prefix/suffix filter and partition, every single removal, and unions / merges / set algebra
    with a short operand that overlaps it (distinct values, asymmetric mergers).  Small cases are
    enumerated, not sampled, so that rebalancing paths (join of one binding with a tall tree, concat,
    internalMerge, the h1 < h2 union branch) are reached in every run."""
    out = []
    for n in range(5, 23):
        for order in ("asc", "desc", "perm"):
            keys = list(range(1, n + 1))
            if order == "desc":
                keys.reverse()
            elif order == "perm":
                keys = common.Rng(1000 + n).shuffle(keys)
            val = lambda k: (k * 7 + 3) % 100
            small = [2, 6, n // 2 + 1, n, n + 3][: 2 + n % 3]
            mops = [f"mins m0 m0 {k} {val(k)}" for k in keys]
            mops += [f"mins m3 m3 {k} {50 + i}" for i, k in enumerate(small)]
            sops = [f"sins s0 s0 {k}" for k in keys] + [f"sins s3 s3 {k}" for k in small]
            for k in range(0, n + 2):
                mops += [f"mspl m1 m2 m0 {k}", f"mfil m1 m0 klt {k}", f"mfil m1 m0 kge {k}",
                         f"mpar m1 m2 m0 klt {k}", f"mrem m1 m0 {k}"]
                sops += [f"sspl s1 s2 s0 {k}", f"sfil s1 s0 lt {k}", f"sfil s1 s0 ge {k}",
                         f"spar s1 s2 s0 lt {k}", f"srem s1 s0 {k}"]
            mops += ["mcun m1 m3 m0 2", "mcun m1 m3 m0 3", "mcun m1 m3 m0 0", "muni m1 m3 m0", "muni m1 m0 m3",
                     "mcun m1 m0 m3 2", "mcun m1 m0 m3 1", "mmrg m1 m3 m0 0", "mmrg m1 m3 m0 1", "mmrg m1 m3 m0 2",
                     "mmrg m1 m0 m3 0", "mfil m1 m0 kodd 0", "mpar m1 m2 m0 kodd 0", "mupd m1 m0 2 0 0",
                     "mupd m1 m0 6 2 5", "mmax m0", "mmin m0", "miter m0", "mcmp m0 m3", "meq m0 m0"]
            sops += ["suni s1 s3 s0", "suni s1 s0 s3", "sint s1 s3 s0", "sint s1 s0 s3", "sdif s1 s0 s3", "sdif s1 s3 s0",
                     "ssub s3 s0", "ssub s0 s0", "sdis s0 s3", "sfil s1 s0 odd 0", "spar s1 s2 s0 odd 0",
                     "smap s1 s0 0 3", "smap s1 s0 1 0", "smap s1 s0 2 4", "smax s0", "smin s0", "siter s0",
                     "scmp s0 s3", "seq s0 s0"]
            # aliasing family: BOTH operands of the union family come from ONE ancestor (the same map,
            # or maps derived from it by insert / remove, which share subtrees in memory), with mergers
            # other than keep-left.  The result must depend on contents only (customizedUnion_refines);
            # the Lean model has no physical identity, so this family is what ties a `this == other`
            # shortcut in the std code to the specification.
            alias_pairs = (("0", "0"), ("0", "1"), ("1", "0"), ("0", "2"), ("2", "1")) if n % 3 == 0 else (("0", "0"), ("0", "1"))
            mops += [f"mins m1 m0 {n + 5} 1", "mrem m2 m0 1", f"mins m2 m2 {n + 7} 2"]
            for a, b in [("m" + x, "m" + y) for x, y in alias_pairs]:
                mops += [f"mcun m3 {a} {b} {md}" for md in (0, 1, 2, 3)]
                mops += [f"mmrg m3 {a} {b} {md}" for md in (0, 1, 2)]
                mops += [f"muni m3 {a} {b}", f"meq {a} {b}", f"mcmp {a} {b}"]
            sops += [f"sins s1 s0 {n + 5}", "srem s2 s0 1", f"sins s2 s2 {n + 7}"]
            for a, b in [("s" + x, "s" + y) for x, y in alias_pairs]:
                sops += [f"suni s3 {a} {b}", f"sint s3 {a} {b}", f"sdif s3 {a} {b}", f"ssub {a} {b}", f"sdis {a} {b}",
                         f"seq {a} {b}", f"scmp {a} {b}"]
            out.append((mops, ("sweep-map", order)))
            out.append((sops, ("sweep-set", order)))
    # functions / arms that the samlang-level coverage (vlib/coverage_sam.py, coverage/C18.txt) showed
    # no random history reaches: List.isEmpty, the boxed Bool class, Option.both with one side None,
    # Set.equal / compare on a proper prefix and with a non-zero extra comparator, Set.map with a
    # function that returns its argument (the reference-equality shortcut), unwrap / expect — the
    # panicking calls last, one per program, because a panic ends the program.
    aux = ["lemp l0", "lcons l0 l0 3", "lemp l0", "bool 0 0", "bool 0 1", "bool 1 0", "bool 1 1",
           "optx 5 all 3", "optx 5 all 2", "optx 5 non 3", "optx 5 non 2", "resx 5 all 3", "resx 5 non 3",
           "sins s0 s0 1", "sins s0 s0 2", "sins s0 s0 3", "sins s1 s1 1", "sins s1 s1 2",
           "seq s0 s1", "seq s1 s0", "seq s0 s0", "seq s2 s0", "seq s0 s2", "scmp s0 s1", "scmp s1 s0",
           "scmp2 s0 s1", "scmp2 s1 s0", "scmp2 s0 s0", "scmp2 s2 s2", "scmp2 s2 s0",
           "smap s3 s0 3 0", "smap s3 s2 3 0", "smap s3 s1 3 0", "seq s3 s1",
           "ounw 5 all 0", "rexp 5 all 0", "runw 5 all 0"]
    for last in ("ounw 5 non 0", "rexp 5 non 4", "runw 5 non 4"):
        out.append((aux + [last], ("sweep-aux", last.split(" ")[0])))
    return out


def cap_list_growth(ops, limit=300):
    """drop list ops that would let a list register grow beyond `limit` (non-tail recursion depth)."""
    spec = Spec()
    out = []
    for line in ops:
        saved = (dict(spec.m), dict(spec.s), dict(spec.l))
        res = spec.step(line)
        big = False
        for e in res:
            if e[0] in ("l", "lrst") and len(e[2]) > limit: big = True
            if e[0] in ("m", "s") and len(e[2]) > 4 * limit: big = True
        if big:
            spec.m, spec.s, spec.l = saved
            continue
        for e in res:
            if e[0] == "m": spec.m[e[1]] = e[2]
            elif e[0] == "s": spec.s[e[1]] = e[2]
            elif e[0] in ("l", "lrst"): spec.l[e[1]] = e[2]
        out.append(line)
    return out


# ----------------------------------------------------------------------------------------------
# running

def run_model(histories):
    lines = []
    for h in histories:
        lines.append("reset"); lines += h
    rc, out, err = common.run_exec(common.driver_bin("C18"), [], lines)
    res, pos = [], 0
    for h in histories:
        res.append(out[pos + 1: pos + 1 + len(h)]); pos += 1 + len(h)
    return res


def steer(histories, stats):
    """Remove ops on which the model of the *unchanged* std source panics (open findings F3/F7),
    so that the bulk stream is not cut short by them; they are probed separately."""
    for _ in range(12):
        outs = run_model(histories)
        changed = False
        for hi, (h, o) in enumerate(zip(histories, outs)):
            for i, a in enumerate(o):
                if a in ("panic", "oof") and h[i].split(" ")[0] not in PANIC_OPS:
                    stats["steered_away"] = stats.get("steered_away", 0) + 1
                    del h[i]; changed = True
                    break
        if not changed:
            break
    return histories


def run_impl(histories, ts=True, timeout_ms=30000):
    progs = [json.dumps({"main": gen_program(h), "ts": ts, "timeout_ms": timeout_ms}) for h in histories]
    p = subprocess.run([common.harness_bin("C18")], input=("\n".join(progs) + "\n").encode(),
                       stdout=subprocess.PIPE, stderr=subprocess.PIPE, timeout=3000)
    outs = [json.loads(l) for l in p.stdout.decode("utf-8", "replace").split("\n") if l.strip()]
    header = outs[0].get("header") if outs and "header" in outs[0] else None
    ans = outs[1:] if header is not None else outs
    for a in ans:
        for side in ("wasm", "ts"):
            if isinstance(a.get(side), dict) and "lines" in a[side]:
                a[side]["lines"] = fold_iter(a[side]["lines"])
    if len(ans) != len(histories):
        raise RuntimeError(f"c18 harness returned {len(ans)} answers for {len(histories)} programs: {p.stderr.decode()[-400:]}")
    # a wall-clock timeout of the compiled program is not a verdict about the collections: the batch
    # runs many Node processes side by side and the machine may be loaded. Re-run such a program alone
    # with a 6x budget; only a program that times out again (a real hang / blow-up) keeps `timeout`.
    if timeout_ms <= 30000:
        for i, a in enumerate(ans):
            if any(isinstance(a.get(side), dict) and a[side].get("end") == "timeout" for side in ("wasm", "ts")):
                _, again = run_impl([histories[i]], ts=ts, timeout_ms=timeout_ms * 6)
                ans[i] = again[0]
    return header, ans


def fold_iter(lines):
    """`iter` prints one `~…` line per callback; fold them into the op's own (following) line."""
    out, acc = [], ""
    for l in lines:
        if l.startswith("~"):
            acc += l[1:] + ";"
        else:
            out.append(acc + l); acc = ""
    if acc:
        out.append(acc)
    return out


def canon_impl(h, run):
    """compiled program's lines -> one answer per op (`panic` at the op that died, `dead` after)."""
    lines, end = run["lines"], run["end"]
    out = list(lines[:len(h)])
    if len(out) < len(h):
        if end.startswith("panic:"):
            out.append("panic")
        else:
            out.append("<" + end + ">")
        out += ["dead"] * (len(h) - len(out))
    return out


def run_src_leg(histories, stats):
    """Third leg named by the property: the same driver programs evaluated by the Lean reference
    semantics of samlang source (builder-SRC's `SamVerif.Source.eval` through vlib/srceval.py).
    Isolated: any import/build/run problem of that foreign component only marks the leg unavailable.
    Returns a list (one entry per history) of folded output lines + end, or None."""
    try:
        from . import srceval
        srceval.build()
        set_sam = open(os.path.join(common.REPO, "std", "set.sam")).read()
        progs = [{"sources": {"Main": gen_program(h), "std.set": set_sam}, "entry": "Main", "std": True}
                 for h in histories]
        outs = srceval.eval_programs(progs)
        res = []
        for o in outs:
            res.append({"check": o.get("check"), "end": o.get("end"), "flags": o.get("flags") or [],
                        "lines": fold_iter(o.get("lines") or []), "msg": (o.get("msg") or "")[:300]})
        return res
    except Exception as ex:   # foreign component: never let it break this check
        stats["src_leg_error"] = repr(ex)[:300]
        return None


SRC_EXCLUDING_FLAGS = {"ovf", "vec31", "cap", "toint", "negdiv"}


def examine(ctx, h, res, model, label, stats, report=True):
    """Checks one executed history.  Returns list of (finding_id or None, index, msg)."""
    verdicts = []
    if res["compile"] != "ok":
        verdicts.append((None, 0, f"driver program does not compile ({res['compile']}): {res.get('msg', '')[:300]}"))
        return verdicts
    w, t = res["wasm"], res["ts"]
    if w["end"].startswith("no-node"):
        stats["no_node"] = True
        return verdicts
    impl = canon_impl(h, w)
    if t["end"] != "skipped":
        tl, wl = t["lines"][:len(h)], w["lines"][:len(h)]
        for i in range(max(len(tl), len(wl))):
            a = wl[i] if i < len(wl) else "<missing>"
            b = tl[i] if i < len(tl) else "<missing>"
            if a != b:
                verdicts.append((None, i, f"TypeScript and WebAssembly runs differ at `{h[i]}`: wasm `{a[:120]}` ts `{b[:120]}`"))
                break
        if t["end"] != w["end"]:
            verdicts.append((None, min(len(tl), len(h) - 1), f"TypeScript and WebAssembly runs end differently: wasm end={w['end']} ts end={t['end']}"))
    fails, pre = oracle(h, w["lines"][:len(h)], w["end"])
    d = common.first_diff(impl, model[:len(impl)])
    seen = set()
    for i, kind, msg in fails:
        fid = classify(h, i, kind, impl[i] if i < len(impl) else "?", model[i] if i < len(model) else "?", w["end"], pre)
        verdicts.append((fid, i, msg))
        seen.add(i)
    if d is not None and d not in seen:
        verdicts.append((None, d, f"MODEL-DISAGREEMENT at `{h[d]}`: implementation `{impl[d][:200]}` model `{model[d][:200] if d < len(model) else '?'}`"))
    return verdicts


def directed_search(ctx, h, i, r, stats):
    """After a model/implementation disagreement that the specification oracle accepts (equal
    contents, invariants hold, only the shape differs): explore the implementation from the
    disagreeing state, exhaustively over the keys present plus the gaps between them, to depth 3.
    Returns (ops, index, msg) of a property-level failure or None."""
    t = h[min(i, len(h) - 1)].split(" ")
    kind = t[0][0]
    if t[0] in ("muni", "mcun", "mmrg", "suni", "sint", "sdif") and len(t) >= 4:
        # the tie broke on a union-family op: same operands (they may alias), every merger / sibling op
        if kind == "m":
            alts = [f"mcun {t[1]} {t[2]} {t[3]} {md}" for md in (0, 1, 2, 3)] + \
                   [f"mmrg {t[1]} {t[2]} {t[3]} {md}" for md in (0, 1, 2)] + [f"muni {t[1]} {t[2]} {t[3]}"]
        else:
            alts = [f"{o} {t[1]} {t[2]} {t[3]}" for o in ("suni", "sint", "sdif")] + [f"ssub {t[2]} {t[3]}", f"sdis {t[2]} {t[3]}"]
        cands = [h[:i] + [a] for a in alts]
        ms = run_model(cands)
        _, ans = run_impl(cands)
        for c, a, m in zip(cands, ans, ms):
            for fid, j, msg in examine(ctx, c, a, m, "directed", stats):
                if fid is None and not msg.startswith("MODEL-DISAGREEMENT"):
                    return (c[:j + 1], j, msg)
    if kind not in ("s", "m") or len(t) < 2 or not t[1].startswith(kind):
        return None
    lines = r["wasm"]["lines"]
    trees = [x for x in (parse_dump(lines[i]) or []) if isinstance(x, tuple)] if i < len(lines) else []
    ks = sorted({p[0] for tr in trees for p in inorder(tr, kind == "m")})
    if not ks:
        return None
    ks = ks[:6]
    keys = sorted(set(ks) | {k + 1 for k in ks} | {ks[0] - 1})[:12]
    res = scope_search(ctx, kind, keys, 3, stats, prefix=h[:i + 1], base=t[1], max_states=400)
    stats["directed_search_states"] = stats.get("directed_search_states", 0) + res["states"]
    return res["violation"]


def shrink(ctx, h, want_msg_kind):
    """ddmin over the op list; keeps a failure that is not attributable to a known finding."""
    def fails(cand):
        cand = list(cand)
        model = run_model([cand])[0]
        _, ans = run_impl([cand], ts=False)
        vs = examine(ctx, cand, ans[0], model, "shrink", {})
        return any(fid is None for fid, _, _ in vs)
    try:
        return common.ddmin(h, fails, max_tests=60)
    except Exception:
        return h


def scope_search(ctx, kind, keys, depth, stats, prefix=None, base=None, max_states=900):
    """Bounded-exhaustive small-scope exploration of the IMPLEMENTATION: breadth-first over the tree
    shapes the compiled std code itself reaches (deduplicated by the dumped shape) by insert / remove
    of every key of `keys`, to `depth` operations after `prefix`; every state is additionally hit
    with every split and every prefix/suffix filter.  Each line goes through model, wasm, TS and the
    specification oracle.  Returns {"violation": (ops, index, msg) | None, "disagreement": ... | None,
    "states": n, "ops": n}.  Faults in rebalancing manifest on short but shape-specific histories
    (remove after remove); exhaustive small scope reaches them, sampling does not."""
    K = kind
    base = base or f"{K}0"
    regs = [f"{K}{i}" for i in range(REGS) if f"{K}{i}" != base]
    T, U = regs[0], regs[1]
    if K == "s":
        ins = lambda d, k: f"sins {d} {base} {k}"
        rem = lambda d, k: f"srem {d} {base} {k}"
        extra = [f"sspl {T} {U} {base} {k}" for k in [min(keys) - 1] + list(keys)] + \
                [f"sfil {T} {base} lt {k}" for k in keys] + [f"sfil {T} {base} ge {k}" for k in keys[::3]]
    else:
        ins = lambda d, k: f"mins {d} {base} {k} {(k * 7 + 3) % 100}"
        rem = lambda d, k: f"mrem {d} {base} {k}"
        extra = [f"mspl {T} {U} {base} {k}" for k in [min(keys) - 1] + list(keys)] + \
                [f"mfil {T} {base} klt {k}" for k in keys] + [f"mfil {T} {base} kge {k}" for k in keys[::3]]
    expanding = [(ins, k) for k in keys] + [(rem, k) for k in keys]
    res = {"violation": None, "disagreement": None, "states": 0, "ops": 0}
    frontier = [list(prefix or [])]
    seen = set()
    for level in range(depth):
        if not frontier:
            break
        hs = [path + [f(T, k) for f, k in expanding] + extra for path in frontier]
        models = run_model(hs)
        _, answers = run_impl(hs)
        nxt = []
        for path, h, r, m in zip(frontier, hs, answers, models):
            res["states"] += 1
            vs = examine(ctx, h, r, m, "small-scope", stats)
            for fid, i, msg in vs:
                if fid is not None:
                    continue
                tgt = "disagreement" if msg.startswith("MODEL-DISAGREEMENT") else "violation"
                if res[tgt] is None:
                    keep = (path + [h[i]]) if i >= len(path) else h[:i + 1]
                    res[tgt] = (keep, len(keep) - 1, msg)
            if r["compile"] != "ok":
                continue
            lines = r["wasm"]["lines"]
            res["ops"] += min(len(lines), len(h))
            for j, (f, k) in enumerate(expanding):
                idx = len(path) + j
                if idx < len(lines) and lines[idx] not in seen and len(seen) < max_states:
                    seen.add(lines[idx])
                    nxt.append(path + [f(base, k)])
        if res["violation"] is not None:
            break
        frontier = nxt
    return res


PROBES = {}   # no open finding left; witnesses of fixed findings are regression inputs in corpus/C18


def load_corpus():
    cdir = os.path.join(common.VERIF, "corpus", "C18")
    out = []
    for f in sorted(os.listdir(cdir)) if os.path.isdir(cdir) else []:
        ops = [l.strip() for l in open(os.path.join(cdir, f)) if l.strip() and not l.startswith("#") and l.strip() != "reset"]
        out.append((f"corpus/{f}", ops))
    return out


def visit_order_family():
    """Deterministic (seed-independent) enumeration-order family: Map.filter / Set.filter with a
    predicate that ANNOUNCES every key it is asked about, over maps / sets built from several insertion
    orders (different tree shapes: left-heavy, right-heavy, balanced, with both children).  "Keys and
    elements enumerated in ascending order of their compare method" is a statement about the visiting
    order too, and a pure predicate cannot see it.  Expected output = ascending keys (Python sort)."""
    orders = [[1], [1, 2], [2, 1], [1, 2, 3], [3, 2, 1], [2, 1, 3], [4, 2, 6, 1, 3, 5, 7], [7, 6, 5, 4, 3, 2, 1],
              [1, 2, 3, 4, 5, 6, 7, 8, 9, 10, 11], [5, 1, 9, 3, 7, 2, 8, 4, 6, 10]]
    progs = []
    for ks in orders:
        mb = "Map.empty<Int, int>()" + "".join(f".insert(Int.init({k}), {k * 10})" for k in ks)
        sb = "Set.empty<Int>()" + "".join(f".insert(Int.init({k}))" for k in ks)
        src = ("import { Int } from std.boxed;\nimport { Map } from std.map;\nimport { Set } from std.set;\n"
               "class Main {\n  function main(): unit = {\n"
               f"    let m = {mb};\n    let s = {sb};\n"
               "    let km = m.filter((k, v) -> { let _ = Process.println(\"m \" :: Str.fromInt(k.value) :: \" \" :: Str.fromInt(v)); k.value % 3 != 0 });\n"
               "    let _ = Process.println(\"size \" :: Str.fromInt(km.size()));\n"
               "    let ks = s.filter((e) -> { let _ = Process.println(\"s \" :: Str.fromInt(e.value)); e.value % 2 == 0 });\n"
               "    Process.println(\"size \" :: Str.fromInt(ks.size()))\n  }\n}\n")
        asc = sorted(ks)
        expect = [f"m {k} {k * 10}" for k in asc] + [f"size {len([k for k in asc if k % 3 != 0])}"] + \
                 [f"s {k}" for k in asc] + [f"size {len([k for k in asc if k % 2 == 0])}"]
        progs.append((ks, src, expect))
    return progs


def visit_order_leg(ctx, stats):
    fam = visit_order_family()
    set_sam = open(os.path.join(common.REPO, "std", "set.sam")).read()
    map_sam = open(os.path.join(common.REPO, "std", "map.sam")).read()     # the std sources ON DISK are the code under test
    res = common.exec_programs([{"sources": {"Main": src, "std.set": set_sam, "std.map": map_sam}, "entry": "Main", "std": True} for _, src, _ in fam])
    stats["visit_order_programs"] = len(fam)
    for (ks, src, expect), r in zip(fam, res):
        for side in ("wasm", "ts"):
            got = r.get(side)
            if r.get("compile") != "ok" or not isinstance(got, dict) or got.get("lines") != expect or got.get("end") != "ok":
                ctx.violation("std Map/Set breaks C18: filter does not enumerate the keys in ascending order (insertion order %s, %s): got %s, expected %s" %
                              (ks, side, (got or {}).get("lines") if isinstance(got, dict) else r.get("compile"), expect),
                              {"protocol": "visit-order", "program": {"sources": {"Main": src}, "entry": "Main", "std": True},
                               "insertion_order": ks, "expected": expect, "answer": r})
                return


def run(ctx):
    stats = {}

    def search():
        return False
    res = common.proof_gate(ctx, search)
    if any(v[1] for v in ctx.violations) and not os.path.exists(common.harness_bin("C18")):
        return ctx.finish(res, trusted=common.TRUSTED_COMMON)
    rng = ctx.rng
    nprog = ctx.scale(72, 1000)
    nops = ctx.scale(110, 400)
    open_ids = {f["id"]: f for f in ctx.open_findings}

    # 0. deterministic enumeration-order family (effectful predicates)
    visit_order_leg(ctx, stats)
    # 1. corpus + one probe per open finding (not steered)
    fixed = load_corpus() + [(f"probe {fid}", list(ops)) for fid, ops in PROBES.items()]
    hs = [h for _, h in fixed]
    models = run_model(hs)
    header, answers = run_impl(hs)
    probe_hits = {}
    for (label, h), r, m in zip(fixed, answers, models):
        for fid, i, msg in examine(ctx, h, r, m, label, stats):
            if fid is not None and fid in open_ids:
                ctx.known(open_ids[fid]); probe_hits[fid] = probe_hits.get(fid, 0) + 1
            else:
                ctx.violation(f"{label}: {msg}", {"protocol": "stdops", "label": label, "ops": h, "at": i,
                                                 "impl": canon_impl(h, r["wasm"]) if r["compile"] == "ok" else r, "model": m})
    if header:
        bad = [e["module"] for e in header["embedded"] if not e["same_as_disk"]]
        if bad or not header["std_set_same_as_disk"]:
            ctx.violation("std sources linked into the harness are not the ones on disk", {"broken": "std embedding", "header": header}, no_input=True)

    # 2. generated bulk stream
    hist, kinds = [], []
    for n in range(nprog):
        fam = ["map", "set", "list", "mix"][n % 4]
        mode = [0, 1, 2, 3][(n // 4) % 4]
        w = {"map": W_MAP, "set": W_SET, "list": W_LIST, "mix": W_MIX}[fam]
        ops = gen_history(rng.fork(), rng.range(nops // 2, nops), mode, w)
        ops = cap_list_growth(ops)
        hist.append(ops); kinds.append((fam, mode))
    for ops, kind in sweep_histories():
        hist.append(ops); kinds.append(kind)
    hist = steer(hist, stats)
    models = run_model(hist)
    _, answers = run_impl(hist)
    src = run_src_leg(hist, stats)
    src_ready = os.path.exists(os.path.join(common.VERIF, "reports", "SRC.md"))
    src_pending = None
    src_stats = {"programs": 0, "agree": 0, "excluded_by_flag": 0, "disagree": 0, "lines_compared": 0}
    if src is not None:
        for h, r, so in zip(hist, answers, src):
            if r["compile"] != "ok" or r["wasm"]["end"].startswith("no-node"):
                continue
            src_stats["programs"] += 1
            if set(so["flags"]) & SRC_EXCLUDING_FLAGS or so["check"] != "ok":
                src_stats["excluded_by_flag"] += 1
                continue
            wl = r["wasm"]["lines"][:len(h)]
            sl = so["lines"][:len(h)]
            src_stats["lines_compared"] += len(wl)
            if sl == wl and so["end"] == r["wasm"]["end"]:
                src_stats["agree"] += 1
            elif "refeq" in so["flags"] and so["end"] == r["wasm"]["end"] and not oracle(h, sl, so["end"])[0]:
                # the program compares objects with `==` (reference equality: Set.map's `newV == v`,
                # `l == ll`); the reference semantics may take the other, equally valid branch and build a
                # differently shaped tree.  The property speaks about contents: the independent
                # specification oracle (contents + invariants of every printed tree) accepted this run.
                src_stats["agree_up_to_tree_shape"] = src_stats.get("agree_up_to_tree_shape", 0) + 1
            else:
                src_stats["disagree"] += 1
                i = common.first_diff(sl, wl)
                i = i if i is not None else max(0, min(len(sl), len(wl)) - 1)
                what = (f"reference semantics (Source.eval) and compiled program differ at `{h[min(i, len(h) - 1)]}`: "
                        f"source `{(sl[i] if i < len(sl) else '<missing>')[:120]}` (end={so['end']}) "
                        f"wasm `{(wl[i] if i < len(wl) else '<missing>')[:120]}` (end={r['wasm']['end']})")
                if src_ready and not ctx.violations and src_pending is None:
                    # reported after the bulk loop, so that a failure of the compiled program against the
                    # specification oracle (the more direct evidence) is preferred when both exist
                    src_pending = (what, {"protocol": "stdops/source-eval", "ops": h, "at": i, "source_eval": so, "wasm": r["wasm"]})
                else:
                    src_stats.setdefault("notes", []).append(what[:300])
    opcount, known_count, evals, nontrivial, samples = {}, {}, 0, 0, []
    distinct = set()
    for h, r, m, (fam, mode) in zip(hist, answers, models, kinds):
        vs = examine(ctx, h, r, m, f"generated {fam}/{mode}", stats)
        bad = [(fid, i, msg) for fid, i, msg in vs if fid is None or fid not in open_ids]
        for fid, i, msg in vs:
            if fid is not None and fid in open_ids:
                known_count[fid] = known_count.get(fid, 0) + 1
                ctx.known(open_ids[fid])
        if bad and not ctx.violations:
            small = shrink(ctx, h, None)
            sm = run_model([small])[0]
            _, sa = run_impl([small])
            svs = [v for v in examine(ctx, small, sa[0], sm, "shrunk", stats) if v[0] is None or v[0] not in open_ids]
            use_h, use_vs, use_r, use_m = (small, svs, sa[0], sm) if svs else (h, bad, r, m)
            fid, i, msg = use_vs[0]
            impl_lines = canon_impl(use_h, use_r["wasm"]) if use_r["compile"] == "ok" else [str(use_r)[:500]]
            prop_level = not msg.startswith("MODEL-DISAGREEMENT")
            if not prop_level and use_r["compile"] == "ok":
                # the tie broke on a tree SHAPE only: property-directed search from the disagreeing state
                found = directed_search(ctx, use_h, i, use_r, stats)
                if found is None:
                    # ... and the bounded-exhaustive small scope of that collection kind from the empty tree
                    k0 = use_h[min(i, len(use_h) - 1)][0]
                    if k0 in ("s", "m"):
                        found = scope_search(ctx, k0, list(range(1, 7)), 7, stats)["violation"]
                if found is not None:
                    use_h, i, msg = found
                    use_m = run_model([use_h])[0]
                    _, sa2 = run_impl([use_h])
                    use_r = sa2[0]
                    impl_lines = canon_impl(use_h, use_r["wasm"]) if use_r["compile"] == "ok" else [str(use_r)[:500]]
                    use_vs = [(None, i, msg)]
                    prop_level = True
            payload = {"protocol": "stdops", "label": f"generated seed={ctx.seed} {fam}/{mode}", "ops": use_h, "at": i,
                       "impl": impl_lines, "model": use_m, "oracle": [f"op#{a}: {b}" for _, a, b in use_vs[:5]]}
            if prop_level:
                ctx.violation("std collections break C18 on this history: " + msg, payload)
            else:
                payload["broken"] = "correspondence `stdops` (Model/Std*.lean vs std/*.sam compiled by the real compiler)"
                ctx.violation("model/implementation disagreement on protocol stdops; the specification oracle saw no failure on the shrunk history: " + msg, payload, no_input=True)
        if r["compile"] == "ok":
            nlines = min(len(r["wasm"]["lines"]), len(h))
            evals += nlines
            for l in h[:nlines]:
                opcount[l.split(" ")[0]] = opcount.get(l.split(" ")[0], 0) + 1
            key = hash(tuple(h))
            if key not in distinct:
                distinct.add(key)
                deep = any(("(N 4" in a or "(N 5" in a or "(N 6" in a) for a in r["wasm"]["lines"][:nlines]) or fam == "list"
                stats["sweep_programs"] = stats.get("sweep_programs", 0) + (1 if str(fam).startswith("sweep") else 0)
                if deep and nlines >= 20:
                    nontrivial += 1
                    if len(samples) < 3:
                        samples.append({"ops": h[:25], "impl_answers": r["wasm"]["lines"][:25]})
    if src_pending is not None and not ctx.violations:
        ctx.violation(*src_pending)
    # bounded-exhaustive small scope over the implementation's own reachable shapes (every run)
    scope = {}
    for kind in ("s", "m"):
        if ctx.violations:
            break
        sr = scope_search(ctx, kind, list(range(1, 7)), 7, stats)
        scope[kind] = {"states": sr["states"], "ops": sr["ops"]}
        evals += sr["ops"]
        hit = sr["violation"] or sr["disagreement"]
        if hit is not None:
            ops_h, at, msg = hit
            mm = run_model([ops_h])[0]
            _, aa = run_impl([ops_h])
            payload = {"protocol": "stdops", "label": f"small-scope exhaustive ({'Set' if kind == 's' else 'Map'}, keys 1..6, depth 7)",
                       "ops": ops_h, "at": at, "model": mm,
                       "impl": canon_impl(ops_h, aa[0]["wasm"]) if aa[0]["compile"] == "ok" else [str(aa[0])[:500]]}
            if sr["violation"] is not None:
                ctx.violation("std collections break C18 on this history: " + msg, payload)
            else:
                found = directed_search(ctx, ops_h, at, aa[0], stats) if aa[0]["compile"] == "ok" else None
                if found is not None:
                    payload["ops"], payload["at"] = found[0], found[1]
                    ctx.violation("std collections break C18 on this history: " + found[2], payload)
                else:
                    payload["broken"] = "correspondence `stdops` (Model/Std*.lean vs std/*.sam compiled by the real compiler)"
                    ctx.violation("model/implementation disagreement on protocol stdops (small-scope sweep); no property-level failure within the explored scope: " + msg, payload, no_input=True)
    ctx.cov.update({
        "small_scope": scope,
        "evaluations": evals, "distinct_nontrivial": nontrivial,
        "rule": "one evaluation = one collection operation executed by the compiled program (wasm and TS) and compared with model and specification; non-trivial = distinct generated history of >= 20 executed ops in which a tree of height >= 4 (rebalancing, join/concat paths) occurred, or a list history",
        "samples": samples, "traces_validated_against_impl": len(hist) + len(fixed),
        "programs": len(hist), "op_histogram": opcount, "known_finding_hits_in_bulk": known_count,
        "probe_hits": probe_hits, "steered_away_ops": stats.get("steered_away", 0),
        "key_ranges": {"0": "[-6,6]", "1": "[-40,40]", "2": "wide: [-(2^30-1), 2^30-1] incl. both ends (diameter < 2^31)", "3": "[-300,300]"},
        "sweep_programs": stats.get("sweep_programs", 0),
        "std_header": header,
        "source_eval_leg": (src_stats if src is not None else {"unavailable": stats.get("src_leg_error", "")}),
        "source_eval_leg_counts_as_violation": src_ready,
        "node22": not stats.get("no_node", False),
        "pending": PENDING,
    })
    if stats.get("no_node"):
        ctx.assumptions.append("Node >= 22 not found: compiled differential skipped, only the proofs were checked")
    ctx.assumptions += [
        "keys/elements are std.boxed Int within a window of diameter < 2^31 (boxed compare does not overflow; theorem boxedCompare_lawful / boxedCompare_overflow_counterexample)",
        "map values and list elements are ints of magnitude < 2^30 (generic slots keep 31 bits on wasm: that is finding P15 of C01/C04, not a C18 matter)",
        "samlang `==` on maps/sets is reference equality; the model decides the same branches by structural equality (argument in Model/StdMap.lean header)",
    ]
    return ctx.finish(res, trusted=common.TRUSTED_COMMON + [
        "hand-written models Model/StdMap.lean, StdSet.lean, StdList.lean (transcriptions of std/*.sam), tied by exact comparison of every printed tree shape/answer",
        "the samlang compiler, Node 22/V8 (wasm + TS) as executors of the std source; vlib/c18.py Spec (Python dict/set/list) as the independent specification",
        "Source.eval leg: builder-SRC's Lean reference interpreter and its srcdump harness (used as a third executor, not as part of the proofs)",
    ])


PENDING = ["the model functions customizedUnion / merge / Set.union / subset / Set.map still take a fuel argument; proved: fuel-free wrappers (customizedUnionF, mergeF, unionF, mapF, subsetF theorems without any fuel hypothesis) and, for customizedUnion and Set.union, that the fuel is unobservable (customizedUnion_fuel_irrelevant, set_union_fuel_irrelevant); the same irrelevance statement for merge / subset / Set.map is not proved (totality for every sufficient fuel is)",
           "reference-semantics leg (Source.eval): exact line equality with wasm, except that runs flagged `refeq` (object `==`) may differ in tree shape and are then judged by the specification oracle (contents + invariants)",
           "Tuple4 .. Tuple16 first/second are represented by the Pair/Triple transcription (C07's generated table covers the field declarations only, not these methods)",
           "physical identity (`this == other`) is not expressible in the model; tied by the aliasing family of the sweep"]

def replay(ctx, path):
    common.build_harness("C18"); common.build_lean(["drv-c18"])
    data = json.load(open(path))
    if data["replay"].get("protocol") == "visit-order":
        rp = data["replay"]
        prog = dict(rp["program"])
        prog["sources"] = dict(prog["sources"], **{"std.set": open(os.path.join(common.REPO, "std", "set.sam")).read(),
                                                   "std.map": open(os.path.join(common.REPO, "std", "map.sam")).read()})
        r = common.exec_programs([prog])[0]
        bad = 0
        for side in ("wasm", "ts"):
            got = r.get(side) if isinstance(r.get(side), dict) else {}
            print(f"{side}: {got.get('lines')} / {got.get('end')}")
            bad |= int(got.get("lines") != rp["expected"] or got.get("end") != "ok")
        print("expected:", rp["expected"])
        return bad
    ops = data["replay"].get("ops")
    if not ops:
        print(json.dumps(data, indent=1)[:4000]); return 1
    model = run_model([ops])[0]
    _, ans = run_impl([ops])
    r = ans[0]
    if r["compile"] != "ok":
        print(r); return 1
    impl = canon_impl(ops, r["wasm"])
    for i, l in enumerate(ops):
        print(f"{i:3} {l:32} impl={impl[i] if i < len(impl) else '?'}\n{'':36} model={model[i] if i < len(model) else '?'}")
    vs = examine(ctx, ops, r, model, "replay", {})
    for fid, i, msg in vs:
        print(f"ORACLE op#{i} [{fid or 'unclassified'}]: {msg}")
    return 1 if vs else 0
