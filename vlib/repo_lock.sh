#!/bin/bash
# repo_lock.sh <command...> : run a command while holding the exclusive /repo mutation lock.
# Use it for every experiment that edits /repo (seeded faults); restore /repo inside the command.
mkdir -p /verif/.locks
exec flock /verif/.locks/repo env SAMVERIF_HAVE_REPO_LOCK=1 "$@"
