#!/usr/bin/env python3
"""samlang-level coverage: which functions and which BRANCHES of the *.sam sources a property is
anchored in does a run of that property's check execute?

    vlib/coverage_sam.py Cxx [--tier quick|thorough] [--seed N] [--modules std.map,std.set] [--reuse]

Measurement only — never part of a verdict, not registered in MANIFEST.json.  Companion of
vlib/coverage.py (which measures /repo's Rust lines): properties such as C18 are anchored in
`std/*.sam`, code that only runs as *emitted* code.

How: the check runs as usual with two environment variables set:
  NODE_V8_COVERAGE=/scratch/cov/Cxx-sam/v8   every Node process the execution oracle spawns
                                             (harness/src/exec.rs `run_node`, environment inherited)
                                             writes V8 precise block coverage there;
  SAMVERIF_SAM_COV=/scratch/cov/Cxx-sam      harness/src/exec.rs `run_compiled` keeps a copy of every
                                             emitted `main.ts` (the scratch directory the coverage
                                             URLs point to is deleted after the run).
Node's type stripping replaces type annotations by blanks, so V8 offsets are offsets into the kept
text.  Emitted functions are named `_<module with $>_<Class>[__<type args>]$<member>`; they are
mapped back to the `function` / `method` declarations parsed from the .sam files.  Lambdas are
emitted as `___GenFn…$N`; one is attributed to the emitted function whose text mentions it.
Per emitted function (name + text with temporaries normalised) a per-character "executed" mask is
OR-ed over all programs of the run; maximal never-executed stretches are the uncovered blocks (the
arm of an `if`/`else`/`switch`/ternary they belong to is recognisable from the printed text).

Caveat: the compiler always optimises (samlang_compiler::compile_sources has no unoptimised path):
small functions are inlined into their callers and unreachable ones are not emitted at all.  A
declaration with no emitted function in any program is reported as `no emitted function (inlined
into its callers or not reachable from any generated program)`.

Output: coverage/Cxx.txt, coverage/Cxx.json.
"""
import glob, json, os, re, shutil, subprocess, sys

V = os.path.dirname(os.path.dirname(os.path.abspath(__file__)))
REPO = os.environ.get("SAMVERIF_REPO", "/repo")
NAME = re.compile(r"^_([a-z][A-Za-z0-9]*(?:\$[A-Za-z0-9]+)*)_([A-Z][A-Za-z0-9]*?)(__.*)?\$([A-Za-z][A-Za-z0-9]*)$")
NORM = re.compile(r"(_t|GLOBAL_STRING_|\$SyntheticIDType|___GenFn[A-Za-z0-9_$]*\$)\d+")


def anchored_sam_files(prop):
    for l in open(os.path.join(V, "properties.jsonl")):
        p = json.loads(l)
        if p["id"] == prop:
            a = p.get("anchors") or {}
            return [f for f in a.get("files", []) if f.endswith(".sam")]
    sys.exit(f"coverage_sam: unknown property {prop}")


def declared(files):
    """{(module, Class, member): 'file:line'} parsed from the .sam sources"""
    out = {}
    for f in files:
        path = os.path.join(REPO, f)
        if not os.path.exists(path):
            continue
        module = f[:-4].replace("/", ".")
        cls = None
        for n, line in enumerate(open(path, encoding="utf-8"), 1):
            m = re.match(r"\s*(?:private\s+)?class\s+([A-Z]\w*)", line)
            if m:
                cls = m.group(1)
                # a class with fields/variants has an implicit constructor (`init` / variant names)
                continue
            if re.match(r"\s*interface\s", line):
                cls = None
                continue
            m = re.match(r"\s*(?:private\s+)?(?:function|method)\s+(?:<.*>\s*)?([A-Za-z]\w*)\s*\(", line)
            if m and cls:
                out[(module, cls, m.group(1))] = f"{f}:{n}"
    return out


STRTAB = {}


def norm(text):
    """temporaries -> #, string constants -> their text (per emitted file, see STRTAB)"""
    text = re.sub(r"GLOBAL_STRING_(\d+)", lambda m: 'STR("' + STRTAB.get(m.group(1), "?") + '")', text)
    text = NORM.sub(lambda m: m.group(1) + "#", text)
    # the order of the captured variables in a closure context differs between programs
    return re.sub(r"(SyntheticIDType#[A-Za-z0-9_$#]* = \[)([^\[\]]*)(\];)",
                  lambda m: m.group(1) + ", ".join(sorted(x.strip() for x in m.group(2).split(","))) + m.group(3), text)


_GEN_STMT = re.compile(r'_t# = 0;|_t# = _t#;|break;|let _t#: [A-Za-z0-9_$#]+ = __Process\$panic\(0, STR\(""\)\);|else|[{}\s]')


class _Gen:
    """a stretch made only of compiler-generated statements: the `else { _t = 0 }` of a variant-tag
    test, the match-failure `panic("")` after the last arm of an exhaustive match, and the dead
    assignments / `break` that follow a call that never returns"""
    @staticmethod
    def match(txt):
        return _GEN_STMT.sub("", txt) == ""


GENERATED = _Gen


def function_texts(ts):
    """{name: (start, end)} of the top-level `function name(...) {...}` declarations of an emitted file"""
    res = {}
    starts = [(m.start(), m.group(1)) for m in re.finditer(r"^function ([A-Za-z0-9_$]+)\(", ts, re.M)]
    for i, (st, name) in enumerate(starts):
        end = starts[i + 1][0] if i + 1 < len(starts) else len(ts)
        # cut at the closing brace of the function (last "\n}\n" before the next declaration)
        j = ts.rfind("\n}", st, end)
        res[name] = (st, (j + 2) if j >= 0 else end)
    return res


def main():
    args = sys.argv[1:]
    if not args:
        sys.exit(__doc__)
    prop = args[0]
    tier = args[args.index("--tier") + 1] if "--tier" in args else "quick"
    seed = args[args.index("--seed") + 1] if "--seed" in args else "1"
    files = anchored_sam_files(prop)
    if "--modules" in args:
        mods = args[args.index("--modules") + 1].split(",")
        files = [m.replace(".", "/") + ".sam" for m in mods]
    decl = declared(files)
    modules = sorted({k[0] for k in decl})
    covdir = f"/scratch/cov/{prop}-sam"
    class _P: returncode = None
    p = _P()
    if "--reuse" not in args:       # --reuse: analyse the data of the previous run again
        shutil.rmtree(covdir, ignore_errors=True)
        os.makedirs(covdir + "/v8")
        ev = os.path.join(V, "evidence", f"{prop}.json")
        saved = open(ev, "rb").read() if os.path.exists(ev) else None
        env = dict(os.environ, NODE_V8_COVERAGE=covdir + "/v8", SAMVERIF_SAM_COV=covdir, VERIF_SEED=seed)
        p = subprocess.run([os.path.join(V, "check"), prop, "--tier", tier], cwd=V, env=env,
                           stdout=subprocess.PIPE, stderr=subprocess.STDOUT)
        if saved is not None:
            open(ev, "wb").write(saved)
    kept = {f: os.path.join(covdir, "src", f) for f in os.listdir(covdir + "/src")} if os.path.isdir(covdir + "/src") else {}
    # variants[(emitted name, normalised text)] = {"mask": bytearray, "calls": int, "files": int, "text": sample}
    variants = {}
    nfiles = 0
    for jf in glob.glob(covdir + "/v8/*.json"):
        try:
            data = json.load(open(jf))
        except ValueError:
            continue
        for r in data.get("result", []):
            url = r.get("url", "")
            if not url.endswith("/main.ts"):
                continue
            key = re.sub(r"^file:/+", "/", url).replace("/", "_")
            if key not in kept:
                continue
            ts = open(kept[key], encoding="utf-8").read()
            nfiles += 1
            STRTAB.clear()
            STRTAB.update({m.group(1): m.group(2) for m in
                           re.finditer(r"^const GLOBAL_STRING_(\d+): _Str = \[0, `(.*?)` as unknown as number\];", ts, re.M)})
            ftxt = function_texts(ts)
            # attribute lambdas to the emitted function that mentions them
            owner = {}
            for name, (a, b) in ftxt.items():
                if name.startswith("___GenFn"):
                    continue
                for g in set(re.findall(r"___GenFn[A-Za-z0-9_$]*\$\d+", ts[a:b])):
                    owner.setdefault(g, name)
            for _ in range(3):     # lambdas inside lambdas
                for name, (a, b) in ftxt.items():
                    if name.startswith("___GenFn") and name in owner:
                        for g in set(re.findall(r"___GenFn[A-Za-z0-9_$]*\$\d+", ts[a:b])):
                            owner.setdefault(g, owner[name])
            cov = {}
            for fn in r.get("functions", []):
                nm = fn.get("functionName", "")
                if nm in ftxt and fn["ranges"] and abs(fn["ranges"][0]["startOffset"] - ftxt[nm][0]) <= 2:
                    cov[nm] = fn
            for name, (a, b) in ftxt.items():
                shown = name
                if name.startswith("___GenFn"):
                    if name not in owner:
                        continue
                    shown = owner[name] + " :: lambda"
                    base = owner[name]
                else:
                    base = name
                m = NAME.match(base)
                if not m or m.group(1).replace("$", ".") not in modules:
                    continue
                text = ts[a:b]
                ntext = norm(text)
                v = variants.setdefault((shown, ntext), {"mask": bytearray(len(ntext)), "calls": 0, "files": 0,
                                                        "base": base})
                v["files"] += 1
                fn = cov.get(name)
                if not fn or fn["ranges"][0]["count"] == 0:
                    continue
                v["calls"] += fn["ranges"][0]["count"]
                local = bytearray(b"\x01") * len(ntext)
                for rg in fn["ranges"][1:]:
                    if rg["count"] == 0:
                        s0 = len(norm(text[: max(0, rg["startOffset"] - a)]))
                        e0 = len(norm(text[: max(0, rg["endOffset"] - a)]))
                        for i in range(s0, min(e0, len(local))):
                            local[i] = 0
                    else:   # a nested range with a positive count re-covers part of a zero range
                        s0 = len(norm(text[: max(0, rg["startOffset"] - a)]))
                        e0 = len(norm(text[: max(0, rg["endOffset"] - a)]))
                        for i in range(s0, min(e0, len(local))):
                            local[i] = 1
                mask = v["mask"]
                for i in range(len(mask)):
                    if local[i]:
                        mask[i] = 1
    # summarise per declaration
    per_decl = {k: {"where": w, "emitted": 0, "calls": 0} for k, w in decl.items()}
    implicit = {}
    blocks = []
    for (shown, ntext), v in sorted(variants.items()):
        m = NAME.match(v["base"])
        k = (m.group(1).replace("$", "."), m.group(2), m.group(4))
        d = per_decl.get(k)
        if d is None:
            d = implicit.setdefault(k, {"where": "(implicit constructor / variant)", "emitted": 0, "calls": 0})
        d["emitted"] += 1
        d["calls"] += v["calls"]
    # uncovered stretches per variant; a stretch counts only if no other variant of the same emitted
    # function (the optimiser and the closure-capture order produce cosmetically different texts of
    # one function in different programs) executed the same text preceded by the same context.
    by_fn = {}
    generated = {}
    for (shown, ntext), v in variants.items():
        by_fn.setdefault(shown, []).append((ntext, v))
    seen = set()
    for shown in sorted(by_fn):
        vs = [(t, v) for t, v in by_fn[shown] if v["calls"] > 0]
        m = NAME.match(vs[0][1]["base"]) if vs else None
        if not vs:
            continue
        k = (m.group(1).replace("$", "."), m.group(2), m.group(4))
        d = per_decl.get(k) or implicit.get(k)
        for ntext, v in vs:
            mask, i = v["mask"], 0
            while i < len(mask):
                if mask[i]:
                    i += 1
                    continue
                j = i
                while j < len(mask) and not mask[j]:
                    j += 1
                txt = ntext[i:j]
                ctx = ntext[max(0, i - 160):i]
                start = i
                i = j
                if len(txt.strip(" \n;{}()")) < 3:
                    continue
                needle = ctx[-60:] + txt
                covered_elsewhere = False
                for t2, v2 in vs:
                    if v2 is v:
                        continue
                    pos = t2.find(needle)
                    while pos >= 0:
                        s0 = pos + len(ctx[-60:])
                        if all(v2["mask"][s0:s0 + len(txt)]):
                            covered_elsewhere = True
                            break
                        pos = t2.find(needle, pos + 1)
                    if covered_elsewhere:
                        break
                key = (shown, needle)
                if covered_elsewhere or key in seen:
                    continue
                if GENERATED.match(txt):
                    generated[shown] = generated.get(shown, 0) + 1
                    seen.add(key)
                    continue
                seen.add(key)
                blocks.append({"function": shown, "decl": ".".join(k), "where": d["where"], "offset": start,
                               "chars": len(txt), "context": ctx[-160:].split("\n")[-3:], "text": txt.strip("\n")})
    never = sorted(k for k, d in per_decl.items() if d["emitted"] and d["calls"] == 0)
    absent = sorted(k for k, d in per_decl.items() if not d["emitted"])
    executed = sorted(k for k, d in per_decl.items() if d["calls"] > 0)
    summary = {"property": prop, "tier": tier, "seed": int(seed), "check_rc": p.returncode, "emitted_files": nfiles,
               "modules": {}, "uncovered_blocks": len(blocks),
               "compiler_generated_arms_not_executed": sum(generated.values())}
    for mod in modules:
        ks = [k for k in per_decl if k[0] == mod]
        summary["modules"][mod] = {"declared": len(ks), "executed": sum(1 for k in ks if k in executed),
                                   "emitted_never_called": sum(1 for k in ks if k in never),
                                   "no_emitted_function": sum(1 for k in ks if k in absent),
                                   "uncovered_blocks": sum(1 for b in blocks if b["decl"].startswith(mod + "."))}
    os.makedirs(os.path.join(V, "coverage"), exist_ok=True)
    json.dump({"summary": summary, "never_called": [".".join(k) for k in never],
               "no_emitted_function": [".".join(k) for k in absent],
               "executed": {".".join(k): per_decl[k]["calls"] for k in executed}, "uncovered_blocks": blocks},
              open(os.path.join(V, "coverage", f"{prop}.json"), "w"), indent=1)
    with open(os.path.join(V, "coverage", f"{prop}.txt"), "w") as o:
        o.write(f"samlang-level coverage of ./check {prop} --tier {tier} (VERIF_SEED={seed}, check rc={p.returncode}); "
                f"{nfiles} emitted TypeScript programs, V8 block coverage.\nMeasurement only.\n\n")
        for mod in modules:
            s = summary["modules"][mod]
            o.write(f"{mod}: {s['executed']}/{s['declared']} declared functions executed as their own emitted function, "
                    f"{s['emitted_never_called']} emitted but never called, {s['no_emitted_function']} without an emitted function, "
                    f"{s['uncovered_blocks']} uncovered blocks\n")
        o.write("\n== emitted but never called ==\n")
        for k in never:
            o.write(f"  {'.'.join(k)}   ({per_decl[k]['where']})\n")
        o.write("\n== no emitted function (inlined into its callers, or not reachable from any generated program) ==\n")
        for k in absent:
            o.write(f"  {'.'.join(k)}   ({per_decl[k]['where']})\n")
        o.write(f"\n== compiler-generated arms never executed: {sum(generated.values())} "
                "(`else {{ _t = 0 }}` of a variant-tag test and the match-failure `panic(\"\")` after the last arm of an "
                "exhaustive match; not std source code, not listed) ==\n")
        o.write("\n== uncovered blocks of executed functions (emitted TypeScript text, temporaries normalised to #) ==\n")
        for b in blocks:
            o.write(f"\n--- {b['function']}   [{b['decl']}, {b['where']}]  {b['chars']} chars at +{b['offset']}\n")
            for cl in b.get("context", []):
                o.write("  | " + cl + "\n")
            t = b["text"]
            o.write((t if len(t) <= 1200 else t[:1200] + "\n    …") + "\n")
    print(json.dumps(summary, indent=1))


if __name__ == "__main__":
    main()
