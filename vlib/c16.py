"""C16 — text edits proposed by the language server apply cleanly and do what they say.

Proof: lean/SamVerif/Props/C16.lean over Model/Differ.lean (the list differ behind every edit).
Tie:   protocol `diff` — the real `list_differ::compute` (hook `verif_hooks_c16::list_diff`) against
       the Lean model on integer lists, exact script equality, on every run.
Oracle (implementation only, no model): generated workspaces + edit histories on a real
       `ServerState`; every auto-import quick fix / completion additional edit is spliced into the
       document text by an independent Python splice and the result is re-analysed from scratch.
"""
import json, os, re
from . import common
from .common import hexs, unhex

PROP = "C16"

# ----------------------------------------------------------------------------------------------
# part 1: list differ — generator, independent oracle, correspondence
# ----------------------------------------------------------------------------------------------

def fmt_list(xs):
    return ",".join(str(x) for x in xs) if xs else "-"


def gen_pair(rng):
    """(old, new, shape). Mostly `new` derived from `old` by edits, small alphabets => duplicates."""
    shape = rng.weighted([("append1", 18), ("edit", 40), ("random", 18), ("replace_all", 6),
                          ("empty_old", 4), ("empty_new", 4), ("equal", 3), ("long", 5), ("dups", 6)])
    alpha = rng.pick([2, 3, 4, 6, 10, 50])
    n = rng.range(0, 9)
    old = [rng.below(alpha) for _ in range(n)]
    if shape == "append1":
        new = old + [rng.below(alpha + 1)]
    elif shape == "edit":
        new = list(old)
        for _ in range(rng.range(1, 4)):
            k = rng.below(3)
            if k == 0 or not new:
                i = rng.below(len(new) + 1)
                new[i:i] = [rng.below(alpha + 2) for _ in range(rng.range(1, 3))]
            elif k == 1:
                i = rng.below(len(new)); j = min(len(new), i + rng.range(1, 3))
                del new[i:j]
            else:
                i = rng.below(len(new)); new[i] = rng.below(alpha + 2)
    elif shape == "random":
        new = [rng.below(alpha) for _ in range(rng.range(0, 9))]
    elif shape == "replace_all":
        new = [100 + rng.below(alpha) for _ in range(rng.range(1, 9))]
    elif shape == "empty_old":
        old = []; new = [rng.below(alpha) for _ in range(rng.range(0, 6))]
    elif shape == "empty_new":
        new = []
    elif shape == "equal":
        new = list(old)
    elif shape == "long":
        old = [rng.below(alpha) for _ in range(rng.range(10, 40))]
        new = [x for x in old if not rng.chance(1, 5)]
        for _ in range(rng.range(0, 6)):
            new.insert(rng.below(len(new) + 1), rng.below(alpha + 3))
    else:  # dups
        v = rng.below(2)
        old = [v] * rng.range(0, 6); new = [v] * rng.range(0, 6)
        if rng.chance(1, 2) and new:
            new[rng.below(len(new))] = 1 - v
    return old, new, shape


SCRIPT_RE = re.compile(r"^(I)@(-?\d+)\[([-\d,]*)\]s([01])l([01])$|^(D)@(-?\d+)\[(-?\d+)\]$|^(R)@(-?\d+)\[(-?\d+)>(-?\d+)\]$")


def parse_script(ans):
    """-> list of (kind, pos, payload) or None if the answer is not a script."""
    if ans == "-":
        return []
    out = []
    for part in ans.split(";"):
        m = SCRIPT_RE.match(part)
        if not m:
            return None
        if m.group(1):
            out.append(("I", int(m.group(2)), [int(x) for x in m.group(3).split(",")] if m.group(3) else [],
                        int(m.group(4)), int(m.group(5))))
        elif m.group(6):
            out.append(("D", int(m.group(7)), int(m.group(8))))
        else:
            out.append(("R", int(m.group(10)), int(m.group(11)), int(m.group(12))))
    return out


def diff_oracle(old, new, ans):
    """Independent check of a script produced by the implementation: positional (not sequential)
    meaning of the changes, the way `wrapped_list_diff` turns them into ranges.  Returns msg or None."""
    sc = parse_script(ans)
    if sc is None:
        return f"not a script: {ans[:80]}"
    n = len(old)
    ins, repl = {}, {}
    prev_key = None
    for c in sc:
        kind, p = c[0], c[1]
        if kind == "I":
            if not (-1 <= p < max(n, 0)) and not (p == -1):
                return f"insert position {p} outside old list of length {n}"
            if p in ins:
                return f"two inserts at position {p}"
            if not c[2]:
                return f"empty insert at {p}"
            if c[3] != 0:
                return "separator set by list_differ"
            ins[p] = c[2]
            lo, hi = (2 * p + 1, 2 * p + 1) if p >= 0 else (0, 0)
        else:
            if not (0 <= p < n):
                return f"{kind} position {p} outside old list of length {n}"
            if p in repl:
                return f"two delete/replace changes at position {p}"
            if c[2] != old[p]:
                return f"{kind}@{p} names element {c[2]} but old[{p}]={old[p]}"
            repl[p] = [] if kind == "D" else [c[3]]
            lo, hi = 2 * p, 2 * p + 1
        # ranges in a layout where element i occupies [2i, 2i+1): ordered and non-overlapping
        if prev_key is not None and lo < prev_key:
            return f"edit ranges overlap or are out of order at {kind}@{p}"
        prev_key = hi
    res = list(ins.get(-1, []))
    for i, a in enumerate(old):
        res += repl.get(i, [a])
        res += ins.get(i, [])
    if res != new:
        return f"script applied to old gives {res}, expected {new}"
    return None


def check_diffs(ctx, pairs, label, stats):
    """Correspondence + oracle on a batch of (old, new, shape)."""
    lines = [f"diff {fmt_list(o)} {fmt_list(n)}" for o, n, _ in pairs]
    if not lines:
        return
    impl, model = common.run_pair(PROP, lines)
    stats["diff_lines"] += len(lines)
    for i, (o, n, shape) in enumerate(pairs):
        a = impl[i] if i < len(impl) else "<missing>"
        m = model[i] if i < len(model) else "<missing>"
        stats["shape"][shape] = stats["shape"].get(shape, 0) + 1
        msg = diff_oracle(o, n, a)
        if msg is not None:
            o2, n2 = shrink_pair(o, n, lambda x, y: diff_oracle(x, y, run_impl_diff(x, y)) is not None)
            a2 = run_impl_diff(o2, n2)
            ctx.violation("list_differ::compute produces a wrong edit script: " + str(diff_oracle(o2, n2, a2)),
                          {"protocol": "diff", "label": label, "old": o2, "new": n2, "impl": a2,
                           "ops": [f"diff {fmt_list(o2)} {fmt_list(n2)}"]})
            return
        if a != m:
            def dis(x, y):
                i2, m2 = common.run_pair(PROP, [f"diff {fmt_list(x)} {fmt_list(y)}"])
                return i2[:1] != m2[:1]
            o2, n2 = shrink_pair(o, n, dis)
            i2, m2 = common.run_pair(PROP, [f"diff {fmt_list(o2)} {fmt_list(n2)}"])
            # search: the implementation's script was fine for this pair (oracle above); look for a
            # property-level failure near the disagreement before giving up
            found = search_near(ctx, o2, n2, label)
            if not found:
                ctx.violation("model/implementation disagreement on protocol diff; the implementation's script still "
                              "transforms old into new on every input tried",
                              {"protocol": "diff", "label": label, "old": o2, "new": n2, "impl": i2[:1], "model": m2[:1],
                               "ops": [f"diff {fmt_list(o2)} {fmt_list(n2)}"],
                               "broken": "correspondence `diff` (Model/Differ.lean vs list_differ::compute): the theorems of Props/C16.lean no longer speak about this code"},
                              no_input=True)
            return
        sc = parse_script(a) or []
        kinds = {c[0] for c in sc}
        key = (tuple(o), tuple(n))
        if key not in stats["distinct_pairs"]:
            stats["distinct_pairs"].add(key)
            if "R" in kinds or len(kinds) >= 2 or len(sc) >= 2:
                stats["nontrivial_pairs"] += 1
            for k in kinds:
                stats["change_kinds"][k] = stats["change_kinds"].get(k, 0) + 1
            if any(c[0] == "I" and c[4] == 1 for c in sc):
                stats["change_kinds"]["I-leading"] = stats["change_kinds"].get("I-leading", 0) + 1
            if len(stats["samples"]) < 3 and len(sc) >= 2:
                stats["samples"].append({"old": o, "new": n, "script": a})


def run_impl_diff(o, n):
    rc, out, _ = common.run_exec(common.harness_bin(PROP), [], [f"diff {fmt_list(o)} {fmt_list(n)}"])
    return out[0] if out else "<missing>"


def shrink_pair(o, n, fails):
    o, n = list(o), list(n)
    changed = True
    while changed:
        changed = False
        for which in (0, 1):
            xs = o if which == 0 else n
            i = 0
            while i < len(xs):
                cand = xs[:i] + xs[i + 1:]
                co, cn = (cand, n) if which == 0 else (o, cand)
                if fails(co, cn):
                    if which == 0: o = cand
                    else: n = cand
                    xs = cand; changed = True
                else:
                    i += 1
    return o, n


def search_near(ctx, o, n, label):
    """Enumerate small pairs over the values of the disagreeing pair; True if an oracle failure was
    found (and recorded)."""
    vals = sorted(set(o + n))[:3] or [0]
    import itertools
    lists = [list(t) for k in range(0, 5) for t in itertools.product(vals, repeat=k)]
    pairs = [(a, b) for a in lists for b in lists]
    lines = [f"diff {fmt_list(a)} {fmt_list(b)}" for a, b in pairs]
    rc, out, _ = common.run_exec(common.harness_bin(PROP), [], lines)
    for (a, b), ans in zip(pairs, out):
        msg = diff_oracle(a, b, ans)
        if msg is not None:
            ctx.violation("list_differ::compute produces a wrong edit script: " + msg,
                          {"protocol": "diff", "label": label + " (search)", "old": a, "new": b, "impl": ans,
                           "ops": [f"diff {fmt_list(a)} {fmt_list(b)}"]})
            return True
    return False


def enum_pairs(maxlen, vals):
    import itertools
    lists = [list(t) for k in range(0, maxlen + 1) for t in itertools.product(vals, repeat=k)]
    return [(a, b, "enum") for a in lists for b in lists]


# ----------------------------------------------------------------------------------------------
# part 2: documents, histories, splice oracle
# ----------------------------------------------------------------------------------------------

ROLE_MODS = {
    # module role -> class roles it exports (all have `function bar(): int`), plus one private class
    "A": ["Foo", "Bar"],
    "lib.B": ["Foo", "Qux"],
    "lib.deep.C": ["Zed", "Bar"],
    "D": ["Only"],
}
# names of >= 16 bytes are heap-interned strings subject to the server's GC (shorter ones are inline)
LONG_CLASS = {"Foo": "FooArithmeticHelpers", "Bar": "BarVeryLongClassNames", "Qux": "QuxExtraordinaryLength",
              "Zed": "ZedSixteenBytesPlus1", "Only": "OnlyOneExportedClass", "Hidden": "HiddenPrivateClassName",
              "Nope": "NopeNotExportedAnywhere"}
LONG_MOD = {"A": "ArithmeticLibraryModule", "lib.B": "librarypackagename.BetaModuleLongName",
            "lib.deep.C": "librarypackagename.deeplynestedpackage.GammaModuleLongName", "D": "DeltaModuleWithLongName"}


def make_world(rng):
    """Concrete names for the roles: short (inline PStr) or long (heap PStr), chosen per workspace."""
    lc, lm = rng.chance(2, 5), rng.chance(1, 3)
    cn = (lambda r: LONG_CLASS[r]) if lc else (lambda r: r)
    mn = (lambda r: LONG_MOD[r]) if lm else (lambda r: r)
    return {"mods": {mn(m): [cn(c) for c in cs] for m, cs in ROLE_MODS.items()}, "cn": cn, "mn": mn,
            "long_classes": lc, "long_mods": lm}


COMMENTS = ["// c1", "/* c2 */", "/** doc3 */", "// é日本", "/* multi\n   line */", "// import {X} from Y;"]


def exporter_text(rng, classes, private):
    """`private`: name of a private class to add, or None."""
    parts = []
    for c in classes:
        parts.append(f"class {c} {{\n  function bar(): int = 1\n}}\n")
    if private:
        parts.append(f"private class {private} {{\n  function bar(): int = 1\n}}\n")
    parts.append("interface IThing {}\n")
    return "\n".join(parts)


def gen_import(rng, mod, members, semi, style):
    ms = ", ".join(members)
    if style == 0:
        s = f"import {{ {ms} }} from {mod}"
    elif style == 1:
        s = f"import {{{ms}}} from {mod}"
    elif style == 2:
        s = "import {\n  " + ",\n  ".join(members) + "\n} from " + mod
    elif style == 3:
        s = f"import /* in */ {{ {ms} }} from {mod}"
    elif style == 4:
        s = f"import   {{ {ms} , }}   from   {mod}"
    else:
        s = f"import {{ {ms} }} from {mod} "
    return s + (";" if semi else "")


def gen_doc(rng, world, need, want_nosemi=False, nonascii_tail=False, exclude=(), tight=None, stale_from=None):
    """A document that uses class `need` without importing it (and never mentions the classes in
    `exclude`). Returns (text, meta).  `tight` layouts put something other than whitespace or a `//`
    comment behind the last import on the same line: a class that starts there and continues below
    (`class_starts`), a complete class with more below (`class_complete`), a block comment
    (`block_comment`), or the whole document on one line without a final newline (`one_line`)."""
    EXPORTERS = world["mods"]
    mods = list(EXPORTERS)
    if tight is None:
        tight = rng.weighted([("", 68), ("class_starts", 9), ("class_complete", 8), ("block_comment", 7), ("one_line", 8)])
    k = rng.weighted([(0, 25), (1, 30), (2, 25), (3, 12), (4, 8)])
    if tight and k == 0:
        k = rng.range(1, 2)
    pieces = []
    lead = rng.pick(["", "", "\n", "\n\n", "  ", "// header\n", "/* header */ ", "/** doc */\n", "\t\n"])
    if tight == "one_line":
        lead = rng.pick(["", " ", "/* h */ "])
    pieces.append(lead)
    imports = []
    for i in range(k):
        mod = rng.pick(mods)
        cands = [c for c in EXPORTERS[mod] if c != need and c not in exclude]
        if not cands:
            continue
        members = rng.shuffle(cands)[:rng.range(1, len(cands))]
        last = (i == k - 1)
        semi = not rng.chance(1, 4)
        if last and want_nosemi:
            semi = False
        style = rng.below(6)
        if tight == "one_line" and style == 2:
            style = 0
        txt = gen_import(rng, mod, members, semi, style)
        imports.append((mod, members, semi))
        pieces.append(txt)
        sep = rng.weighted([("\n", 50), ("\n\n", 12), (" ", 8), ("", 6 if semi else 0), (" " + rng.pick(COMMENTS[:3]) + "\n", 14),
                            ("\n" + rng.pick(COMMENTS) + "\n", 14), ("\r\n", 4)])
        if last and nonascii_tail:
            sep = " // é𝔸\n"
        if tight == "one_line":
            sep = rng.pick([" ", "  ", " /* c */ "] + ([""] if semi else []))
        elif last and tight in ("class_starts", "class_complete"):
            sep = rng.pick([" ", "  "] + ([""] if semi else []))
        elif last and tight == "block_comment":
            sep = rng.pick([" /* note\n   continues */\n", " /* c */ ", " /** doc\n */ ", "/* glued */\n" if semi else " /* c */\n"])
        pieces.append(sep)
    if (want_nosemi or tight) and not imports and need != world["cn"]("Only"):
        mod = world["mn"]("D")
        semi = not want_nosemi and rng.chance(1, 2)
        imports.append((mod, [world["cn"]("Only")], semi))
        pieces.append("import { %s } from %s%s" % (world["cn"]("Only"), mod, ";" if semi else ""))
        if tight == "block_comment":
            pieces.append(" /* note\n   continues */\n")
        elif tight:
            pieces.append(" ")
        else:
            pieces.append(rng.pick(["\n", " // t\n", "\n\n"]))
    if stale_from:
        # the document imports `need` from a module that does not (any longer) export it
        others = [c for c in EXPORTERS.get(stale_from, []) if c != need and c not in exclude]
        members = [need] + (rng.shuffle(others)[:1] if others and rng.chance(1, 3) else [])
        txt = gen_import(rng, stale_from, rng.shuffle(members), not rng.chance(1, 4), rng.below(6))
        if rng.chance(1, 2):
            pieces.insert(1, txt + rng.pick(["\n", "\n\n", " // was moved\n"]))
        else:
            pieces.append(txt + rng.pick(["\n", "\n\n", " "]))
        imports.append((stale_from, members, True))
    use = rng.weighted([("call", 40), ("param", 20), ("field", 15), ("two", 15), ("local", 10)])
    cname = rng.pick(["Main", "Main2", "App"])
    pre = rng.pick(["", "", rng.pick(COMMENTS) + "\n", "\n"])
    joiner = rng.pick(["\n", "\n\n", "\n", " ", ""])
    if tight in ("class_starts", "class_complete", "one_line"):
        pre = ""
    one_line_main = {"call": f"class {cname} {{ function main(): int = {need}.bar() }}",
                     "param": f"class {cname} {{ function f(x: {need}): int = 1 }}",
                     "field": f"class {cname}(val f: {need}) {{ method g(): int = 2 }}",
                     "two": f"class {cname} {{ function main(): int = {need}.bar() + {need}.bar() }}",
                     "local": f"class {cname} {{ function main(): int = {{ let v = {need}.bar(); v }} }}"}[use]
    if use == "call":
        main = f"class {cname} {{\n  function main(): int = {need}.bar()\n}}"
    elif use == "param":
        main = f"class {cname} {{\n  function f(x: {need}): int = 1\n}}"
    elif use == "field":
        main = f"class {cname}(val f: {need}) {{\n  method g(): int = 2\n}}"
    elif use == "two":
        main = f"class {cname} {{\n  function main(): int = {need}.bar() + {need}.bar()\n}}"
    else:
        main = f"class {cname} {{\n  function main(): int = {{\n    let v = {need}.bar();\n    v\n  }}\n}}"
    tops = []
    if tight == "class_complete":
        tops.append(rng.pick(["class Extra0 { function z(): int = 0 }", "interface Extra1 {}", "class Extra2 {}"]))
    if tight == "one_line" or (not tight and rng.chance(1, 6)):
        main = one_line_main
    tops.append(main)
    taken = {need} | set(exclude) | {x for _, ms, _ in imports for x in ms}
    coll = [c for cs in EXPORTERS.values() for c in cs if c not in taken]
    if coll and rng.chance(1, 7):
        # a toplevel of the document with the name of a class that another module exports
        cx = rng.pick(sorted(set(coll)))
        tops.append(rng.pick([f"class {cx} {{ function own(): int = 7 }}", f"interface {cx} {{ function own(): int }}",
                              f"private class {cx} {{}}"]))
    if use == "two":
        tops.append(f"interface Other {{ function h(y: {need}): int }}")
    elif rng.chance(1, 5):
        tops.append(rng.pick(["class Tail {}", "interface TailI { function t(): int }"]))
    if tight == "one_line":
        body = pre + " ".join(tops)
        tail = rng.pick(["", "", " ", " /* end */"])
    else:
        if tight == "class_complete":
            body = pre + tops[0] + rng.pick(["\n", "\n\n"]) + joiner.join(tops[1:]) + "\n"
        else:
            body = pre + joiner.join(tops) + "\n"
        tail = rng.pick(["", "", "\n", "// end\n", "/* end */"])
    pieces.append(body)
    pieces.append(tail)
    text = "".join(pieces)
    return text, {"imports": len(imports), "use": use, "lead": lead != "", "layout": tight or "plain",
                  "nosemi_last": bool(imports) and not imports[-1][2]}


def gen_case(rng, want_nosemi=False, nonascii_tail=False, force_hist=None, tight=None):
    """One workspace + history. Returns dict(lines=[protocol lines up to final state], doc, need, exporters)."""
    world = make_world(rng)
    cn, mn = world["cn"], world["mn"]
    role = rng.weighted([("Foo", 40), ("Bar", 20), ("Qux", 10), ("Zed", 10), ("Only", 10), ("Nope", 5), ("Hidden", 5)])
    need = cn(role)
    final_mods = {m: list(cs) for m, cs in world["mods"].items()}
    private_in = rng.pick(list(final_mods))
    hist = force_hist or rng.weighted([("stale_import", 12), ("none", 25), ("pre_mention", 25), ("doc_edit", 15), ("late_export", 12),
                                       ("rename_exporter", 9), ("remove_exporter", 7), ("doc_late", 7)])
    stale_from, stale_kind = None, None
    if hist == "stale_import":
        if role not in ("Foo", "Bar"):
            role = rng.pick(["Foo", "Bar"]); need = cn(role)
        holders = [m for m, cs in final_mods.items() if need in cs]
        stale_kind = rng.pick(["never", "removed", "renamed"])
        stale_from = rng.pick([m for m in final_mods if m not in holders]) if stale_kind == "never" else rng.pick(holders)
    doc, meta = gen_doc(rng, world, need, want_nosemi, nonascii_tail, tight=tight, stale_from=stale_from)
    lines = ["new"]
    srcs = {m: exporter_text(rng, cs, cn("Hidden") if m == private_in else None) for m, cs in final_mods.items()}
    others = [cn(r) for r in ("Foo", "Bar", "Zed", "Qux", "Nope") if cn(r) != need]
    def other_doc():
        # a version of the document that does not mention `need` at all
        return gen_doc(rng.fork(), world, rng.pick(others), exclude=(need,))[0]
    if hist == "none":
        for m, s in srcs.items(): lines.append(f"src {m} {hexs(s)}")
        lines.append(f"src Doc {hexs(doc)}"); lines.append("init")
    elif hist == "stale_import":
        for m, s in srcs.items(): lines.append(f"src {m} {hexs(s)}")
        lines.append(f"src Doc {hexs(doc)}"); lines.append("init")
        if stale_kind == "removed":       # the class was moved away: the module is updated without it
            final_mods[stale_from] = [c for c in final_mods[stale_from] if c != need]
            lines.append(f"upd {stale_from} {hexs(exporter_text(rng, final_mods[stale_from], cn('Hidden') if stale_from == private_in else None))}")
        elif stale_kind == "renamed":     # the module itself was moved; the document still names the old one
            newname = "moved." + stale_from.replace(".", "")
            lines.append(f"mv {stale_from} {newname}")
            final_mods[newname] = final_mods.pop(stale_from)
            if private_in == stale_from: private_in = newname
        if rng.chance(1, 3):
            lines.append(f"upd Doc {hexs(doc)}")
    elif hist == "pre_mention":
        # the whole edit history happens BEFORE the document first mentions the class: every GC round
        # of the history runs while nothing outside the exporter refers to the class name
        for m, s in srcs.items(): lines.append(f"src {m} {hexs(s)}")
        if rng.chance(1, 2):
            lines.append(f"src Scratch {hexs('class ScratchPad {}' + chr(10))}")
        first = rng.pick(["class Main {\n  function main(): int = 1\n}\n", other_doc(), ""])
        lines.append(f"src Doc {hexs(first)}"); lines.append("init")
        for _ in range(rng.range(1, 3)):
            k = rng.below(4)
            if k == 0:
                lines.append(f"upd Scratch {hexs('class ScratchPad { function f(): int = %d }' % rng.below(9) + chr(10))}")
            elif k == 1:
                lines.append(f"upd Doc {hexs('class Main {' + chr(10) + '  function main(): int = %d' % rng.below(9) + chr(10) + '}' + chr(10))}")
            else:
                lines.append(f"upd Doc {hexs(other_doc())}")
        lines.append(f"upd Doc {hexs(doc)}")
    elif hist == "doc_edit":
        for m, s in srcs.items(): lines.append(f"src {m} {hexs(s)}")
        v0, _ = gen_doc(rng.fork(), world, cn(rng.pick(["Foo", "Bar", "Zed"])))
        lines.append(f"src Doc {hexs(v0)}"); lines.append("init")
        for _ in range(rng.range(0, 2)):
            vi, _ = gen_doc(rng.fork(), world, cn(rng.pick(["Foo", "Qux", "Nope"])))
            lines.append(f"upd Doc {hexs(vi)}")
        if rng.chance(1, 4):
            lines.append(f"upd Doc {hexs('class {{{ broken')}")
        lines.append(f"upd Doc {hexs(doc)}")
    elif hist == "late_export":
        late = rng.pick(list(srcs))
        for m, s in srcs.items():
            lines.append(f"src {m} {hexs(s if m != late else 'class Placeholder {}' + chr(10))}")
        lines.append(f"src Doc {hexs(doc)}"); lines.append("init")
        lines.append(f"upd {late} {hexs(srcs[late])}")
    elif hist == "rename_exporter":
        old = rng.pick(list(srcs)); newname = "moved." + old.replace(".", "")
        for m, s in srcs.items(): lines.append(f"src {m} {hexs(s)}")
        lines.append(f"src Doc {hexs(doc)}"); lines.append("init")
        lines.append(f"mv {old} {newname}")
        final_mods[newname] = final_mods.pop(old)
        if private_in == old: private_in = newname
    elif hist == "remove_exporter":
        gone = rng.pick(list(srcs))
        for m, s in srcs.items(): lines.append(f"src {m} {hexs(s)}")
        lines.append(f"src Doc {hexs(doc)}"); lines.append("init")
        lines.append(f"rm {gone}")
        final_mods.pop(gone)
        if private_in == gone: private_in = None
    else:  # doc_late: the document is created by an update
        for m, s in srcs.items(): lines.append(f"src {m} {hexs(s)}")
        lines.append("init")
        lines.append(f"upd Doc {hexs(doc)}")
    exporters = sorted(m for m, cs in final_mods.items() if need in cs)
    if role == "Hidden" and private_in:
        exporters = [private_in]
    ifaces = {m: list(cs) + ([cn("Hidden")] if m == private_in else []) + ["IThing"] for m, cs in final_mods.items()}
    if any(l.startswith(("src Scratch ", "upd Scratch ")) for l in lines):
        ifaces["Scratch"] = ["ScratchPad"]
    meta["history"] = hist
    meta["names"] = ("long" if world["long_classes"] else "short") + "-class/" + ("long" if world["long_mods"] else "short") + "-module"
    meta["stale"] = stale_kind or ""
    return {"lines": lines, "doc": doc, "need": need, "exporters": exporters, "meta": meta, "ifaces": ifaces, "role": role,
            "offer_optional": hist == "stale_import", "private_name": cn("Hidden")}


# --- independent splice ---------------------------------------------------------------------

def line_starts(text_b):
    starts = [0]
    for i, ch in enumerate(text_b):
        if ch == 0x0A:
            starts.append(i + 1)
    return starts


def pos_to_off(text_b, starts, line, col):
    """(line, col) -> byte offset; columns are UTF-8 byte offsets within the line (the lexer's
    convention, confirmed by probe). None if the position is outside the document."""
    if line >= len(starts):
        return None
    s = starts[line]
    e = starts[line + 1] - 1 if line + 1 < len(starts) else len(text_b)
    if col > e - s:
        return None
    return s + col


def parse_edits(s):
    if s == "-":
        return []
    out = []
    for part in s.split(","):
        m = re.match(r"^(\d+):(\d+)-(\d+):(\d+)=([0-9a-f]+|-)$", part)
        if not m:
            raise ValueError("bad edit " + part)
        out.append(((int(m.group(1)), int(m.group(2)), int(m.group(3)), int(m.group(4))), unhex(m.group(5)).decode()))
    return out


def splice(text, edits):
    """Apply LSP-style edits to `text`. Returns (new_text, None) or (None, reason)."""
    tb = text.encode()
    starts = line_starts(tb)
    spans = []
    for idx, ((sl, sc, el, ec), new) in enumerate(edits):
        a = pos_to_off(tb, starts, sl, sc)
        b = pos_to_off(tb, starts, el, ec)
        if a is None or b is None:
            return None, f"edit range {sl}:{sc}-{el}:{ec} lies outside the document ({len(starts)} lines)"
        if a > b:
            return None, f"edit range {sl}:{sc}-{el}:{ec} is reversed"
        spans.append((a, b, idx, new.encode()))
    order = sorted(spans, key=lambda t: (t[0], t[2]))
    for x, y in zip(order, order[1:]):
        if y[0] < x[1] or (y[0] == x[0] and y[1] == x[1] and x[0] != x[1]):
            return None, f"edit ranges overlap: bytes [{x[0]},{x[1]}) and [{y[0]},{y[1]})"
    out, cur = [], 0
    for a, b, _, new in order:
        out.append(tb[cur:a]); out.append(new); cur = b
    out.append(tb[cur:])
    try:
        return b"".join(out).decode(), None
    except UnicodeDecodeError:
        return None, "edit range splits a UTF-8 character"


def parse_eval(ans):
    m = re.match(r"^errs=(\S+) syn=(\d+) imports=(\S+) tops=(\S+) comments=(\S+)$", ans)
    if not m:
        return None
    errs = []
    if m.group(1) != "-":
        for e in m.group(1).split(","):
            kind, loc, msg = e.split("@")
            errs.append((kind, loc, unhex(msg).decode()))
    return {"errs": errs, "syn": int(m.group(2)),
            "imports": [] if m.group(3) == "-" else m.group(3).split(","),
            "tops": [] if m.group(4) == "-" else m.group(4).split(","),
            "comments": [] if m.group(5) == "-" else m.group(5).split(",")}


def available_names(c):
    """Names a completion must not import again: members of every import + the document's own toplevels."""
    names = set()
    for imp in (c["base"] or {}).get("imports", []):
        names.update(imp.rsplit(":", 1)[1].split("+"))
    for m in re.finditer(r"\b(?:class|interface)\s+([A-Z]\w*)", strip_comments(c["doc"])):
        names.add(m.group(1))
    return names


def judge(doc, base, after, name, module, edits_reason):
    """Property oracle for one applied action. Returns list of failure strings."""
    bad = []
    if after is None:
        return ["re-analysis of the edited document failed"]
    syn_b = sorted(m for k, _, m in base["errs"] if k == "S")
    syn_a = sorted(m for k, _, m in after["errs"] if k == "S")
    extra = list(syn_a)
    for m in syn_b:
        if m in extra: extra.remove(m)
    if extra or after["syn"] > base["syn"]:
        bad.append("new syntax error after applying the edit: " + (extra[0] if extra else "(parser)"))
    want = sorted(base["imports"] + [f"{module}:{name}"])
    if sorted(after["imports"]) != want:
        bad.append(f"imports after the edit are {after['imports']}, expected {base['imports']} + {module}:{name}")
    ukey = "U:" + hexs(name)
    is_u = lambda k: k == ukey or k.startswith(ukey + ":")
    if any(is_u(k) for k, _, _ in after["errs"]):
        bad.append(f"class {name} is still reported as unresolved after the import was added")
    if after["tops"] != base["tops"]:
        bad.append("top-level declarations changed")
    # otherwise the same program: no diagnostic that was not there before (other than about `name`
    # itself, which is now resolved and therefore checked for the first time)
    old_msgs = [m for k, _, m in base["errs"] if k != "S"]
    was_unresolved = any(is_u(k) for k, _, _ in base["errs"])
    for k, _, m in after["errs"]:
        if k == "S" or (is_u(k) and was_unresolved):
            continue
        if m in old_msgs:
            old_msgs.remove(m)
        elif not (was_unresolved and name in m):
            bad.append("new diagnostic after applying the edit: " + m[:120])
    if sorted(after["comments"]) != sorted(base["comments"]):
        bad.append("comments lost or changed")
    return bad


def strip_comments(text):
    """Replace comments by spaces (same length), so offsets stay valid."""
    out, i, n = [], 0, len(text)
    while i < n:
        if text.startswith("//", i):
            j = text.find("\n", i)
            j = n if j < 0 else j
            out.append(" " * (j - i)); i = j
        elif text.startswith("/*", i):
            j = text.find("*/", i + 2)
            j = n if j < 0 else j + 2
            out.append("".join("\n" if ch == "\n" else " " for ch in text[i:j])); i = j
        elif text[i] == '"':
            j = i + 1
            while j < n and text[j] != '"' and text[j] != "\n":
                j += 2 if text[j] == "\\" else 1
            out.append(text[i:j + 1]); i = j + 1
        else:
            out.append(text[i]); i += 1
    return "".join(out)


IMPORT_RE = re.compile(r"import\s*\{[^}]*\}\s*from\s*[A-Za-z_][A-Za-z0-9_]*(?:\s*\.\s*[A-Za-z_][A-Za-z0-9_]*)*")


def nosemi_signature(doc, edits):
    """Open finding C16-F1: the document's last import has no terminating ';' and the edit is a pure
    insertion of an import at or behind the end of that import's module path."""
    plain = strip_comments(doc)
    ms = list(IMPORT_RE.finditer(plain))
    if not ms:
        return False
    last = ms[-1]
    rest = plain[last.end():].lstrip()
    if rest.startswith(";"):
        return False
    tb = doc.encode()
    starts = line_starts(tb)
    end_off = len(doc[:last.end()].encode())
    for (sl, sc, el, ec), new in edits:
        a = pos_to_off(tb, starts, sl, sc)
        if a is None or (sl, sc) != (el, ec) or not new.startswith("import"):
            return False
        if a < end_off:
            return False
    return True


KEYWORDS = {"import", "from", "class", "interface", "private", "function", "method", "val", "let", "if", "then", "else",
            "match", "int", "bool", "unit", "true", "false", "this"}


def ident_offsets(doc, cap=48):
    """(byte offset, word) of the identifiers of a document (comments blanked), class names first."""
    plain = strip_comments(doc)
    out = []
    for m in re.finditer(r"[A-Za-z_][A-Za-z0-9_]*", plain):
        if m.group(0) not in KEYWORDS:
            out.append((len(plain[:m.start()].encode()), m.group(0)))
    upper = [x for x in out if x[1][0].isupper()]
    rest = [x for x in out if not x[1][0].isupper()]
    return sorted((upper + rest)[:cap])


def positions_arg(text, offsets):
    tb = text.encode(); starts = line_starts(tb)
    import bisect
    ps = []
    for o in offsets:
        l = bisect.bisect_right(starts, o) - 1
        ps.append(f"{l}:{o - starts[l]}")
    return ",".join(ps) or "-"


def shifted_offsets(doc, edits, offsets):
    """Offsets of the same tokens after the edits; None unless all edits are zero-width insertions."""
    tb = doc.encode(); starts = line_starts(tb)
    ins = []
    for (sl, sc, el, ec), new in edits:
        if (sl, sc) != (el, ec):
            return None
        a = pos_to_off(tb, starts, sl, sc)
        if a is None:
            return None
        ins.append((a, len(new.encode())))
    return [o + sum(n for a, n in ins if a <= o) for o in offsets]


class DocRunner:
    """Runs cases against the harness in batches (two phases: query, then evaluate splices)."""

    def __init__(self, ctx, stats, defer=False, rng=None):
        """`defer`: collect failures / tie disagreements in `self.deferred` instead of reporting them
        (used when batches run in parallel; the caller reports them in a fixed order)."""
        self.ctx, self.stats, self.defer, self.deferred = ctx, stats, defer, []
        self.rng = rng if rng is not None else ctx.rng

    def harness(self, lines):
        rc, out, err = common.run_exec(common.harness_bin(PROP), [], lines)
        if len(out) < len(lines):
            out = out + [f"<harness died rc={rc}: {err.strip()[-200:]}>"] * (len(lines) - len(out))
        return out

    def run_cases(self, cases, label, probe_of=None):
        # phase 1: state + errors + baseline eval
        lines, idx = [], []
        for c in cases:
            start = len(lines)
            lines += c["lines"]
            lines.append("text Doc")
            lines.append("errs Doc")
            lines.append(f"eval Doc {hexs(c['doc'])}")
            idx.append((start, len(lines)))
        out = self.harness(lines)
        # phase 2: queries
        q_lines, q_idx = [], []
        for c, (s, e) in zip(cases, idx):
            ans = out[s:e]
            c["state_ok"] = all(not a.startswith("panic:") and not a.startswith("<") for a in ans)
            c["text_ans"], c["errs_ans"], c["base"] = ans[-3], ans[-2], parse_eval(ans[-1])
            qs = []
            if c["state_ok"] and c["errs_ans"] != "-":
                for ee in c["errs_ans"].split(","):
                    kind, loc, _ = ee.split("@")
                    if not kind.startswith("U:"):
                        continue
                    m = re.match(r"(\d+):(\d+)-(\d+):(\d+)", loc)
                    sl, sc, el, ec = map(int, m.groups())
                    nm = unhex(kind.split(":")[1]).decode()
                    lookup = unhex(kind.split(":")[2]).decode() if kind.count(":") >= 2 else "Doc"
                    c.setdefault("lookup_of", {})
                    rng = self.rng
                    k = rng.below(3)
                    if k == 0 or sl != el:
                        qs.append(("qa", nm, f"qa Doc {sl} {sc} {el} {ec}"))
                    elif k == 1:
                        cc = rng.range(sc, ec)
                        qs.append(("qa", nm, f"qa Doc {sl} {cc} {sl} {cc}"))
                    else:
                        qs.append(("qa", nm, f"qa Doc {sl} {sc} {sl} {sc}"))
                    c["lookup_of"][qs[-1][2]] = lookup
                    qs.append(("qc", nm, f"qc Doc {sl} {rng.range(sc + 1, max(sc + 1, ec))}"))
            c["queries"] = qs
            start = len(q_lines)
            q_lines += c["lines"] + [q[2] for q in qs]
            q_idx.append((start + len(c["lines"]), len(q_lines)))
        q_out = self.harness(q_lines) if q_lines else []
        # phase 3: splice + evaluate
        e_lines, e_idx = [], []
        for c, (s, e) in zip(cases, q_idx):
            c["actions"] = []
            if not c["state_ok"]:
                continue
            for (kind, nm, ql), ans in zip(c["queries"], q_out[s:e]):
                c["actions"] += self.actions_of(c, kind, nm, ql, ans)
            start = len(e_lines)
            e_lines += c["lines"]
            c["ilocs_at"] = len(e_lines)
            e_lines.append(f"ilocs {hexs(c['doc'])}")
            c["idents"] = ident_offsets(c["doc"])
            if c["idents"] and any(a.get("spliced") is not None for a in c["actions"]):
                c["defs_at"] = len(e_lines)
                e_lines.append(f"defs Doc {hexs(c['doc'])} {positions_arg(c['doc'], [o for o, _ in c['idents']])}")
            for a in c["actions"]:
                if a.get("spliced") is not None:
                    a["eval_at"] = len(e_lines)
                    e_lines.append(f"eval Doc {hexs(a['spliced'])}")
                    a["ilocs_at"] = len(e_lines)
                    e_lines.append(f"ilocs {hexs(a['spliced'])}")
                    sh = shifted_offsets(c["doc"], a["edits"], [o for o, _ in c["idents"]])
                    if sh is not None and c.get("defs_at") is not None:
                        a["defs_at"] = len(e_lines)
                        e_lines.append(f"defs Doc {hexs(a['spliced'])} {positions_arg(a['spliced'], sh)}")
        e_out = self.harness(e_lines) if e_lines else []
        self.tie_auto_import(cases, e_out, label)
        # verdicts
        for c in cases:
            self.stats["cases"] += 1
            self.stats["history"][c["meta"]["history"]] = self.stats["history"].get(c["meta"]["history"], 0) + 1
            self.stats["imports_hist"][str(c["meta"]["imports"])] = self.stats["imports_hist"].get(str(c["meta"]["imports"]), 0) + 1
            ly = c["meta"].get("layout", "?")
            self.stats.setdefault("layout_hist", {})[ly] = self.stats.setdefault("layout_hist", {}).get(ly, 0) + 1
            nm = c["meta"].get("names", "?")
            self.stats.setdefault("names_hist", {})[nm] = self.stats.setdefault("names_hist", {}).get(nm, 0) + 1
            if not c["state_ok"]:
                self.stats["state_panics"] += 1   # server crash while building the history: C11's business
                continue
            if c["text_ans"] != "t:" + hexs(c["doc"]):
                self.fail(c, None, ["server's text of the document differs from the last update"], label)
                continue
            self.verdict_case(c, e_out, label, probe_of)

    def tie_auto_import(self, cases, e_out, label):
        """Model `autoImportEdits` (Lean) vs the real quick-fix / completion edits: same ranges, same text."""
        dl, keep = [], []
        for c in cases:
            if not c.get("state_ok") or c.get("ilocs_at") is None:
                continue
            base = parse_ilocs(c["doc"], e_out[c["ilocs_at"]])
            if base is None:
                continue
            for a in c["actions"]:
                if a.get("ilocs_at") is None or not a.get("raw_edits"):
                    continue
                after = parse_ilocs(a["spliced"], e_out[a["ilocs_at"]])
                if not after or len(after) != len(base) + 1:
                    continue          # the property oracle reports such a case
                locs = ";".join(e[0] for e in base) or "-"
                n = len(base)
                dl.append(f"aimp {locs} {fmt_list(list(range(1, n + 1)))} {n + 1} {n + 1}={after[-1][1]}")
                keep.append((c, a))
        # quick-fix decision: model `codeActionOffered` vs which modules the real server offered, per error
        al, akeep = [], []
        for c in cases:
            for lookup, declares, offered, ql in c.get("cadec", []):
                al.append(f"cadec 1 {lookup} Doc {''.join(map(str, declares)) or '-'}")
                akeep.append((c, offered, ql))
        if al:
            rc, mo, err = common.run_exec(common.driver_bin(PROP), [], al)
            for (c, offered, ql), line, m in zip(akeep, al, mo + ["<missing>"] * len(al)):
                self.stats["tie_cadec"] = self.stats.get("tie_cadec", 0) + 1
                real = "".join(map(str, offered))
                if m == real:
                    self.stats["tie_cadec_ok"] = self.stats.get("tie_cadec_ok", 0) + 1
                else:
                    payload = {"protocol": "cadec", "label": label, "doc": c["doc"], "ops": c["lines"] + [ql], "model_op": line,
                               "modules": sorted(c["ifaces"]), "impl": real, "model": m,
                               "broken": "correspondence `cadec` (codeActionOffered vs lib.rs:505-530)"}
                    if self.defer:
                        self.deferred.append(("tie", payload))
                    elif len(self.ctx.violations) < 3:
                        self.ctx.violation("model/implementation disagreement on protocol cadec (which errors yield a quick fix)", payload, no_input=True)
        # completion decision: model `completionAdditionalEdits` vs which real items carry an edit
        cl, ckeep = [], []
        for c in cases:
            for avail, pairs, got in c.get("cdec", []):
                if pairs:
                    cl.append(f"cdec {','.join(avail) or '-'} 0 {','.join(n for n, _ in pairs)}")
                    ckeep.append((c, pairs, got))
        if cl:
            rc, mo, err = common.run_exec(common.driver_bin(PROP), [], cl)
            for (c, pairs, got), line, m in zip(ckeep, cl, mo + ["<missing>"] * len(cl)):
                self.stats["tie_cdec"] = self.stats.get("tie_cdec", 0) + 1
                real = "".join("1" if p in got else "0" for p in pairs)
                if m == real:
                    self.stats["tie_cdec_ok"] = self.stats.get("tie_cdec_ok", 0) + 1
                else:
                    payload = {"protocol": "cdec", "label": label, "doc": c["doc"], "ops": c["lines"], "model_op": line,
                               "pairs": pairs, "impl": real, "model": m,
                               "broken": "correspondence `cdec` (completionAdditionalEdits vs lib.rs:668-714)"}
                    if self.defer:
                        self.deferred.append(("tie", payload))
                    elif len(self.ctx.violations) < 3:
                        self.ctx.violation("model/implementation disagreement on protocol cdec (completion additional edits)", payload, no_input=True)
        if not dl:
            return
        rc, mo, err = common.run_exec(common.driver_bin(PROP), [], dl)
        for (c, a), line, m in zip(keep, dl, mo + ["<missing>"] * len(dl)):
            self.stats["tie_aimp"] += 1
            if m == a["raw_edits"]:
                self.stats["tie_aimp_ok"] += 1
            else:
                payload = {"protocol": "aimp", "label": label, "doc": c["doc"], "query": a["query"], "impl": a["raw_edits"],
                           "model": m, "ops": c["lines"] + [a["query"]], "model_op": line,
                           "broken": "correspondence `aimp` (Model/DifferText.lean autoImportEdits vs lib.rs generate_auto_import_edits): theorem auto_import_text no longer speaks about this code"}
                if self.defer:
                    self.deferred.append(("tie", payload))
                elif len(self.ctx.violations) < 3:
                    self.ctx.violation("model/implementation disagreement on protocol aimp (generate_auto_import_edits)", payload, no_input=True)

    def actions_of(self, c, kind, nm, ql, ans):
        acts = []
        if ans.startswith("panic:") or ans.startswith("<"):
            acts.append({"kind": kind, "query": ql, "name": nm, "module": None, "edits": [], "spliced": None,
                         "reason": "server call panicked: " + (unhex(ans[6:]).decode("utf-8", "replace") if ans.startswith("panic:") else ans)})
            return acts
        if kind == "qa":
            titles = []
            if ans != "-":
                for part in ans.split(";"):
                    th, eh = part.split("|")
                    title = unhex(th).decode()
                    m = re.match(r"^Import `([^`]*)` from `([^`]*)`$", title)
                    nm2, mod = (m.group(1), m.group(2)) if m else (None, None)
                    titles.append(mod)
                    acts.append(self.mk_action(c, "qa", ql, nm2, mod, eh, title))
            exp = c["exporters"]
            lookup = c.get("lookup_of", {}).get(ql, "Doc")
            if c.get("ifaces") is not None:
                mods = sorted(c["ifaces"])
                c.setdefault("cadec", []).append((lookup, [1 if nm in c["ifaces"][M] else 0 for M in mods],
                                                  [1 if M in titles else 0 for M in mods], ql))
            if c.get("offer_optional"):
                # class imported from a module that does not export it: the unchanged server offers nothing
                # (lib.rs:509-511 guard); whatever is offered must name a real exporter and is judged like
                # every other action (it has to resolve the class)
                if not set(t for t in titles if t) <= set(exp) and nm == c["need"]:
                    acts.append({"kind": "qa", "query": ql, "name": nm, "module": None, "edits": [], "spliced": None,
                                 "reason": f"quick fixes offered for `{nm}`: from {sorted(t for t in titles if t)}; modules exporting it: {exp}"})
            elif sorted(t for t in titles if t) != sorted(exp) and nm == c["need"]:
                acts.append({"kind": "qa", "query": ql, "name": nm, "module": None, "edits": [], "spliced": None,
                             "reason": f"quick fixes offered for `{nm}`: from {sorted(t for t in titles if t)}; modules exporting it: {exp}"})
        else:
            m = re.match(r"^n=(\d+) (\S+)(?: plain=(\S+))?$", ans)
            if not m:
                acts.append({"kind": kind, "query": ql, "name": nm, "module": None, "edits": [], "spliced": None,
                             "reason": "unreadable completion answer " + ans[:60]})
                return acts
            if m.group(2) != "-":
                items = m.group(2).split(";")
                # all items for the needed class, plus up to two others
                chosen, others = [], []
                for it in items:
                    lh, dh, eh = it.split("|")
                    (chosen if unhex(lh).decode() == nm else others).append((lh, dh, eh))
                own = available_names(c)
                others.sort(key=lambda it: 0 if unhex(it[0]).decode() in own else 1)   # colliding names first
                for lh, dh, eh in chosen + others[:2]:
                    acts.append(self.mk_action(c, "qc", ql, unhex(lh).decode(), None, eh, unhex(dh).decode()))
            # which completion items carry an auto-import edit (lib.rs:686-698): exactly the classes /
            # interfaces of the other workspace modules whose name is not yet available in the document
            # (imported from anywhere, or declared in it)
            if int(m.group(1)) > 0 and c.get("ifaces") is not None:
                got = set()
                for it in ([] if m.group(2) == "-" else m.group(2).split(";")):
                    lh, dh, eh = it.split("|")
                    try:
                        txt = " ".join(t for _, t in parse_edits(eh))
                    except ValueError:
                        txt = ""
                    mm = re.search(r"import\s*\{\s*(\w+)\s*\}\s*from\s*([\w.]+);", txt)
                    got.add((unhex(lh).decode(), mm.group(2) if mm and mm.group(1) == unhex(lh).decode() else "?"))
                avail = available_names(c)
                want = {(n, M) for M, ns in c["ifaces"].items() for n in ns if n not in avail}
                c.setdefault("cdec", []).append((sorted(avail), sorted((n, M) for M, ns in c["ifaces"].items() for n in ns), got))
                self.stats["completion_sets"] = self.stats.get("completion_sets", 0) + 1
                if got != want:
                    acts.append({"kind": "qc", "query": ql, "name": nm, "module": None, "edits": [], "spliced": None,
                                 "reason": f"completion items carrying an auto-import edit: {sorted(got - want)} unexpected, {sorted(want - got)} missing "
                                           f"(names already available in the document: {sorted(avail)})"})
                else:
                    self.stats["completion_sets_ok"] = self.stats.get("completion_sets_ok", 0) + 1
        return acts

    def mk_action(self, c, kind, ql, name, module, eh, title):
        a = {"kind": kind, "query": ql, "name": name, "module": module, "title": title, "raw_edits": eh,
             "spliced": None, "reason": None}
        try:
            a["edits"] = parse_edits(eh)
        except ValueError as ex:
            a["edits"] = []; a["reason"] = str(ex); return a
        if not a["edits"]:
            a["reason"] = "action without edits"; return a
        a["spliced"], a["reason"] = splice(c["doc"], a["edits"])
        return a

    def verdict_case(self, c, e_out, label, probe_of):
        for a in c["actions"]:
            self.stats["actions"] += 1
            self.stats["action_kinds"][a["kind"]] = self.stats["action_kinds"].get(a["kind"], 0) + 1
            bad = []
            if a["spliced"] is None:
                bad = [a["reason"] or "edit could not be applied"]
            else:
                after = parse_eval(e_out[a["eval_at"]]) if a.get("eval_at") is not None and a["eval_at"] < len(e_out) else None
                module = a["module"]
                if module is None and after is not None:
                    # completion items do not name the module: take it from the import that appeared
                    new = [i for i in after["imports"] if i.endswith(":" + (a["name"] or ""))]
                    old = [i for i in c["base"]["imports"] if i.endswith(":" + (a["name"] or ""))]
                    for i in old:
                        if i in new: new.remove(i)
                    module = new[0].rsplit(":", 1)[0] if new else "?"
                bad = judge(c["doc"], c["base"], after, a["name"], module, a["reason"])
                if a["name"] == c.get("private_name"):
                    # a private class is not "a class that some other module exports": the server offers it anyway
                    # (interfaces.contains_key ignores `private`) and importing it reports "no such export" - outside
                    # the property's quantifier (see reports/C16.md, observations)
                    bad = [b for b in bad if not (b.startswith("new diagnostic") and a["name"] in b)]
                if c.get("ifaces") is not None and module not in c["ifaces"] and module not in ("?", None):
                    bad.append(f"the edit imports from module `{module}`, which does not exist in the workspace")
                if a["kind"] == "qc" and module not in c["exporters"] and a["name"] == c["need"]:
                    bad.append(f"completion imports `{a['name']}` from `{module}` which does not export it")
                if a.get("defs_at") is not None and a["defs_at"] < len(e_out) and c.get("defs_at") is not None:
                    before_d, after_d = e_out[c["defs_at"]].split(","), e_out[a["defs_at"]].split(",")
                    had_u = any(k.startswith("U:" + hexs(a["name"] or "")) for k, _, _ in c["base"]["errs"])
                    if len(before_d) == len(after_d) == len(c["idents"]):
                        for (o, word), x, y in zip(c["idents"], before_d, after_d):
                            if x != y and x not in ("-", "panic") and not (word == a["name"] and had_u):
                                # (what did not resolve before may start resolving: the imported class and its members)
                                fmt = lambda d: d if d in ("-", "panic") else d.split("@")[0] + ": " + unhex(d.split("@")[1]).decode("utf-8", "replace")
                                bad.append(f"reference `{word}` (byte {o}) resolved to [{fmt(x)}] before the edit and to [{fmt(y)}] after it")
                                break
                        self.stats["definition_targets_compared"] = self.stats.get("definition_targets_compared", 0) + len(c["idents"])
                a["after"] = after
            if a.get("module") or (a.get("after") and a.get("name")):
                tgt = a.get("module") or module
                if any(i.rsplit(":", 1)[0] == tgt for i in c["base"]["imports"]):
                    self.stats["target_module_already_imported"] = self.stats.get("target_module_already_imported", 0) + 1
            if bad:
                self.fail(c, a, bad, label, probe_of)
            else:
                self.stats["actions_ok"] += 1
                key = (c["doc"], a["kind"], a["name"], a["module"])
                if key not in self.stats["distinct_actions"]:
                    self.stats["distinct_actions"].add(key)
                if len(self.stats["doc_samples"]) < 3:
                    self.stats["doc_samples"].append({"doc": c["doc"], "history": c["meta"]["history"], "query": a["query"],
                                                      "title": a.get("title"), "edits": a.get("raw_edits") and [
                                                          {"range": "%d:%d-%d:%d" % e[0], "text": e[1]} for e in a["edits"]]})

    def fail(self, c, a, bad, label, probe_of=None):
        ctx = self.ctx
        if self.defer:
            self.deferred.append(("fail", c, a, bad, label))
            return
        payload = {"protocol": "docs", "label": label, "ops": c["lines"] + ([a["query"]] if a else []), "doc": c["doc"],
                   "need": c["need"], "exporters": c["exporters"], "failures": bad,
                   "action": {k: v for k, v in (a or {}).items() if k in ("kind", "query", "name", "module", "title", "edits", "spliced", "reason")}}
        # known-finding matching: no open finding left (C16-F1 is fixed by /repo commit 2ac0a3a; a
        # regression of it is an ordinary VIOLATION). `nosemi_signature` is kept for the record only.
        if len(ctx.violations) < 3:
            small = shrink_case(self, c, a, bad)
            payload["shrunk_doc"] = small
            ctx.violation("language-server edit breaks C16: " + bad[0], payload)


def shrink_case(runner, c, a, bad):
    """Line-level ddmin of the document, keeping 'some action fails in the same way'."""
    if a is None:
        return c["doc"]
    kind0 = bad[0].split(":")[0][:25]
    def fails(lines_):
        doc = "".join(lines_)
        c2 = {"lines": ["new"] + [l for l in c["lines"] if l.startswith("src ") and not l.startswith("src Doc ")] +
                       [f"src Doc {hexs(doc)}", "init"], "doc": doc, "need": c["need"], "exporters": c["exporters"],
              "meta": dict(c["meta"], history="none")}
        st = new_stats()
        hits = []
        r2 = DocRunner(runner.ctx, st, defer=True)
        r2.fail = lambda cc, aa, bb, ll, pp=None: hits.append(bb)
        r2.run_cases([c2], "shrink")
        return any(b[0].startswith(kind0) for b in hits)
    parts = c["doc"].splitlines(keepends=True)
    try:
        if fails(parts):
            parts = common.ddmin(parts, fails, max_tests=40)
    except Exception:
        pass
    return "".join(parts)


# ----------------------------------------------------------------------------------------------
# part 3: general module-diff oracle (hook `module_diff_edits`): Delete / Replace / Insert with and
# without leading separator, for imports and toplevels, positioned by real AST locations
# ----------------------------------------------------------------------------------------------

MD_IMPORTS = ["import { Foo } from A;", "import {Bar} from A;", "import { Qux } from lib.B;",
              "import { Foo, Qux } from lib.B;", "import { Only } from D;", "import {Zed} from lib.deep.C;",
              "import {\n  Zed,\n  Bar\n} from lib.deep.C;"]
MD_TOPS = ["class K1 {}", "class K2 { function f(): int = 1 }", "interface I1 {}", "class K3(val a: int) {}",
           "private class K4 {}", "class K5<T> {}", "interface I2 { function g(): int }",
           "class K6 {\n  function h(): int = 2\n}", "class K1 { function other(): int = 3 }"]
FULL_DOC_END = 4294967295


def gen_mdiff_pair(rng):
    """Old and new module texts sharing a slot layout (one item or a blank line per slot), so that
    unchanged items keep their locations and the differ produces genuine inserts/deletes/replaces."""
    ni, nt = rng.range(0, 4), rng.range(0, 4)
    def slots(pool, n):
        return [rng.pick(pool) if rng.chance(3, 4) else None for _ in range(n)]
    oi, ot = slots(MD_IMPORTS, ni), slots(MD_TOPS, nt)
    def edit(xs, pool):
        ys = list(xs)
        for _ in range(rng.range(0, 3)):
            k = rng.below(4)
            if k == 0 or not ys:
                ys.append(rng.pick(pool))                       # append at the end
            else:
                i = rng.below(len(ys))
                if k == 1: ys[i] = None                          # delete (or keep blank)
                elif k == 2: ys[i] = rng.pick(pool)              # insert into a blank / replace
                else: ys[i] = ys[i]
        return ys
    ni_, nt_ = edit(oi, MD_IMPORTS), edit(ot, MD_TOPS)
    # no comments: replacing a node that carries comments re-prints them without covering them in
    # the replaced range (duplicated comment) - a defect of the general differ that auto-import cannot
    # reach (its only new node has no comments); kept out of this stream, see reports/C16.md
    head = rng.pick(["", "", "\n", "\n\n"])
    def render(imps, tops, n_imp_slots):
        # imports occupy the first n_imp_slots "paragraphs", padded so that toplevels start at the same line
        lines = []
        for x in imps:
            lines.append(x if x is not None else "")
        body = "\n".join(lines)
        pad = n_imp_slots - len(imps)
        body += "\n" * max(pad, 0)
        tl = [x if x is not None else "" for x in tops]
        return head + body + ("\n" if lines else "") + "\n".join(tl) + "\n"
    width = max(len(oi), len(ni_))
    # multi-line items shift later lines; that is fine (they then differ by location => Replace)
    return render(oi, ot, width), render(ni_, nt_, width)


def import_pairs(summary):
    out = []
    for imp in ([] if summary == "-" else summary.split(",")):
        m, members = imp.rsplit(":", 1)
        out += [(m, x) for x in members.split("+")]
    return sorted(out)


def md_splice(text, edits):
    fixed = []
    nlines = text.count("\n")
    for (sl, sc, el, ec), new in edits:
        if (el, ec) == (FULL_DOC_END, FULL_DOC_END):   # Location::full_document: clients clamp to the end
            tb = text.encode(); starts = line_starts(tb)
            el = len(starts) - 1; ec = len(tb) - starts[-1]
        fixed.append(((sl, sc, el, ec), new))
    return splice(text, fixed)


def check_mdiffs(ctx, runner, pairs, label, stats):
    lines = [f"mdiff {hexs(a)} {hexs(b)}" for a, b in pairs]
    out = runner.harness(lines)
    l2, idx = [], []
    for (a, b), ans in zip(pairs, out):
        stats["md_pairs"] += 1
        if ans == "skip":
            stats["md_skipped"] += 1; idx.append(None); continue
        if ans.startswith("panic:") or ans.startswith("<"):
            idx.append(("fail", "module_diff_edits panicked: " + (unhex(ans[6:]).decode("utf-8", "replace") if ans.startswith("panic:") else ans), None, None)); continue
        try:
            edits = parse_edits(ans)
        except ValueError as ex:
            idx.append(("fail", str(ex), None, None)); continue
        sp, why = md_splice(a, edits)
        if sp is None:
            idx.append(("fail", why, edits, None)); continue
        idx.append(("eval", len(l2), edits, sp))
        l2 += [f"sum {hexs(sp)}", f"sum {hexs(b)}"]
    o2 = runner.harness(l2) if l2 else []
    for (a, b), st in zip(pairs, idx):
        if st is None:
            continue
        bad = None
        if st[0] == "fail":
            bad = st[1]
        else:
            got, want = o2[st[1]], o2[st[1] + 1]
            pg, pw = re.match(r"^syn=(\d+) imports=(\S+) tops=(\S+) comments=(\S+)$", got), re.match(r"^syn=(\d+) imports=(\S+) tops=(\S+) comments=(\S+)$", want)
            if not pg or not pw:
                bad = "unreadable summary " + got[:60]
            elif pw.group(1) != "0":
                continue      # generator produced an invalid target; not a case
            elif pg.group(1) != "0":
                bad = "edited text has syntax errors"
            elif pg.group(2) != pw.group(2) and not (
                    any(e[0][2] == FULL_DOC_END for e in st[2]) and import_pairs(pg.group(2)) == import_pairs(pw.group(2))):
                # (a full-document edit is the *formatted* new module: the formatter merges and sorts the
                # imports of one module, so there the (module, member) pairs are compared)
                bad = f"imports of the edited text are {pg.group(2)}, expected {pw.group(2)}"
            elif pg.group(3) != pw.group(3):
                bad = "toplevels of the edited text differ from the target module"
            elif sorted(pg.group(4).split(",")) != sorted(pw.group(4).split(",")):
                bad = "comments of the edited text differ from the target module"
        if bad:
            if len(ctx.violations) < 3:
                ctx.violation("module diff edits (ast_differ.rs change -> edit conversion) do not turn the old text into the new module: " + bad,
                              {"protocol": "mdiff", "label": label, "old_text": a, "new_text": b, "ops": [f"mdiff {hexs(a)} {hexs(b)}"],
                               "edits": [{"range": "%d:%d-%d:%d" % e[0], "text": e[1]} for e in (st[2] or [])], "edited": st[3]})
        else:
            stats["md_ok"] += 1
            kinds = set()
            for (sl, sc, el, ec), new in st[2]:
                kinds.add("insert" if (sl, sc) == (el, ec) else ("delete" if new == "" else "replace"))
                if new.startswith("\n"): kinds.add("insert-leading-sep")
                if el == FULL_DOC_END: kinds.add("full-document")
            for k in kinds:
                stats["md_kinds"][k] = stats["md_kinds"].get(k, 0) + 1
            if len(st[2]) >= 2:
                stats["md_nontrivial"].add((a, b))
            if len(stats["md_samples"]) < 2 and len(st[2]) >= 2:
                stats["md_samples"].append({"old_text": a, "new_text": b, "edits": [{"range": "%d:%d-%d:%d" % e[0], "text": e[1]} for e in st[2]]})


# ----------------------------------------------------------------------------------------------
# part 4: tie of the text-level model (Model/DifferText.lean: importEdits / autoImportEdits) to
# `wrapped_list_diff` + `to_edit` + `generate_auto_import_edits`, through `mdiff` / real quick fixes
# ----------------------------------------------------------------------------------------------

MD_IMPORTS_1L = [x for x in MD_IMPORTS if "\n" not in x] + ["import {Qux} from lib.B", "import { Bar, Foo } from A"]


def gen_import_pair(rng):
    """Two module texts with identical toplevels at identical lines and different import lists
    (one import or a blank line per slot, all single-line)."""
    n = rng.range(0, 5)
    old = [rng.pick(MD_IMPORTS_1L) if rng.chance(3, 4) else None for _ in range(n)]
    new = list(old)
    for _ in range(rng.range(1, 3)):
        k = rng.below(3)
        if k == 0 or not new:
            new.append(rng.pick(MD_IMPORTS_1L))
        else:
            i = rng.below(len(new))
            new[i] = None if k == 1 else rng.pick(MD_IMPORTS_1L)
    width = max(len(old), len(new))
    tops = "\n".join(rng.pick(MD_TOPS[:5]) for _ in range(rng.range(0, 2)))
    def render(xs):
        # a ';'-less import must not be followed directly by another item on the same line: one per line
        return "".join((x or "") + "\n" for x in xs) + "\n" * (width - len(xs)) + tops + "\n"
    return render(old), render(new)


def parse_ilocs(text, ans):
    """-> list of (loc 'l:c-l:c', rendered hex, raw source substring) or None."""
    if ans in ("skip",) or ans.startswith(("panic:", "<")):
        return None
    if ans == "-":
        return []
    tb = text.encode(); starts = line_starts(tb)
    out = []
    for part in ans.split(","):
        loc, rendered = part.split("=")
        m = re.match(r"(\d+):(\d+)-(\d+):(\d+)", loc)
        a = pos_to_off(tb, starts, int(m.group(1)), int(m.group(2)))
        b = pos_to_off(tb, starts, int(m.group(3)), int(m.group(4)))
        if a is None or b is None:
            return None
        out.append((loc, rendered, tb[a:b]))
    return out


def check_module_tie(ctx, runner, pairs, label, stats):
    """Model `moduleEdits` (imports + toplevels incl. the Err path, Model/DifferText.lean) vs the real
    `module_diff_edits` on whole module pairs (comment-free): exact equality of the edit lists."""
    lines = []
    for a, b in pairs:
        lines += [f"mdiff {hexs(a)} {hexs(b)}", f"ilocs {hexs(a)}", f"ilocs {hexs(b)}", f"tlocs {hexs(a)}", f"tlocs {hexs(b)}"]
    out = runner.harness(lines)
    dl, keep = [], []
    for i, (a, b) in enumerate(pairs):
        real = out[5 * i]
        parts = [parse_ilocs(a, out[5 * i + 1]), parse_ilocs(b, out[5 * i + 2]), parse_ilocs(a, out[5 * i + 3]), parse_ilocs(b, out[5 * i + 4])]
        if real == "skip" or any(p is None for p in parts) or "4294967295" in real:
            continue
        args = []
        for old, new in ((parts[0], parts[1]), (parts[2], parts[3])):
            ids, table = {}, {}
            def ident(e):
                k = (e[0], e[2])
                if k not in ids:
                    ids[k] = len(ids) + 1
                table[ids[k]] = e[1]
                return ids[k]
            oi, ni = [ident(e) for e in old], [ident(e) for e in new]
            args += [";".join(e[0] for e in old) or "-", fmt_list(oi), fmt_list(ni),
                     ",".join(f"{k}={v}" for k, v in sorted(table.items())) or "-"]
        dl.append("medits " + " ".join(args))
        keep.append((a, b, real))
    if not dl:
        return
    rc, mo, err = common.run_exec(common.driver_bin(PROP), [], dl)
    for (a, b, real), line, m in zip(keep, dl, mo + ["<missing>"] * len(dl)):
        stats["tie_module_pairs"] = stats.get("tie_module_pairs", 0) + 1
        if real != m:
            if len(ctx.violations) < 3:
                ctx.violation("model/implementation disagreement on protocol medits (compute_module_diff: imports + toplevels, Err paths)",
                              {"protocol": "medits", "label": label, "old_text": a, "new_text": b, "impl": real, "model": m, "ops": [line],
                               "broken": "correspondence `medits` (Model/DifferText.lean moduleEdits vs ast_differ.rs:362-409)"}, no_input=True)
        else:
            stats["tie_module_ok"] = stats.get("tie_module_ok", 0) + 1


def check_import_tie(ctx, runner, pairs, label, stats):
    lines = []
    for a, b in pairs:
        lines += [f"mdiff {hexs(a)} {hexs(b)}", f"ilocs {hexs(a)}", f"ilocs {hexs(b)}"]
    out = runner.harness(lines)
    dl, keep = [], []
    for i, (a, b) in enumerate(pairs):
        real, la, lb = out[3 * i], parse_ilocs(a, out[3 * i + 1]), parse_ilocs(b, out[3 * i + 2])
        if real == "skip" or la is None or lb is None:
            continue
        ids, table = {}, {}
        def ident(e):
            k = (e[0], e[2])          # same location and same source text => equal AST nodes
            if k not in ids:
                ids[k] = len(ids) + 1
            table[ids[k]] = e[1]
            return ids[k]
        oi, ni = [ident(e) for e in la], [ident(e) for e in lb]
        locs = ";".join(e[0] for e in la) or "-"
        tab = ",".join(f"{k}={v}" for k, v in sorted(table.items())) or "-"
        dl.append(f"iedits {locs} {fmt_list(oi)} {fmt_list(ni)} {tab}")
        keep.append((a, b, real))
    if not dl:
        return
    rc, mo, err = common.run_exec(common.driver_bin(PROP), [], dl)
    for (a, b, real), line, m in zip(keep, dl, mo + ["<missing>"] * len(dl)):
        stats["tie_import_pairs"] += 1
        if real != m:
            if len(ctx.violations) < 3:
                ctx.violation("model/implementation disagreement on protocol iedits (wrapped_list_diff + to_edit for the import list); "
                              "see also the module-pair oracle", {"protocol": "iedits", "label": label, "old_text": a, "new_text": b,
                              "impl": real, "model": m, "ops": [line],
                              "broken": "correspondence `iedits` (Model/DifferText.lean importEdits vs ast_differ.rs:177-425): theorems text_lift / import_edits_text no longer speak about this code"},
                              no_input=True)
        else:
            stats["tie_import_ok"] += 1


def merge_stats(dst, src):
    for k, v in src.items():
        if isinstance(v, int):
            dst[k] = dst.get(k, 0) + v
        elif isinstance(v, set):
            dst.setdefault(k, set()).update(v)
        elif isinstance(v, dict):
            d = dst.setdefault(k, {})
            for kk, vv in v.items():
                d[kk] = d.get(kk, 0) + vv
        elif isinstance(v, list):
            dst.setdefault(k, [])
            dst[k] += v[:max(0, 3 - len(dst[k]))]


def run_doc_batches(ctx, batches, rng, stats, label, workers=4):
    """Run document batches on a few harness processes in parallel.  Everything random is drawn
    before the threads start (one forked rng per batch) and the results are merged in batch order,
    so a run is deterministic for a given seed."""
    from concurrent.futures import ThreadPoolExecutor
    runners = [DocRunner(ctx, new_stats(), defer=True, rng=rng.fork()) for _ in batches]
    def work(i):
        runners[i].run_cases(batches[i], label)
        return i
    with ThreadPoolExecutor(max_workers=workers) as ex:
        list(ex.map(work, range(len(batches))))
    deferred = []
    for r in runners:
        merge_stats(stats, r.stats)
        deferred += r.deferred
    return deferred


def report_deferred(ctx, runner, deferred, rng, stats):
    """Concrete property failures first; a tie disagreement is reported as such only after a search
    for a failing document (layouts that put text behind the last import on its line) found nothing."""
    fails = [d for d in deferred if d[0] == "fail"]
    ties = [d for d in deferred if d[0] == "tie"]
    def pick(fs):
        # up to three failures, preferring different kinds of failure
        seen, out = set(), []
        for f in fs:
            k = f[3][0][:30]
            if k not in seen:
                seen.add(k); out.append(f)
        return (out + [f for f in fs if f not in out])[:3]
    for _, c, a, bad, label in pick(fails):
        runner.fail(c, a, bad, label)
    if ties and not fails:
        batches = [[gen_case(rng.fork(), tight=t) for t in ("class_starts", "class_complete", "block_comment", "one_line") * 12]
                   for _ in range(4)]
        more = run_doc_batches(ctx, batches, rng, stats, "search after aimp disagreement")
        found = [d for d in more if d[0] == "fail"]
        for _, c, a, bad, label in pick(found):
            runner.fail(c, a, bad, label)
        if not found:
            ctx.violation("model/implementation disagreement on protocol " + str(ties[0][1].get("protocol")) + "; no failing "
                          "document found among the generated and the searched layouts", ties[0][1], no_input=True)
    stats["tie_disagreements"] = stats.get("tie_disagreements", 0) + len(ties)


# ----------------------------------------------------------------------------------------------
# part 5: deterministic families (seed-independent, every run) for code the random streams do not reach
# ----------------------------------------------------------------------------------------------

def blank_span(tb, a, b):
    return tb[:a] + bytes(10 if ch == 10 else 32 for ch in tb[a:b]) + tb[b:]


EXTRA_SAMPLE = """import { Foo } from A;
import { Bar } from A;
import { Qux } from lib.B;

interface Shape { method area(): int /* after last member */ }

class Pt(val a: int, val b: int) : Shape {
  method area(): int = (this.a) < 3 && (-this.a) < 3 && (1 + this.a) < 3
  method chain(): int = this.a - (this.b - 1) + (this.a * (this.b * 2)) + ((this.a * 2) + this.b)
  method lam(): int = (((x: int) -> x + this.a)) < 3
  function call(): int = Pt.init(1, /* trailing arg comment */ 2).area()
  function empty(): unit = Process.println(/* only a comment */)
  function block(): int = {
    let v = 1;
    v
    /* ending comment after the final expression */
  }
  function block2(): unit = {
    let w = 2;
    // ending comment without final expression
  }
  /* comment before the closing brace of the class */
}
// trailing comment of the module
"""


def kind_family(runner, max_bytes=7000):
    """Module pairs built from /repo's own sample programs (tests/*.sam, std/*.sam — every toplevel, member,
    statement, expression and pattern kind of the language occurs in them): a toplevel deleted, inserted,
    replaced (both directions, so that the real toplevel is the one that gets printed into the edit) and
    two toplevels swapped, on comment-stripped texts (per-node path), plus one pair per file whose only
    difference is a comment (give-up path: full-document edit).  Returns (plain_pairs, comment_pairs)."""
    import glob
    files = sorted(glob.glob(os.path.join(common.REPO, "tests", "*.sam")) + glob.glob(os.path.join(common.REPO, "std", "*.sam")))
    texts = []
    for f in files:
        try:
            t = open(f, encoding="utf-8").read()
        except OSError:
            continue
        if len(t.encode()) <= max_bytes:
            texts.append(t)
    texts.append(EXTRA_SAMPLE)
    plain = [strip_comments(t) for t in texts]
    out = runner.harness([f"tlocs {hexs(t)}" for t in plain])
    pairs, cpairs = [], []
    for t, tc, ans in zip(plain, texts, out):
        tb = t.encode(); starts = line_starts(tb)
        if ans in ("skip", "-") or ans.startswith(("panic:", "<")):
            continue
        spans = []
        for part in ans.split(","):
            m = re.match(r"(\d+):(\d+)-(\d+):(\d+)=", part)
            a = pos_to_off(tb, starts, int(m.group(1)), int(m.group(2))); b = pos_to_off(tb, starts, int(m.group(3)), int(m.group(4)))
            if a is None or b is None:
                spans = []; break
            spans.append((a, b))
        if not spans:
            continue
        for i in sorted({0, len(spans) // 2, len(spans) - 1}):
            a, b = spans[i]
            gone = blank_span(tb, a, b).decode()
            pairs += [(t, gone), (gone, t)]
            stub = b"class ZzStub {}"
            if b - a >= len(stub):
                st = (blank_span(tb, a, b)[:a] + stub + blank_span(tb, a, b)[a + len(stub):]).decode()
                pairs += [(st, t), (t, st)]
        if len(spans) >= 2:
            (a1, b1), (a2, b2) = spans[0], spans[-1]
            sw = (tb[:a1] + tb[a2:b2] + tb[b1:a2] + tb[a1:b1] + tb[b2:]).decode()
            pairs += [(t, sw)]
        k = min([x for x in (tc.find("//"), tc.find("/*")) if x >= 0], default=-1)
        if k >= 0:
            cpairs.append((tc, tc[:k + 2] + " edited" + tc[k + 2:]))
    return pairs, cpairs


def multiline_family():
    """Insertions behind *multi-line* elements (the end position differs from the start in line and
    column): behind a multi-line last import, behind a multi-line middle import, behind a multi-line last /
    middle toplevel, and into a module whose only import / toplevel is multi-line."""
    mi = "import {\n  Zed,\n  Bar\n} from lib.deep.C;"
    mi2 = "import {\n  Foo\n}\n  from\n  A;"   # (a `;`-less import + raw differ insert is the golden-pinned glue; kept out)
    mc = "class K6 {\n  function h(): int = 2\n}"
    mc2 = "interface I9 {\n  function g(): int\n  method m(a: int): int\n}"
    one = "import { Only } from D;"
    cl = "class K1 {}"
    pairs = []
    for imp in (mi, mi2):
        for tops in (mc, cl, mc + "\n" + mc2):
            base = imp + "\n" + tops + "\n"
            pairs.append((base, imp + "\n" + one + "\n" + tops + "\n"))                  # new import on its own line below
            pairs.append((one + "\n" + imp + "\n\n" + tops + "\n", one + "\n" + imp + "\n" + "import {Qux} from lib.B;" + "\n" + tops + "\n"))
            pairs.append((base, imp + "\n" + tops + "\n" + mc2.replace("I9", "I8") + "\n"))   # toplevel behind a multi-line last toplevel
            pairs.append((base, imp + "\n" + tops + "\n" + cl.replace("K1", "K7") + "\n"))
    pairs.append((mc + "\n\n" + mc2 + "\n", mc + "\n" + cl + "\n" + mc2 + "\n"))                # behind a multi-line middle toplevel
    pairs.append((mi + "\n", mi + "\n" + mc + "\n"))                                            # Err path behind a multi-line last import
    return pairs


def check_full_document_tie(ctx, runner, cpairs, label, stats):
    lines = []
    for a, b in cpairs:
        lines += [f"mdiff {hexs(a)} {hexs(b)}", f"pmod {hexs(b)}"]
    out = runner.harness(lines)
    dl, keep = [], []
    for i, (a, b) in enumerate(cpairs):
        real, printed = out[2 * i], out[2 * i + 1]
        if real == "skip" or printed == "skip" or printed.startswith(("panic:", "<")):
            continue
        dl.append(f"mfull {printed}"); keep.append((a, b, real))
    if not dl:
        return
    rc, mo, err = common.run_exec(common.driver_bin(PROP), [], dl)
    for (a, b, real), line, m in zip(keep, dl, mo + ["<missing>"] * len(dl)):
        stats["tie_fulldoc"] = stats.get("tie_fulldoc", 0) + 1
        if real == m:
            stats["tie_fulldoc_ok"] = stats.get("tie_fulldoc_ok", 0) + 1
        elif len(ctx.violations) < 3:
            ctx.violation("model/implementation disagreement on protocol mfull (comment stores differ: full-document edit)",
                          {"protocol": "mfull", "label": label, "old_text": a, "new_text": b, "impl": real[:400], "model": m[:400],
                           "ops": [f"mdiff {hexs(a)} {hexs(b)}"],
                           "broken": "correspondence `mfull` (moduleDiffEdits give-up path vs ast_differ.rs:367-371, 419-424)"}, no_input=True)


MEMBER_DOC = """class Box(val content: int, val other: int) {
  method get(): int = this.content
  method twice(): int = this.get() + this.get()
  function make(): Box = Box.init(1, 2)
}
class Main {
  function main(): int = {
    let someLocal = Box.make();
    let anotherLocal = someLocal.get();
    anotherLocal + someLocal.twice()
  }
}
"""


def collision_family():
    """The document declares a class / interface / private class X whose name another module also exports
    (x X additionally imported from a third module or not); quick fix and class completion are requested
    for an unrelated unresolved class Y.  No item may import X (the name denotes the local declaration),
    and after applying any item's edits every reference must still resolve where it did."""
    mods = {m: list(cs) for m, cs in ROLE_MODS.items()}
    srcs = {m: exporter_text(None, cs, None) for m, cs in mods.items()}
    cases = []
    for x, third in (("Bar", "lib.deep.C"), ("Qux", "lib.B"), ("Foo", "A")):
        for kind in ("class", "interface", "private class"):
            for imported in (False, True):
                for other_import in ("", "import { Zed } from lib.deep.C;\n"):
                    decl = (f"interface {x} {{ function own(): int }}" if kind == "interface"
                            else f"{kind} {x} {{\n  function own(): int = 7\n}}")
                    use = (f"class Main {{\n  function f(v: {x}): int = 1\n  function main(): int = Only.bar()\n}}" if kind == "interface"
                           else f"class Main {{\n  function main(): int = {x}.own() + Only.bar()\n}}")
                    doc = other_import + (f"import {{ {x} }} from {third};\n" if imported else "") + decl + "\n" + use + "\n"
                    lines = ["new"] + [f"src {m} {hexs(t)}" for m, t in srcs.items()] + [f"src Doc {hexs(doc)}", "init"]
                    ifaces = {m: list(cs) + ["IThing"] for m, cs in mods.items()}
                    cases.append({"lines": lines, "doc": doc, "need": "Only", "exporters": ["D"], "ifaces": ifaces, "role": "Only",
                                  "offer_optional": False, "private_name": "Hidden",
                                  "meta": {"history": "collision", "imports": int(imported) + int(bool(other_import)), "layout": "plain",
                                           "names": "short-class/short-module", "stale": ""}})
    return cases


def member_completion_family(ctx, runner, stats):
    """Completion arms other than class names (member access, local variables, lib.rs:643-688, 740-808):
    their items must never carry additional edits."""
    lines = ["new", f"src Doc {hexs(MEMBER_DOC)}", f"src A {hexs('class Foo { function bar(): int = 1 }' + chr(10))}", "init"]
    qs = []
    rows = MEMBER_DOC.split("\n")
    for ln, row in enumerate(rows):
        for m in re.finditer(r"\.(content|get|twice|make|init)|\b(someLocal|anotherLocal)\b", row):
            qs.append(f"qc Doc {ln} {m.start() + (2 if m.group(1) else 1)}")
    out = runner.harness(lines + qs)[len(lines):]
    for q, ans in zip(qs, out):
        stats["member_completions"] = stats.get("member_completions", 0) + 1
        m = re.match(r"^n=(\d+) (\S+)(?: plain=(\S+))?$", ans)
        if ans.startswith(("panic:", "<")) or not m:
            ctx.violation("completion call failed on a member / local-variable position: " + ans[:80],
                          {"protocol": "docs", "label": "member completion family", "ops": lines + [q], "doc": MEMBER_DOC, "need": "-", "exporters": []})
        elif m.group(2) != "-" and "ToplevelName" not in ans:
            # only class-name completions may carry edits; `Box` in `Box.make()` is one, members are not
            labels = [unhex(it.split("|")[0]).decode() for it in m.group(2).split(";")]
            if any(l in ("content", "get", "twice", "make", "init", "someLocal", "anotherLocal", "other") for l in labels):
                ctx.violation("a member / local-variable completion item carries additional edits: " + ",".join(labels),
                              {"protocol": "docs", "label": "member completion family", "ops": lines + [q], "doc": MEMBER_DOC, "need": "-", "exporters": []})
        if m and int(m.group(1)) > 0:
            stats["member_completions_nonempty"] = stats.get("member_completions_nonempty", 0) + 1


# ----------------------------------------------------------------------------------------------
# run
# ----------------------------------------------------------------------------------------------

def new_stats():
    return {"diff_lines": 0, "shape": {}, "distinct_pairs": set(), "nontrivial_pairs": 0, "change_kinds": {},
            "samples": [], "cases": 0, "history": {}, "imports_hist": {}, "state_panics": 0, "actions": 0,
            "action_kinds": {}, "actions_ok": 0, "distinct_actions": set(), "doc_samples": [], "known_hits": 0,
            "tie_import_pairs": 0, "tie_import_ok": 0, "tie_aimp": 0, "tie_aimp_ok": 0,
            "md_pairs": 0, "md_skipped": 0, "md_ok": 0, "md_kinds": {}, "md_nontrivial": set(), "md_samples": []}


def corpus_pairs():
    cdir = os.path.join(common.VERIF, "corpus", PROP)
    pairs, docs = [], []
    for f in sorted(os.listdir(cdir)) if os.path.isdir(cdir) else []:
        p = os.path.join(cdir, f)
        if f.endswith(".diff.txt"):
            for l in open(p):
                t = l.split()
                if len(t) == 3 and t[0] == "diff":
                    g = lambda s: [] if s == "-" else [int(x) for x in s.split(",")]
                    pairs.append((g(t[1]), g(t[2]), "corpus"))
        elif f.endswith(".case.json"):
            docs.append((f, json.load(open(p))))
    return pairs, docs


def run(ctx):
    stats = new_stats()

    def search():
        # proof or build broken: look for a concrete wrong script on the implementation
        try:
            common.build_harness(PROP)
        except common.BuildError:
            return False
        return search_near(ctx, [0, 1, 2], [0, 1, 2], "search after broken proof")

    res = common.proof_gate(ctx, search)
    built = os.path.exists(common.harness_bin(PROP)) and not any(n == "build" for n, _ in res["failed"])
    rng = ctx.rng
    if built:
        cpairs, cdocs = corpus_pairs()
        check_diffs(ctx, cpairs, "corpus", stats)
        # exhaustive small pairs: every pair of lists of length <= L over {0,1,2}
        L = ctx.scale(4, 5)
        if not ctx.violations:
            check_diffs(ctx, enum_pairs(L, [0, 1, 2]), f"all pairs of lists over {{0,1,2}} up to length {L}", stats)
        # random structured pairs
        npairs = ctx.scale(20000, 400000)
        done = 0
        while done < npairs and not ctx.violations:
            batch = [gen_pair(rng) for _ in range(min(2000, npairs - done))]
            done += len(batch)
            check_diffs(ctx, batch, f"generated seed={ctx.seed}", stats)
        # documents
        runner = DocRunner(ctx, stats)
        corpus_runner = DocRunner(ctx, stats, defer=True)
        for name, case in cdocs:
            case.setdefault("meta", {"history": "corpus", "imports": -1})
            corpus_runner.run_cases([case], f"corpus/{name}")
        corpus_runner.run_cases(collision_family(), "deterministic name-collision family")
        ndocs = ctx.scale(1040, 20000)
        if ctx.violations:
            report_deferred(ctx, runner, corpus_runner.deferred, rng, stats)
        else:
            batches = []
            done = 0
            while done < ndocs:
                batches.append([gen_case(rng.fork(), want_nosemi=rng.chance(1, 8)) for _ in range(min(65, ndocs - done))])
                done += len(batches[-1])
            deferred = corpus_runner.deferred + run_doc_batches(ctx, batches, rng, stats, f"generated documents seed={ctx.seed}")
            report_deferred(ctx, runner, deferred, rng, stats)
        # deterministic families
        if not ctx.violations:
            kp, kc = kind_family(runner)
            kp = multiline_family() + kp
            stats["kind_family_pairs"] = len(kp); stats["kind_family_comment_pairs"] = len(kc)
            for i in range(0, len(kp), 200):
                check_mdiffs(ctx, runner, kp[i:i + 200], "deterministic kind family (tests/*.sam, std/*.sam)", stats)
            if not ctx.violations:
                for i in range(0, len(kp), 200):
                    check_module_tie(ctx, runner, kp[i:i + 200], "deterministic kind family", stats)
                check_mdiffs(ctx, runner, kc, "deterministic comment-difference family", stats)
                check_full_document_tie(ctx, runner, kc, "deterministic comment-difference family", stats)
                member_completion_family(ctx, runner, stats)
        # general module-diff oracle
        nmd = ctx.scale(1500, 30000)
        done = 0
        while done < nmd and len(ctx.violations) < 1:
            batch = [gen_mdiff_pair(rng) for _ in range(min(500, nmd - done))]
            done += len(batch)
            check_mdiffs(ctx, runner, batch, f"generated module pairs seed={ctx.seed}", stats)
            if not ctx.violations:
                check_module_tie(ctx, runner, batch, f"generated module pairs seed={ctx.seed}", stats)
        nti = ctx.scale(1500, 30000)
        done = 0
        while done < nti and len(ctx.violations) < 1:
            batch = [gen_import_pair(rng) for _ in range(min(500, nti - done))]
            done += len(batch)
            check_import_tie(ctx, runner, batch, f"generated import-list pairs seed={ctx.seed}", stats)
    ev_docs = stats["actions"] + stats["md_pairs"] - stats["md_skipped"] + stats["tie_import_pairs"] + stats.get("tie_module_pairs", 0) + stats.get("completion_sets", 0)
    ctx.cov.update({
        "evaluations": stats["diff_lines"] + ev_docs,
        "distinct_nontrivial": stats["nontrivial_pairs"] + len(stats["distinct_actions"]) + len(stats["md_nontrivial"]),
        "rule": ("(a) list pairs: all pairs over {0,1,2} up to a length bound + random structured pairs (append-one, "
                 "edits of old, random, full replace, empty, equal, long, duplicates-only); a pair is non-trivial if its "
                 "script has a replace (fusion ran) or >= 2 changes; (b) documents: generated import headers (0-4 imports, tight layouts = class / block comment / whole document "
                 "on the last import's line, random line breaks or none between toplevels, "
                 "6 layouts, comments/blank lines/CRLF between, optional ';' also on the last import) x use site of an "
                 "unimported class x class/module names short (inline PStr) or >= 16 bytes (heap PStr, subject to the "
                 "server GC) x edit history (none, stale_import = the class is imported from a module that never exported it / no longer does after an update / "
                 "was renamed away while another module exports it, pre_mention = 1-3 unrelated updates before the document first mentions "
                 "the class, doc edits incl. a broken version, late export, exporter rename/removal, doc created by "
                 "update); every quick fix and completion additional edit returned is spliced and re-analysed; counted "
                 "distinct by (document, api, class, module); (c) module pairs: old/new module texts sharing a slot "
                 "layout (items from small pools of imports/toplevels, blank slots, appends), `module_diff_edits` spliced "
                 "into the old text must give the new module (imports, toplevels, comments); non-trivial = >= 2 edits"),
        "samples": stats["samples"] + stats["doc_samples"] + stats["md_samples"],
        "module_diff_pairs": stats["md_pairs"], "module_diff_pairs_ok": stats["md_ok"],
        "module_diff_pairs_skipped_invalid": stats["md_skipped"], "module_diff_edit_kind_histogram": stats["md_kinds"],
        "module_diff_pairs_with_2plus_edits": len(stats["md_nontrivial"]),
        "traces_validated_against_impl": stats["diff_lines"] + stats["tie_import_ok"] + stats["tie_aimp_ok"] + stats.get("tie_module_ok", 0) + stats.get("tie_cdec_ok", 0),
        "deterministic_kind_family_pairs": stats.get("kind_family_pairs", 0), "deterministic_comment_pairs": stats.get("kind_family_comment_pairs", 0),
        "full_document_model_ties": stats.get("tie_fulldoc", 0), "full_document_model_ties_equal": stats.get("tie_fulldoc_ok", 0),
        "member_completion_queries": stats.get("member_completions", 0), "member_completion_queries_with_items": stats.get("member_completions_nonempty", 0),
        "text_model_module_pairs": stats.get("tie_module_pairs", 0), "text_model_module_pairs_equal": stats.get("tie_module_ok", 0),
        "text_model_import_pairs": stats["tie_import_pairs"], "text_model_import_pairs_equal": stats["tie_import_ok"],
        "completion_edit_sets_checked": stats.get("completion_sets", 0), "completion_edit_sets_as_expected": stats.get("completion_sets_ok", 0),
        "quick_fix_decision_model_ties": stats.get("tie_cadec", 0), "quick_fix_decision_model_ties_equal": stats.get("tie_cadec_ok", 0),
        "completion_decision_model_ties": stats.get("tie_cdec", 0), "completion_decision_model_ties_equal": stats.get("tie_cdec_ok", 0),
        "definition_targets_compared_before_after": stats.get("definition_targets_compared", 0),
        "actions_whose_module_was_already_imported_with_other_members": stats.get("target_module_already_imported", 0),
        "text_model_auto_import_actions": stats["tie_aimp"], "text_model_auto_import_actions_equal": stats["tie_aimp_ok"],
        "diff_pairs": stats["diff_lines"], "distinct_pairs": len(stats["distinct_pairs"]),
        "nontrivial_pairs": stats["nontrivial_pairs"],
        "pair_shape_histogram": stats["shape"], "change_kind_histogram": stats["change_kinds"],
        "documents": stats["cases"], "document_actions_checked": stats["actions"],
        "document_actions_ok": stats["actions_ok"], "distinct_document_actions": len(stats["distinct_actions"]),
        "history_histogram": stats["history"], "name_length_histogram": stats.get("names_hist", {}), "layout_histogram": stats.get("layout_hist", {}), "imports_per_document_histogram": stats["imports_hist"],
        "action_kind_histogram": stats["action_kinds"], "server_panics_while_building_history": stats["state_panics"],
        "known_finding_hits": stats["known_hits"],
    })
    ctx.assumptions += [
        "list lengths < 2^31 (the `as i32` casts of positions are not modelled)",
        "edit columns are interpreted in the lexer's own unit (UTF-8 bytes within the line)",
        "the auto-import edit is computed by diffing `imports` against `imports ++ [new import]` on a cloned AST "
        "(lib.rs:554-575; closed form: theorem diff_append_one); other list shapes reach the differ through the `diff` "
        "protocol and the module-pair oracle",
    ]
    return ctx.finish(res, trusted=common.TRUSTED_COMMON + [
        "hand-written model Model/Differ.lean (HashMap `visited` as association list; insert loop as a recursion over "
        "consecutive trace points; `sort_by` as core `List.mergeSort`, both stable)",
        "specification side: `applyFrom` (sequential reading of a sorted edit list) + `Before`/`rangeOf` ordering theorem; "
        "the Python oracle uses an independent positional reading",
        "not modelled (oracle only): pretty-printing of the inserted import, `Change::to_edit` text assembly, "
        "Location arithmetic on real tokens, ServerState bookkeeping",
    ], extra={"partial_theorems": [], "pending": [
        "module_diff_text is stated at (line, col) level for modules with >= 1 old toplevel; for the toplevel Err path (no old "
        "toplevel) the composition is covered by the offset-level module_edits_text (any layouts, incl. the constant one) and "
        "toplevel_err_text, not by a separate (line, col) corollary"]})


def replay(ctx, path):
    common.build_harness(PROP); common.build_lean(["drv-c16"])
    data = json.load(open(path))
    rp = data["replay"]
    if rp.get("protocol") == "diff":
        ops = rp["ops"]
        impl, model = common.run_pair(PROP, ops)
        rc = 0
        for l, a, m in zip(ops, impl, model):
            t = l.split()
            g = lambda s: [] if s == "-" else [int(x) for x in s.split(",")]
            msg = diff_oracle(g(t[1]), g(t[2]), a)
            print(f"{l}\n  impl : {a}\n  model: {m}\n  oracle: {msg or 'ok'}")
            if msg or a != m:
                rc = 1
        return rc
    if rp.get("protocol") == "docs":
        stats = new_stats()
        case = {"lines": [l for l in rp["ops"] if not l.startswith(("qa ", "qc "))], "doc": rp["doc"], "need": rp["need"],
                "exporters": rp["exporters"], "meta": {"history": "replay", "imports": -1}}
        hits = []
        r = DocRunner(ctx, stats)
        r.fail = lambda cc, aa, bb, ll, pp=None: hits.append((aa and aa.get("query"), bb, aa and aa.get("spliced")))
        r.run_cases([case], "replay")
        print("document:\n" + rp["doc"])
        for q, bb, sp in hits:
            print(f"FAIL {q}: {bb}")
            if sp: print("edited document:\n" + sp)
        print(f"actions checked: {stats['actions']}, ok: {stats['actions_ok']}")
        return 1 if hits else 0
    if rp.get("protocol") == "iedits":
        stats = new_stats()
        check_import_tie(ctx, DocRunner(ctx, stats), [(rp["old_text"], rp["new_text"])], "replay", stats)
        print("old text:\n" + rp["old_text"] + "\nnew text:\n" + rp["new_text"])
        print(f"import pairs with equal model/implementation edits: {stats['tie_import_ok']}/{stats['tie_import_pairs']}")
        return 1 if ctx.violations else 0
    if rp.get("protocol") == "aimp":
        stats = new_stats()
        case = {"lines": [l for l in rp["ops"] if not l.startswith(("qa ", "qc "))], "doc": rp["doc"], "need": "?",
                "exporters": [], "meta": {"history": "replay", "imports": -1}}
        r = DocRunner(ctx, stats)
        r.fail = lambda cc, aa, bb, ll, pp=None: None
        # re-issue the recorded query
        r.ctx = ctx
        case["forced_queries"] = [rp["query"]]
        r.run_cases([case], "replay")
        print("document:\n" + rp["doc"])
        print(f"auto-import actions with equal model/implementation edits: {stats['tie_aimp_ok']}/{stats['tie_aimp']}")
        return 1 if ctx.violations else 0
    if rp.get("protocol") == "mdiff":
        stats = new_stats()
        r = DocRunner(ctx, stats)
        check_mdiffs(ctx, r, [(rp["old_text"], rp["new_text"])], "replay", stats)
        print("old text:\n" + rp["old_text"] + "\nnew text:\n" + rp["new_text"])
        for path, _, what in ctx.violations:
            print("FAIL " + what)
        print(f"module pairs ok: {stats['md_ok']}/1")
        return 1 if ctx.violations else 0
    print(json.dumps(data, indent=1))
    return 1
