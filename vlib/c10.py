"""C10 — incremental language-server diagnostics equal a from-scratch analysis.

Proof: lean/SamVerif/Props/C10.lean over Model/Incremental.lean (checker abstract, frame hypothesis).
Tie (`lsphist` protocol): random histories of update / rename_module / remove are executed by the real
`ServerState` (harness/src/bin/c10.rs) and by the Lean model (lean/Driver/C10.lean) whose checker
parameter is a *table of the real checker's answers* (harness `chk` = type_check_module as a pure
function of (module, content, global signature)); the model must predict the exact error set the real
incremental server holds for every module after every operation (including the stale ones).
Oracle (no model): after every operation a brand-new ServerState on this file's own view of the file
system must hold the same diagnostics (`to_ide_format` rendering) for every module.
Frame/locality hypotheses of the theorem are checked dynamically on the evaluated checker calls."""
import json, os
from . import common
from .common import hexs

PROP = "C10"
NAMES = ["A", "B", "C", "D", "E", "p.F"]
ROOT = "@"


# ----------------------------------------------------------------------------------------------
# contents

def cls_of(mod):
    return mod.split(".")[-1]


def gen_content(rng, own_mod, pool, wild, focus=False):
    """A module text.  `own_mod` decides the class/interface it defines (files keep their text when moved).
    `focus`: the "nonlocal" stream — modules whose diagnostics are (also) reported while checking ANOTHER module
    (an interface whose supertype is a class: every class/interface that extends it re-reports the error at the
    interface's own location; cyclic / chained interface hierarchies; bounded type parameters), with a second
    unrelated diagnostic in the same module, and importers that come and go.  Returns (text, kind)."""
    K = cls_of(own_mod)
    others = [m for m in pool if m != own_mod]
    if focus:
        kind = rng.weighted([("lib_iface_class", 26), ("impl", 20), ("cyc_iface", 16), ("bounded", 6), ("leaf", 10),
                             ("iface", 4), ("user", 6), ("noclass", 8), ("illtyped", 4)] +
                            ([("unparsable", 6)] if wild else []))
    else:
        kind = rng.weighted([("leaf", 22), ("leafstr", 10), ("user", 26), ("passer", 14), ("iface", 6),
                             ("impl", 6), ("illtyped", 8), ("noclass", 6), ("selfimp", 3), ("cyc_iface", 4),
                             ("generic", 4), ("missing_export", 4), ("lib_iface_class", 4), ("bounded", 2),
                             ("enum", 3), ("enumuser", 3), ("fields", 3), ("fielduser", 3), ("locals", 3),
                             ("iface2", 3), ("bounded2", 3), ("impl2", 2), ("nameuser", 2)] +
                            ([("unparsable", 14), ("unparsable2", 6)] if wild else []))
    dep = rng.pick(others) if others else own_mod
    dep2 = rng.pick(others) if others else own_mod
    D, D2 = cls_of(dep), cls_of(dep2)
    if kind == "leaf":
        t = f"class {K}(val v: int) {{ function mk(): {K} = {K}.init(0) method get(): int = this.v }}"
    elif kind == "leafstr":
        t = f"class {K}(val v: int) {{ function mk(): {K} = {K}.init(0) method get(): Str = \"s\" }}"
    elif kind == "user":
        t = (f"import {{ {D} }} from {dep}\nclass {K}(val v: int) {{ function mk(): {K} = {K}.init(0) "
             f"method get(): int = this.v function use1(): int = {D}.mk().get() + {rng.below(3)} }}")
    elif kind == "passer":
        imp = f"import {{ {D} }} from {dep}\n" + (f"import {{ {D2} }} from {dep2}\n" if dep2 != dep else "")
        t = (imp + f"class {K}(val v: int) {{ function mk(): {K} = {K}.init(0) method get(): int = this.v "
             f"function pass(): {D} = {D}.mk() function deep(): int = {D2}.pass().get() }}")
    elif kind == "iface":
        t = f"interface {K} {{ method get(): int }}"
    elif kind == "lib_iface_class":
        # the interface other modules extend has a CLASS as supertype: ill-typed here, and re-reported (at this
        # module's location) by the check of every module that extends {K}
        t = (f"class {K}Base(val v: int) {{ function mk(): {K}Base = {K}Base.init(0) }}\n"
             f"interface {K} : {K}Base {{ method get(): int }}")
    elif kind in DECL_USE_TEXT:
        t = DECL_USE_TEXT[kind](K, D, dep)
    elif kind == "bounded":
        t = (f"import {{ {D} }} from {dep}\nclass {K}(val v: int) {{ function mk(): {K} = {K}.init(0) "
             f"method get(): int = this.v function <T : {D}> same(t: T): T = t }}")
    elif kind == "impl":
        t = (f"import {{ {D} }} from {dep}\nclass {K}(val v: int) : {D} {{ function mk(): {K} = {K}.init(0) "
             f"method get(): int = this.v }}")
    elif kind == "illtyped":
        t = (f"class {K}(val v: int) {{ function mk(): {K} = {K}.init(0) method get(): int = this.v "
             f"function bad(): int = \"s{rng.below(3)}\" }}")
    elif kind == "noclass":
        t = rng.pick(["", "// nothing here", f"import {{ {D} }} from {dep}", f"import {{ Nope }} from {dep}\n"])
    elif kind == "selfimp":
        t = (f"import {{ {K} }} from {own_mod}\nclass {K}(val v: int) {{ function mk(): {K} = {K}.init(0) "
             f"method get(): int = this.v }}")
    elif kind == "cyc_iface":
        t = f"import {{ {D} }} from {dep}\ninterface {K} : {D} {{ method m{K}(): int }}"
    elif kind == "generic":
        t = (f"import {{ {D} }} from {dep}\nclass {K}<T>(val v: T) {{ function mk(): {K}<int> = {K}.init(0) "
             f"method get(): T = this.v function two(): {K}<{D}> = {K}.init({D}.mk()) }}")
    elif kind == "missing_export":
        t = (f"import {{ {D}x }} from {dep}\nclass {K}(val v: int) {{ function mk(): {K} = {K}.init(0) "
             f"method get(): int = this.v }}")
    elif kind == "unparsable":
        t = (f"import {{ {D} }} from {dep}\nclass {K}(val v: int) {{ function mk(): {K} = {K}.init(0) "
             f"method get(): int = this.v function broken(): int = }}")
    else:
        t = f"class {K}(val v: int) {{ function mk(): {K} = {K}.init(0) method get(): int = this.v \nclass }}{{ ( "
    if has_toplevel(t) and kind not in ("unparsable", "unparsable2") and rng.chance(1, 2 if focus else 8):
        # a second, unrelated diagnostic in the same module (lost if the module's entry is overwritten by what the
        # check of ANOTHER module reported into it)
        t += f"\nclass {K}Extra {{ function bad(): int = \"e{rng.below(2)}\" }}"
    return t, kind


class Hist:
    def __init__(self, regime):
        self.regime = regime     # "clean" | "wild" | "probe:<id>" | "corpus:<file>"
        self.init = {}           # name -> text
        self.ops = []            # ("upd", [(m, text)]) | ("ren", [(a, b)]) | ("rem", [m])

    def to_json(self):
        return {"regime": self.regime, "init": self.init, "ops": [[k, v] for k, v in self.ops]}

    @staticmethod
    def from_json(j):
        h = Hist(j.get("regime", "replay"))
        h.init = dict(j["init"])
        h.ops = [(k, [tuple(x) if isinstance(x, list) else x for x in v]) for k, v in j["ops"]]
        return h

    def names(self):
        ns = set(self.init)
        for k, v in self.ops:
            for x in v:
                if k == "rem":
                    ns.add(x)
                elif k == "upd":
                    ns.add(x[0])
                else:
                    ns.add(x[0]); ns.add(x[1])
        return sorted(ns)


_STD = "function mk(): {K} = {K}.init(0) method get(): int = this.v"
# declaration kinds and the constructs that USE a declared name from another module (one per identifier position:
# interface member + its parameter, type-parameter bound, class member, field, enum variant, class name, local)
DECL_USE_TEXT = {
    "enum": lambda K, D, dep: f"class {K}(Foo(int), Bar) {{ function mk(): {K} = {K}.Foo(1) method get(): int = match this {{ Foo(x) -> x, Bar -> 0 }} }}",
    "enumuser": lambda K, D, dep: (f"import {{ {D} }} from {dep}\nclass {K}(val v: int) {{ " + _STD.replace("{K}", K) +
                                   f" function pick(): {D} = {D}.Bar() function sel(e: {D}): int = match e {{ Foo(x) -> x, Bar -> 1 }} }}"),
    "fields": lambda K, D, dep: f"class {K}(val v: int, val w2: int) {{ function mk(): {K} = {K}.init(0, 1) method get(): int = this.v }}",
    "fielduser": lambda K, D, dep: (f"import {{ {D} }} from {dep}\nclass {K}(val v: int) {{ " + _STD.replace("{K}", K) +
                                    f" function fld(): int = {D}.mk().w2 }}"),
    "locals": lambda K, D, dep: (f"class {K}(val v: int) {{ " + _STD.replace("{K}", K) +
                                 " function calc(prm: int): int = { let loc = prm + 1; loc } }"),
    "iface2": lambda K, D, dep: f"interface {K} {{ method exp(prm: int): Str }}",
    "bounded2": lambda K, D, dep: (f"import {{ {D} }} from {dep}\nclass {K}(val v: int) {{ " + _STD.replace("{K}", K) +
                                   f" function <T : {D}> dump(e: T): Str = e.exp(2) }}"),
    "impl2": lambda K, D, dep: f"import {{ {D} }} from {dep}\nclass {K}(val v: int) : {D} {{ function mk(): {K} = {K}.init(0) method exp(prm: int): Str = \"lit\" }}",
    "nameuser": lambda K, D, dep: (f"import {{ {D} }} from {dep}\nclass {K}(val v: int) {{ " + _STD.replace("{K}", K) +
                                   f" function take(prm: {D}): int = 0 }}"),
}

# identifiers of the templates; each can be stretched to >= 16 bytes (heap-interned, compared by allocation id and
# subject to the string GC that runs after every recheck) consistently over a whole history
TOKENS = ["get", "mk", "pass", "deep", "use1", "bad", "same", "two", "v", "w2", "T", "Foo", "Bar", "prm", "loc", "exp",
          "dump", "pick", "sel", "fld", "calc", "take", "e", "x"] + [cls_of(m) for m in NAMES] + \
         [cls_of(m) + sfx for m in NAMES for sfx in ("Base", "Extra")] + ["m" + cls_of(m) for m in NAMES]


def lengthen(h, rng):
    """Rewrites every text of the history: each identifier of TOKENS becomes, with a per-history probability, a name
    of >= 16 bytes (module paths after `from` keep their names: they are file names)."""
    import re
    p = rng.pick([0, 0, 25, 50, 80])
    if p == 0:
        return h
    table = {t: t + "WithAnIdentifierOver15Bytes"[:max(16 - len(t), 13)] for t in TOKENS if rng.below(100) < p}
    if not table:
        return h
    pat = re.compile(r"(?<!\w)(" + "|".join(sorted(map(re.escape, table), key=len, reverse=True)) + r")(?!\w)")

    def conv_line(line):
        if line.startswith("import"):
            i = line.find(" from ")
            if i >= 0:
                return pat.sub(lambda m: table[m.group(1)], line[:i]) + line[i:]
        # string literals of the templates never contain a token
        return pat.sub(lambda m: table[m.group(1)], line)

    def conv(t):
        return "\n".join(conv_line(l) for l in t.split("\n"))
    h.init = {m: conv(t) for m, t in h.init.items()}
    h.ops = [(k, [(m, conv(t)) for m, t in v]) if k == "upd" else (k, v) for k, v in h.ops]
    h.long_names = len(table)
    return h


LATE_KINDS = [("iface2", "bounded2"), ("iface2", "impl2"), ("iface", "bounded"), ("iface", "impl"), ("leaf", "user"),
              ("fields", "fielduser"), ("enum", "enumuser"), ("leaf", "nameuser"), ("lib_iface_class", "impl"),
              ("leaf", "passer")]


def gen_latebind(rng, wild):
    """"late binding" stream: a declaration (interface member, class member, field, variant, class name, bound) is
    checked, then one to four operations elsewhere (each ends with a recheck and a string-GC round in which the
    declared names are referenced from nowhere else), and only then another module starts to use the name."""
    h = Hist("latebind")
    decl, filler, user, spare = rng.shuffle(NAMES[:5])[:4]
    pool = [decl, filler, user]
    dk, uk = rng.pick(LATE_KINDS)

    def text(kind, own, dep):
        K, D = cls_of(own), cls_of(dep)
        if kind in DECL_USE_TEXT:
            return DECL_USE_TEXT[kind](K, D, dep)
        class R:      # fixed choices for gen_content: force kind and dependency
            def __init__(self, r): self.r = r
            def weighted(self, pairs): return kind if any(k == kind for k, _ in pairs) else self.r.weighted(pairs)
            def pick(self, xs): return dep if dep in xs else self.r.pick(xs)
            def below(self, n): return self.r.below(n)
            def chance(self, a, b): return False
            def range(self, a, b): return self.r.range(a, b)
        return gen_content(R(rng), own, [own, dep], False)[0]
    leafish = lambda m: text(rng.pick(["leaf", "locals", "illtyped"]), m, m)
    files = {decl: text(dk, decl, decl), filler: leafish(filler)}
    if rng.chance(1, 2):
        files[user] = leafish(user)
    h.init = dict(files)

    def push(op):
        h.ops.append(op); apply_fs(files, op)
    for _ in range(rng.range(1, 4)):           # operations elsewhere
        o = rng.below(5)
        if o == 0:
            push(("upd", [(filler, leafish(filler))]))
        elif o == 1:
            push(("upd", [(spare, leafish(spare))]))
        elif o == 2 and spare in files:
            push(("rem", [spare]))
        elif o == 3:
            a = spare if spare in files else filler
            b = filler if a == spare else spare
            push(("ren", [(a, b)]))
            if b == spare:
                filler, spare = spare, filler
        else:
            push(("upd", [(filler, gen_content(rng, filler, [filler, spare], wild)[0])]))
    intro = rng.below(3)                        # the first use of the declared names from another module
    utext = text(uk, user, decl)
    if intro == 0 or user not in files:
        push(("upd", [(user, utext)]))
    elif intro == 1:
        push(("upd", [(spare, text(uk, user, decl))])); push(("rem", [user])); push(("ren", [(spare, user)]))
    else:
        push(("upd", [(user, utext), (filler, leafish(filler))]))
    for _ in range(rng.range(0, 3)):            # afterwards: anything, including edits of the declaration
        m = rng.pick([decl, filler, user])
        o = rng.below(4)
        if o == 0:
            push(("upd", [(m, text(dk, decl, decl) if m == decl else gen_content(rng, m, pool, wild)[0])]))
        elif o == 1:
            push(("rem", [m]))
        elif o == 2:
            push(("ren", [(m, spare)]))
        else:
            push(("upd", [(user, utext)]))
    return h


def has_toplevel(text):
    return "class " in text or "interface " in text


def gen_history(rng, nops, wild, focus=False):
    h = Hist("nonlocal" if focus else ("wild" if wild else "clean"))
    pool = NAMES[:rng.range(2, 4 if focus else len(NAMES))]
    _gc = globals()["gen_content"]

    def gen_content(r, m, pl, w):
        return _gc(r, m, pl, w, focus)
    files = {}
    for m in pool:
        if rng.chance(3, 4):
            files[m] = gen_content(rng, m, pool, wild)[0]
    if not files:
        files[pool[0]] = gen_content(rng, pool[0], pool, wild)[0]
    h.init = dict(files)
    for _ in range(nops):
        live = sorted(files)
        op = rng.weighted([("edit", 40), ("create", 12), ("batch", 8), ("rename", 14), ("remove", 14),
                           ("rem_missing", 3), ("revert", 6)] + ([("root", 2), ("dupbatch", 3)] if wild else []))
        if op == "edit" and live:
            m = rng.pick(live)
            h.ops.append(("upd", [(m, gen_content(rng, m, pool, wild)[0])]))
        elif op == "revert" and live:
            m = rng.pick(live)
            h.ops.append(("upd", [(m, h.init.get(m, files[m]))]))
        elif op == "create":
            m = rng.pick(pool)
            h.ops.append(("upd", [(m, gen_content(rng, m, pool, wild)[0])]))
        elif op == "batch":
            ms = rng.shuffle(pool)[:rng.range(2, 3)]
            h.ops.append(("upd", [(m, gen_content(rng, m, pool, wild)[0]) for m in ms]))
        elif op == "dupbatch" and live:
            m = rng.pick(live)
            h.ops.append(("upd", [(m, gen_content(rng, m, pool, wild)[0]), (m, gen_content(rng, m, pool, wild)[0])]))
        elif op == "rename":
            a = rng.pick(live) if live and rng.chance(4, 5) else rng.pick(pool)
            b = rng.pick(pool)
            pairs = [(a, b)]
            if rng.chance(1, 5):        # chained / colliding renames in one batch
                pairs.append((rng.pick([a, b]), rng.pick(pool)))
            h.ops.append(("ren", pairs))
        elif op == "remove" and live:
            ms = [rng.pick(live)] + ([rng.pick(pool)] if rng.chance(1, 4) else [])
            h.ops.append(("rem", ms))
        elif op == "rem_missing":
            h.ops.append(("rem", [rng.pick(pool)]))
        elif op == "root":
            h.ops.append(rng.pick([("rem", [ROOT]), ("upd", [(ROOT, "class R {}")]), ("ren", [(ROOT, rng.pick(pool))])]))
        else:
            continue
        apply_fs(files, h.ops[-1])
    return lengthen(h, rng)


def apply_fs(files, op):
    """This file's own view of the file system (independent of the server and of the model)."""
    k, v = op
    if k == "upd":
        for m, t in v:          # last write of a batch wins; ROOT (the builtin module) is not a file
            if m != ROOT:
                files[m] = t
    elif k == "ren":
        for a, b in v:
            if a != ROOT and b != ROOT and a in files:
                t = files.pop(a)
                files[b] = t
    else:
        for m in v:
            if m != ROOT:
                files.pop(m, None)


# ----------------------------------------------------------------------------------------------
# protocol

class Table:
    """Content ids, parse facts and the memo of real checker calls (shared by a whole run)."""

    def __init__(self):
        self.cid = {}       # text -> id
        self.facts = {}     # id -> (imports list, nperr)
        self.tab = {}       # callkey -> "k:tok,..."
        self.perr = {}      # (mod, cid) -> [tok]
        self.evals = 0

    def ids(self, texts):
        new = []
        for t in texts:
            if t not in self.cid:
                self.cid[t] = len(self.cid)
                new.append(t)
        return new

    def def_lines(self):
        inv = sorted((i, t) for t, i in self.cid.items())
        return [f"def {i} {hexs(t)}" for i, t in inv]


def op_line(tb, op):
    k, v = op
    if k == "upd":
        return "upd " + " ".join(f"{m}={tb.cid[t]}" for m, t in v)
    if k == "ren":
        return "ren " + " ".join(f"{a}:{b}" for a, b in v)
    return "rem " + " ".join(v)


def hist_lines(tb, h, with_fresh):
    """Returns (lines, idx) where idx[i] = (line of op i answer, line of its fresh answer or None)."""
    lines = ["new " + " ".join(f"{m}={tb.cid[t]}" for m, t in sorted(h.init.items()))]
    files = dict(h.init)
    idx = []
    for op in h.ops:
        lines.append(op_line(tb, op))
        apply_fs(files, op)
        a = len(lines) - 1
        if with_fresh:
            lines.append(("fresh " + " ".join(f"{m}={tb.cid[t]}" for m, t in sorted(files.items()))).strip())
            idx.append((a, len(lines) - 1, dict(files)))
        else:
            idx.append((a, None, dict(files)))
    return lines, idx


def parse_obs(s):
    """`name=+tok,tok/full ...` -> {name: (present, frozenset(toks), full)}"""
    out = {}
    if s.startswith("panic") or s in ("no-state", "<missing>") or s.startswith("<"):
        return None
    for part in s.split(" "):
        if not part or part.startswith("#"):
            continue
        n, v = part.split("=", 1)
        full = None
        if "/" in v:
            v, full = v.rsplit("/", 1)
        toks = frozenset() if v[1:] == "-" else frozenset(v[1:].split(","))
        out[n] = (int(v[0]), toks, full)   # bits: 1 parsed_modules, 2 string_sources, 4 checked_modules
    return out


def parse_graph(s):
    """`… #graph=A>B,C;B>-` -> {A: {B, C}, B: set()}; None if absent; the string itself if malformed (BADREV)."""
    for part in s.split(" "):
        if part.startswith("#graph="):
            g = part[7:]
            if g.startswith("BAD"):
                return g
            out = {}
            for e in (g.split(";") if g != "-" else []):
                m, es = e.split(">", 1)
                out[m] = set() if es == "-" else set(es.split(","))
            return out
    return None


def run_impl(lines, verbose=False):
    rc, out, err = common.run_exec(common.harness_bin(PROP), ["-v"] if verbose else [], lines)
    if rc != 0 and len(out) < len(lines):
        out = out + [f"<harness died rc={rc}: {err.strip()[-200:]}>"] * (len(lines) - len(out))
    return out


def run_model(lines):
    rc, out, err = common.run_exec(common.driver_bin(PROP), [], lines)
    if rc != 0 and len(out) < len(lines):
        out = out + [f"<driver died rc={rc}: {err.strip()[-200:]}>"] * (len(lines) - len(out))
    return out


def model_pass(tb, hists):
    """Runs the model on the histories, evaluating the real checker for every call the model makes.
    Returns per history the list of model answers (one per op line incl. `new`)."""
    seg = []
    body = []
    for h in hists:
        ls, _ = hist_lines(tb, h, False)
        univ = sorted(set(h.names()) | {ROOT})
        seg.append((len(body) + 1, len(ls)))
        body += ["univ " + " ".join(univ)] + ls
    for _round in range(4):
        head = [f"def {i} {n} {','.join(imps) if imps else '-'}" for i, (imps, n) in sorted(tb.facts.items())]
        head += [f"tab {k} {v}" for k, v in tb.tab.items()]
        out = run_model(head + body)[len(head):]
        calls = set()
        for o in out:
            if "CALL:" in o:
                for part in o.split(" "):
                    for tok in part.split("=", 1)[-1][1:].split(","):
                        if tok.startswith("CALL:"):
                            calls.add(tok[5:])
        calls = sorted(c for c in calls if c not in tb.tab)
        if not calls:
            break
        q = []
        for c in calls:
            m, cid, g = c.split("/", 2)
            q.append(f"chk {m} {cid} " + " ".join(x.replace(">", "=") for x in g.split(";") if x))
        ans = run_impl(tb.def_lines() + q)[len(tb.cid):]
        for c, a in zip(calls, ans):
            tb.tab[c] = a if not a.startswith("panic") and not a.startswith("<") else "-"
            tb.evals += 1
    res = []
    for start, n in seg:
        res.append(out[start:start + n])
    return res


def map_ptoks(tb, name, toks):
    """Model parse-error tokens `P.<cid>.<i>` -> the real parser's tokens for that text as module `name`."""
    out = set()
    need = []
    for t in toks:
        if t.startswith("P."):
            cid = int(t.split(".")[1])
            if (name, cid) not in tb.perr:
                need.append((name, cid))
    if need:
        need = sorted(set(need))
        ans = run_impl(tb.def_lines() + [f"perr {n} {c}" for n, c in need])[len(tb.cid):]
        for k, a in zip(need, ans):
            tb.perr[k] = [] if a in ("-", "panic") else sorted(a.split(","))
    for t in toks:
        if t.startswith("P."):
            _, cid, i = t.split(".")
            real = tb.perr[(name, int(cid))]
            # the model has one token per parse error; the real list is the same set (same count)
            out.add(real[int(i)] if int(i) < len(real) else t)
        else:
            out.add(t)
    return frozenset(out)


def judge(tb, h, impl, idx, model):
    """Compares one history.  Returns (oracle_failures, tie_failures): lists of (op index, message)."""
    orc, tie = [], []
    for i, (a, f, files) in enumerate(idx):
        ia = impl[a]
        inc = parse_obs(ia)
        if inc is None:
            orc.append((i, f"ServerState call failed: {ia[:120]}"))
            if model is not None and not model[i + 1].startswith("panic"):
                tie.append((i, f"impl {ia[:60]} but model {model[i + 1][:60]}"))
            break
        fr = parse_obs(impl[f]) if f is not None else None
        if f is not None and fr is None:
            orc.append((i, f"fresh ServerState::new failed: {impl[f][:120]}"))
            break
        if fr is not None:
            present = sorted(n for n, v in inc.items() if v[0] & 1)
            if present != sorted(files):
                orc.append((i, f"all_modules() = {present} but the files are {sorted(files)}"))
            for n in sorted(files):
                iv, fv = inc.get(n, (0, frozenset(), None)), fr.get(n, (0, frozenset(), None))
                if iv[0] != 7 or fv[0] != 7:
                    orc.append((i, f"module {n} is a file but parsed/string_sources/checked_modules bits are "
                                   f"{iv[0]} (incremental) / {fv[0]} (fresh), expected 7"))
                if iv[1] != fv[1] or iv[2] != fv[2]:
                    orc.append((i, f"module {n}: incremental server holds {len(iv[1])} diagnostics "
                                   f"{sorted(iv[1])}, a fresh server {len(fv[1])} {sorted(fv[1])}"))
            for n, v in inc.items():
                if n not in files and v[1]:
                    orc.append((i, f"module {n} is not a source but the server still holds {len(v[1])} diagnostics for it"))
                if n not in files and v[0]:
                    orc.append((i, f"module {n} is not a file but is still a key of parsed/string_sources/checked_modules (bits {v[0]})"))
        nm = [p for p in ia.split(" ") if p.startswith("#names=")]
        if nm and not nm[0].startswith("#names=ok"):
            f = nm[0].split(":")
            ex = bytes.fromhex(f[-1]).decode("utf-8", "replace") if len(f) > 4 and f[-1] != "-" else "?"
            tie.append((i, f"hypothesis NamesStable broken: of {f[1]} heap strings the retained state holds, {f[2] if len(f) > 2 else ''} "
                           f"{f[3] if len(f) > 3 else ''} (e.g. `{ex}`): re-interning the text no longer gives the handle the state holds"))
        # stored dependency graph (state invariant GraphFresh, theorem graph_fresh): it must be the graph of the
        # CURRENT files (this file's own view: imports of each file's text) and equal to the model's stored graph
        ig = parse_graph(ia)
        if ig is not None:
            want = {m: set(tb.facts.get(tb.cid.get(t, -1), ([], 0))[0]) for m, t in files.items()}
            if isinstance(ig, str):
                tie.append((i, f"stored dependency graph: reverse map is not the inverse of the forward map ({ig})"))
            elif ig != want:
                diff = sorted(m for m in set(ig) | set(want) if ig.get(m) != want.get(m))
                orc_graph = (f"stored dependency graph is not the graph of the current files (GraphFresh): differs at {diff[:3]}: "
                             f"stored {[(m, sorted(ig[m])) if m in ig else (m, None) for m in diff[:2]]}, "
                             f"files {[(m, sorted(want[m])) if m in want else (m, None) for m in diff[:2]]}")
                tie.append((i, orc_graph))
            if model is not None:
                mg = parse_graph(model[i + 1])
                if mg is not None and not isinstance(ig, str) and mg != ig:
                    tie.append((i, f"stored dependency graph: implementation {sorted((m, sorted(v)) for m, v in ig.items())[:4]} "
                                   f"model {sorted((m, sorted(v)) for m, v in mg.items())[:4]}"))
        if model is not None:
            mo = parse_obs(model[i + 1])
            if mo is None:
                tie.append((i, f"model answered {model[i + 1][:80]} but the implementation did not fail"))
                break
            for n in sorted(set(inc) | set(mo)):
                iv = inc.get(n, (0, frozenset(), None))
                mv = mo.get(n, (0, frozenset(), None))
                mt = map_ptoks(tb, n, mv[1])
                if iv[0] != mv[0] or iv[1] != mt:
                    tie.append((i, f"module {n}: implementation bits={iv[0]} {sorted(iv[1])} "
                                   f"model bits={mv[0]} {sorted(mt)}"))
    return orc, tie


def run_hists(tb, hists, with_model=True):
    """Returns list of (orc, tie) per history."""
    new = []
    for h in hists:
        texts = list(h.init.values()) + [t for k, v in h.ops if k == "upd" for _, t in v]
        new += tb.ids(texts)
    lines = tb.def_lines()
    segs = []
    for h in hists:
        ls, idx = hist_lines(tb, h, True)
        segs.append((len(lines), idx))
        lines += ls
    out = run_impl(lines)
    for t, i in tb.cid.items():
        if i not in tb.facts:
            a = out[i]
            imps, n = [], 0
            if a.startswith("imports="):
                p = a.split(" ")
                imps = [] if p[0][8:] == "-" else p[0][8:].split(",")
                n = int(p[1][5:])
            tb.facts[i] = (imps, n)
    models = model_pass(tb, hists) if with_model else [None] * len(hists)
    res = []
    for h, (start, idx), mo in zip(hists, segs, models):
        impl = out[start:]
        res.append(judge(tb, h, impl, idx, mo))
    return res


# ----------------------------------------------------------------------------------------------
# known findings (signatures are predicates over the shrunk witness)

def classify(tb, h):
    """Which open-finding signature a (shrunk) failing history matches.  C10-F1..F3 are fixed
    (findings/C10.json): nothing is matched any more, every oracle failure is a VIOLATION."""
    return None


def shrink(tb, h, pred):
    """ddmin on the op list, then on the initial files; pred(history) -> bool (still failing)."""
    def mk(ops, init=None):
        g = Hist(h.regime); g.init = dict(h.init if init is None else init); g.ops = list(ops); return g
    ops = common.ddmin(h.ops, lambda c: pred(mk(c)), max_tests=80) if len(h.ops) > 1 else h.ops
    init = dict(h.init)
    for m in sorted(h.init):
        trial = {k: v for k, v in init.items() if k != m}
        if pred(mk(ops, trial)):
            init = trial
    # split batches
    flat = []
    for k, v in ops:
        flat.append((k, v))
    return mk(ops, init)


def gen_graph(rng):
    """A random import graph on plain data: cyclic, self, missing imports, dirty sets incl. missing nodes."""
    n = rng.range(1, 8)
    nodes = [f"N{i}" for i in range(n)] + (["q.M"] if rng.chance(1, 3) else [])
    universe = nodes + ["Z1", "Z2"]          # Z*: never sources
    dens = rng.pick([1, 2, 3])
    parts = []
    for m in nodes:
        imps = []
        for _ in range(rng.below(dens + 1)):
            imps.append(rng.pick(universe + [m]))
        parts.append(f"{m}={','.join(imps) if imps else '-'}")
    dirty = [rng.pick(universe) for _ in range(rng.range(0, 3))]
    return "graph " + " ".join(parts) + " // " + " ".join(dirty)


def graph_stream(ctx, n):
    """Hook H5: the real DependencyGraph::new + affected_set vs the model's affectedSet, exact sets."""
    rng = ctx.rng.fork()
    lines = [gen_graph(rng) for _ in range(n)]
    lines += ["graph A=B B=A C=C D=Z1 // Z1", "graph A=- // ", "graph A=A // A Q"]
    impl, model = run_impl(lines), run_model(lines)
    sizes = {}
    for l, a, b in zip(lines, impl, model):
        sa = set() if a == "-" else set(a.split(","))
        sb = set() if b == "-" else set(b.split(","))
        sizes[len(sa)] = sizes.get(len(sa), 0) + 1
        if a.startswith("panic") or a.startswith("<") or sa != sb:
            # the model's set is exactly fwd*(rev*(dirty)) (theorem affected_exact): smaller => a dependent is
            # not rechecked (search for a diagnostics failure), larger => deviation without a failing input
            if not (sa >= sb) and find_oracle_failure(ctx, None, "search after affected_set disagreement"):
                return len(lines), sizes
            ctx.violation("DependencyGraph::affected_set differs from the model's affectedSet (= forward closure of the reverse "
                          "closure, theorem affected_exact): real " + (a or "-") + " model " + (b or "-"),
                          {"protocol": "lsphist/graph", "line": l, "impl": a, "model": b,
                           "broken": "correspondence of affected_set (hook H5) with Model/Incremental.lean affectedSet"},
                          no_input=True)
            return len(lines), sizes
    return len(lines), sizes


# ----------------------------------------------------------------------------------------------
# the real LSP handlers (crates/samlang-cli/src/main.rs) driven over stdio

CLI_TARGET = os.path.join(common.HARNESS, "target", "cli")
OUTSIDE = "!"


def build_cli():
    with common.Lock("cargo-cli"):
        rc, out = common.sh(["cargo", "build", "--offline", "-p", "samlang-cli", "--target-dir", CLI_TARGET],
                            cwd=common.REPO, timeout=1800, env={"CARGO_PROFILE_DEV_DEBUG": "0"})
    if rc != 0:
        raise common.BuildError("cargo build -p samlang-cli (LSP binary)", out[-4000:])
    return os.path.join(CLI_TARGET, "debug", "samlang-cli")


class Lsp:
    """Minimal JSON-RPC client for `samlang-cli lsp` in a scratch project directory."""

    def __init__(self, binary, root):
        import subprocess
        self.root = root
        self.src = os.path.join(root, "src")
        self.p = subprocess.Popen([binary, "lsp"], cwd=root, stdin=subprocess.PIPE, stdout=subprocess.PIPE,
                                  stderr=subprocess.DEVNULL)
        self.buf = b""
        self.nid = 0

    def send(self, method, params, request=False):
        msg = {"jsonrpc": "2.0", "method": method, "params": params}
        if request:
            self.nid += 1
            msg["id"] = self.nid
        body = json.dumps(msg).encode()
        self.p.stdin.write(b"Content-Length: %d\r\n\r\n" % len(body) + body)
        self.p.stdin.flush()

    def read(self, timeout):
        """One message or None on timeout / EOF."""
        import select
        fd = self.p.stdout.fileno()
        while True:
            i = self.buf.find(b"\r\n\r\n")
            if i >= 0:
                n = 0
                for h in self.buf[:i].split(b"\r\n"):
                    if h.lower().startswith(b"content-length:"):
                        n = int(h.split(b":")[1])
                if len(self.buf) >= i + 4 + n:
                    body = self.buf[i + 4:i + 4 + n]
                    self.buf = self.buf[i + 4 + n:]
                    return json.loads(body)
            r, _, _ = select.select([fd], [], [], timeout)
            if not r:
                return None
            chunk = os.read(fd, 65536)
            if not chunk:
                return None
            self.buf += chunk

    def uri(self, m):
        if m == OUTSIDE:     # a document that is not in the source directory
            return "file:///scratch/c10-not-in-the-project/Elsewhere.sam"
        return "file://" + os.path.join(self.src, *m.split(".")) + ".sam"

    def path(self, m):
        return os.path.join(self.src, *m.split(".")) + ".sam"

    def start(self):
        self.send("initialize", {"processId": None, "rootUri": "file://" + self.root, "capabilities": {}}, request=True)
        while True:
            m = self.read(30)
            if m is None:
                return None
            if m.get("id") == self.nid:
                break
        self.send("initialized", {})
        return self.settle()          # the `initialized` handler publishes the initial diagnostics

    def settle(self):
        """Deterministic end-of-handler detection, no pipelining and no timing assumptions:
        (1) wait for the handler's own window/logMessage (every handler logs before it takes the state lock; nothing
        else is in flight, so the next log message is this handler's, and once it is visible the handler is already
        queued on / holding the write lock); (2) send a hover request on a non-file: it needs the read lock, tokio's
        RwLock is FIFO-fair, so its response is produced after the handler released the lock, i.e. after every
        publishDiagnostics of the handler was handed to the output channel; (3) a second barrier request flushes a
        message that may still have been in the (bounded) channel.  Timeouts below are only reached when the server
        is dead.  Returns {uri: diagnostics} (last publish per uri inside this window) or None."""
        got = {}

        def pump(until):
            while True:
                m = self.read(30)
                if m is None:
                    return False
                if m.get("method") == "textDocument/publishDiagnostics":
                    got[m["params"]["uri"]] = m["params"]["diagnostics"]
                if until(m):
                    return True

        if not pump(lambda m: m.get("method") == "window/logMessage"):
            return None
        for _ in range(2):
            self.send("textDocument/hover", {"textDocument": {"uri": self.uri("Zz9Barrier")},
                                             "position": {"line": 0, "character": 0}}, request=True)
            want = self.nid
            if not pump(lambda m: m.get("id") == want and "method" not in m):
                return None
        return got

    def late(self, got, seconds):
        """Failure path only: absorb anything that arrives late before a mismatch is reported."""
        while True:
            m = self.read(seconds)
            if m is None:
                return got
            if m.get("method") == "textDocument/publishDiagnostics":
                got[m["params"]["uri"]] = m["params"]["diagnostics"]

    def close(self):
        try:
            self.p.kill(); self.p.wait(timeout=5)
        except Exception:
            pass


def _write_file(path, text):
    with open(path, "w") as fh:
        fh.write(text)
        fh.flush()
        os.fsync(fh.fileno())


def canon_msg(s):
    out, run = [], []
    for l in s.split("\n"):
        if l.startswith("- "):
            run.append(l)
        else:
            out += sorted(run) + [l]; run = []
    return "\n".join(out + sorted(run))


def decode_vtok(t):
    """verbose token (hex of `file:a:b-c:d|message|refs`) -> (0-based range, message)"""
    import re
    s = bytes.fromhex(t).decode()
    loc, rest = s.split("|", 1)
    msg = rest.rsplit("|", 1)[0]
    m = re.match(r"^.*:(\d+):(\d+)-(\d+):(\d+)$", loc)
    a, b, c, d = (int(x) - 1 for x in m.groups())
    return (a, b, c, d, msg)


def gen_events(rng, nev):
    """A history of LSP notifications over files of a scratch project (module names as in NAMES)."""
    pool = NAMES[:rng.range(2, 5)]
    files = {m: gen_content(rng, m, pool, True)[0] for m in pool if rng.chance(2, 3)}
    if not files:
        files[pool[0]] = gen_content(rng, pool[0], pool, True)[0]
    init = dict(files)
    evs = []
    for _ in range(nev):
        live = sorted(files)
        k = rng.weighted([("chg", 40), ("cre", 15), ("ren", 18), ("del", 15), ("del_unknown", 8), ("cre_unreadable", 4),
                          ("outside", 10)])
        if k == "outside":      # notifications about documents outside of the source directory (C10-F4)
            o = rng.below(5)
            m = rng.pick(live) if live else rng.pick(pool)
            ev = [("chg", [(OUTSIDE, "class X {}")]), ("cre", [(OUTSIDE, "class X {}"), (m, gen_content(rng, m, pool, True)[0])]),
                  ("ren", [(OUTSIDE, rng.pick(pool))]), ("ren", [(OUTSIDE, OUTSIDE), (m, rng.pick(pool))]),
                  ("del", [OUTSIDE, m])][o]
            evs.append(ev)
            apply_event_fs(files, ev)
            continue
        if k == "chg":
            m = rng.pick(live) if live and rng.chance(4, 5) else rng.pick(pool)
            ev = ("chg", [(m, gen_content(rng, m, pool, True)[0])])
        elif k == "cre":
            ms = rng.shuffle(pool)[:rng.range(1, 2)]
            ev = ("cre", [(m, gen_content(rng, m, pool, True)[0]) for m in ms])
        elif k == "cre_unreadable":
            ev = ("cre", [(rng.pick(pool), None)])
        elif k == "ren":
            a = rng.pick(live) if live and rng.chance(4, 5) else rng.pick(pool)
            ev = ("ren", [(a, rng.pick(pool))])
        elif k == "del":
            ev = ("del", [rng.pick(live)] if live else [rng.pick(pool)])
        else:
            ev = ("del", [rng.pick(["Ghost", "never.Seen"])] + ([rng.pick(live)] if live and rng.chance(1, 2) else []))
        evs.append(ev)
        apply_event_fs(files, ev)
    return init, evs


def apply_event_fs(files, ev):
    k, v = ev
    if k in ("chg", "cre"):
        for m, t in v:
            if t is not None and m != OUTSIDE:
                files[m] = t
    elif k == "ren":
        for a, b in v:
            if a in files and OUTSIDE not in (a, b):
                files[b] = files.pop(a)
    else:
        for m in v:
            files.pop(m, None)


def lsp_stream(ctx, tb, binary, nhist):
    """Real handlers vs (a) a fresh ServerState on the resulting files and (b) the real incremental ServerState
    driven by the op lines the Lean model of the glue (`glue`) derives from the same notifications."""
    import shutil, tempfile
    rng = ctx.rng.fork()
    stats = {"histories": 0, "notifications": 0, "kinds": {}, "unknown_file_deletes": 0,
             "modules_compared": 0, "diagnostics_compared": 0}
    os.makedirs(common.SCRATCH_ROOT, exist_ok=True)
    os.makedirs("/scratch/c10-not-in-the-project", exist_ok=True)
    open("/scratch/c10-not-in-the-project/Elsewhere.sam", "w").write("class X {}")
    for hi in range(nhist):
        if hi == 0:      # regression input of C10-F4 (fixed by d68f1d6): documents outside of the source directory
            a_txt = "class A { function f(): int = \"s\" }"
            init, evs = {"A": a_txt}, [("chg", [(OUTSIDE, "class X {}")]), ("del", [OUTSIDE]), ("cre", [(OUTSIDE, "class X {}")]),
                                       ("ren", [(OUTSIDE, "B"), ("A", OUTSIDE)]), ("chg", [("A", "class A { function f(): int = 1 }")])]
        else:
            init, evs = gen_events(rng.fork(), rng.range(2, 7))
        texts = list(init.values()) + [t for _, v in evs if _ in ("chg", "cre") for _m, t in v if t is not None]
        tb.ids(texts)
        # model glue: notification -> op line
        known = set(init)
        evlines = []
        for k, v in evs:
            if k == "chg":
                evlines.append(f"ev chg {v[0][0]}={tb.cid[v[0][1]]}")
            elif k == "cre":
                evlines.append("ev cre " + " ".join(f"{m}={'?' if t is None else tb.cid[t]}" for m, t in v))
            elif k == "ren":
                evlines.append("ev ren " + " ".join(f"{a}:{b}" for a, b in v))
            else:
                evlines.append("ev del " + " ".join(m if (m in known or m == OUTSIDE) else "?" for m in v))
                stats["unknown_file_deletes"] += sum(1 for m in v if m not in known)
            if any(OUTSIDE in (x if isinstance(x, str) else tuple(y for y in x if isinstance(y, str))) for x in v):
                stats["outside_root_notifications"] = stats.get("outside_root_notifications", 0) + 1
            for x in v:
                if k in ("chg", "cre"):
                    known.add(x[0])
                elif k == "ren":
                    known.update(x)
            stats["kinds"][k] = stats["kinds"].get(k, 0) + 1
        oplines = run_model(evlines)
        # expected: harness, verbose tokens
        lines = tb.def_lines() + ["new " + " ".join(f"{m}={tb.cid[t]}" for m, t in sorted(init.items()))]
        files = dict(init)
        idx = []
        for ev, ol in zip(evs, oplines):
            lines.append(ol)   # an empty batch (`upd`, `ren`, `rem` without operands) is still a call
            apply_event_fs(files, ev)
            lines.append(("fresh " + " ".join(f"{m}={tb.cid[t]}" for m, t in sorted(files.items()))).strip())
            idx.append((len(lines) - 2, len(lines) - 1, dict(files)))
        out = run_impl(lines, verbose=True)
        # real LSP
        root = tempfile.mkdtemp(prefix="c10-lsp-", dir=common.SCRATCH_ROOT)
        try:
            os.makedirs(os.path.join(root, "src"))
            open(os.path.join(root, "sconfig.json"), "w").write(
                '{"sourceDirectory": "src", "__dangerously_allow_libdef_shadowing__": true}')
            # the initial files are on disk (written, flushed and closed) BEFORE the server process exists: it scans
            # the source directory once at start-up
            rroot = os.path.realpath(root)
            for m, t in init.items():
                fp = os.path.join(rroot, "src", *m.split(".")) + ".sam"
                os.makedirs(os.path.dirname(fp), exist_ok=True)
                with open(fp, "w") as fh:
                    fh.write(t)
            lsp = Lsp(binary, rroot)
            def diag_set(ds):
                return sorted(set((d["range"]["start"]["line"], d["range"]["start"]["character"],
                                   d["range"]["end"]["line"], d["range"]["end"]["character"],
                                   canon_msg(d["message"])) for d in ds))

            def compare(got, fmap, expectations):
                """Per file: published list == expected list; a uri that is not a file must be absent or empty."""
                problems = []
                on_disk = sorted(m for m in fmap if os.path.exists(lsp.path(m)))
                uris = {lsp.uri(m): m for m in on_disk}
                for u, ds in got.items():
                    if u not in uris and ds:
                        problems.append(f"non-empty diagnostics published for {u.rsplit('/src/', 1)[-1]}, which is not a file: {diag_set(ds)[:2]}")
                for m in on_disk:
                    if lsp.uri(m) not in got:
                        problems.append(f"no diagnostics published for the file of module {m}")
                        continue
                    real = diag_set(got[lsp.uri(m)])
                    stats["modules_compared"] += 1
                    stats["diagnostics_compared"] += len(real)
                    for label, exp in expectations:
                        want = sorted(set(decode_vtok(t) for t in exp.get(m, (0, frozenset(), None))[1]))
                        if real != want:
                            problems.append(f"module {m}: LSP published {len(real)} diagnostics {real[:2]}, {label} has {len(want)} {want[:2]}")
                return problems

            got = lsp.start()
            if got is None:
                ctx.violation("samlang-cli lsp did not answer initialize/initialized", {"history": [init, evs]}, no_input=True)
                lsp.close()
                return stats
            stats["histories"] += 1
            exp0 = parse_obs(out[len(tb.cid)])
            p0 = compare(got, init, [("ServerState::new on the initial files", exp0)]) if exp0 is not None else []
            if p0:
                got = lsp.late(got, 2)
                p0 = compare(got, init, [("ServerState::new on the initial files", exp0)])
            if p0:
                ctx.violation("LSP handlers: diagnostics published on `initialized` differ from ServerState::new: " + p0[0],
                              {"protocol": "lsp-stdio", "initial_files": init, "notifications": [], "problems": p0})
                lsp.close()
                return stats
            for ei, (ev, (ia, fa, fmap)) in enumerate(zip(evs, idx)):
                k, v = ev
                if k == "chg":
                    m, t = v[0]
                    if m != OUTSIDE:
                        os.makedirs(os.path.dirname(lsp.path(m)), exist_ok=True)
                        _write_file(lsp.path(m), t)
                    lsp.send("textDocument/didChange", {"textDocument": {"uri": lsp.uri(m), "version": ei + 2},
                                                        "contentChanges": [{"text": t}]})
                elif k == "cre":
                    for m, t in v:
                        if m == OUTSIDE:
                            continue
                        if t is not None:
                            os.makedirs(os.path.dirname(lsp.path(m)), exist_ok=True)
                            _write_file(lsp.path(m), t)
                        elif os.path.exists(lsp.path(m)):
                            os.remove(lsp.path(m))
                    lsp.send("workspace/didCreateFiles", {"files": [{"uri": lsp.uri(m)} for m, _ in v]})
                elif k == "ren":
                    for a, b in v:
                        if OUTSIDE not in (a, b) and os.path.exists(lsp.path(a)) and a != b:
                            os.makedirs(os.path.dirname(lsp.path(b)), exist_ok=True)
                            os.replace(lsp.path(a), lsp.path(b))
                    lsp.send("workspace/didRenameFiles", {"files": [{"oldUri": lsp.uri(a), "newUri": lsp.uri(b)} for a, b in v]})
                else:
                    for m in v:
                        if m != OUTSIDE and os.path.exists(lsp.path(m)):
                            os.remove(lsp.path(m))
                    lsp.send("workspace/didDeleteFiles", {"files": [{"uri": lsp.uri(m)} for m in v]})
                stats["notifications"] += 1
                got = lsp.settle()
                if got is not None and any(OUTSIDE in (x if isinstance(x, str) else tuple(y for y in x if isinstance(y, str))) for x in v):
                    # a query on a document outside of the source directory must be answered, too
                    lsp.send("textDocument/hover", {"textDocument": {"uri": lsp.uri(OUTSIDE)},
                                                    "position": {"line": 0, "character": 0}}, request=True)
                    want = lsp.nid
                    while True:
                        m = lsp.read(30)
                        if m is None:
                            got = None
                            break
                        if m.get("id") == want and "method" not in m:
                            break
                exp_fresh, exp_inc = parse_obs(out[fa]), parse_obs(out[ia])
                if got is None:
                    problems = [f"the server stopped answering (process exit code {lsp.p.poll()}; no log message / response within 30 s)"]
                elif exp_fresh is None or exp_inc is None:
                    problems = [f"harness failed: {out[ia][:80]} / {out[fa][:80]}"]
                else:
                    exps = [("a fresh ServerState on the files", exp_fresh), ("ServerState driven by the model's glue", exp_inc)]
                    problems = compare(got, fmap, exps)
                    if problems:
                        got = lsp.late(got, 2)
                        problems = compare(got, fmap, exps)
                if problems:
                    ctx.violation("LSP handlers: published diagnostics differ from the expected ones after notification "
                                  f"#{ei} ({k}): " + problems[0],
                                  {"protocol": "lsp-stdio", "initial_files": init, "notifications": [[k2, v2] for k2, v2 in evs[:ei + 1]],
                                   "problems": problems, "model_glue_ops": oplines[:ei + 1]})
                    lsp.close()
                    return stats
            lsp.close()
        finally:
            shutil.rmtree(root, ignore_errors=True)
    return stats


def find_oracle_failure(ctx, tb, label):
    if tb is None:
        tb = Table()
    """Search: random histories in the regime of the partial theorem, oracle only.  Records a VIOLATION
    with the shrunk concrete history if one is found that matches no open finding."""
    rng = ctx.rng.fork()
    for _ in range(ctx.scale(4, 20)):
        hs = [gen_history(rng.fork(), rng.range(2, 10), rng.chance(1, 2), rng.chance(1, 2)) for _ in range(110)]
        hs += [lengthen(gen_latebind(r3, rng.chance(1, 2)), r3) for r3 in (rng.fork() for _ in range(40))]
        res = list(zip(hs, run_hists(tb, hs, with_model=False)))
        # prefer a witness whose failure is a difference of diagnostics over one where the server call itself failed
        res.sort(key=lambda x: 0 if (x[1][0] and not any("call failed" in m for _, m in x[1][0])) else 1)
        for h, (orc, _) in res:
            if orc and classify(tb, h) is None:
                small = shrink(tb, h, lambda g: bool(run_hists(tb, [g], with_model=False)[0][0]))
                o2, _ = run_hists(tb, [small], with_model=False)[0]
                ctx.violation("incremental ServerState differs from a fresh one: " + (o2 or orc)[0][1],
                              {"protocol": "lsphist", "label": label, "history": small.to_json(),
                               "oracle": [f"op#{i}: {m}" for i, m in (o2 or orc)]})
                return True
    return False


def handle_failure(ctx, tb, h, orc, tie, label):
    by_id = {f["id"]: f for f in ctx.open_findings}
    if orc:
        small = shrink(tb, h, lambda g: bool(run_hists(tb, [g], with_model=False)[0][0]))
        o2, t2 = run_hists(tb, [small])[0]
        fid = classify(tb, small)
        if fid in by_id and o2:
            if not any(fid + ":" in l for l in ctx.known_lines):
                ctx.known(by_id[fid], f"first witness: {label}: {o2[0][1][:140]}")
            if t2:   # the model must still predict the implementation on the witness
                ctx.violation("model/implementation disagreement on a known-finding witness (protocol lsphist): " + t2[0][1],
                              {"protocol": "lsphist", "history": small.to_json(), "tie": t2,
                               "broken": "correspondence lsphist (Model/Incremental.lean vs server_state.rs)"}, no_input=True)
                return False
            return True
        payload = {"protocol": "lsphist", "label": label, "history": small.to_json(),
                   "oracle": [f"op#{i}: {m}" for i, m in (o2 or orc)], "tie": [f"op#{i}: {m}" for i, m in t2]}
        ctx.violation("incremental ServerState differs from a fresh one: " + (o2 or orc)[0][1], payload)
        return False
    # tie only: search for a property-level failure (fresh-vs-incremental oracle, theorem's own regime) first
    if find_oracle_failure(ctx, tb, "search after model/implementation disagreement"):
        return False
    small = shrink(tb, h, lambda g: bool(run_hists(tb, [g])[0][1]))
    o2, t2 = run_hists(tb, [small])[0]
    payload = {"protocol": "lsphist", "label": label, "history": small.to_json(),
               "tie": [f"op#{i}: {m}" for i, m in (t2 or tie)],
               "broken": "correspondence `lsphist` (Model/Incremental.lean vs crates/samlang-services/src/server_state.rs, dep_graph.rs): the theorems of Props/C10.lean no longer speak about this code"}
    ctx.violation("model/implementation disagreement on protocol lsphist; no property-level failure on the shrunk history", payload, no_input=True)
    return False


# ----------------------------------------------------------------------------------------------
# (the witnesses of the fixed findings C10-F1..F3 are regression inputs under corpus/C10/f*.json)


def probe_hist(fid):
    return None


def run(ctx):
    tb = Table()

    def search():
        # proof broken: look for a concrete failing history in the theorem's own regime
        return find_oracle_failure(ctx, tb, "search after broken proof")

    # the LSP binary is built in its own target directory: build it concurrently with the harness / Lean builds
    import threading
    cli = {}

    def _build_cli():
        try:
            cli["bin"] = build_cli()
        except common.BuildError as e:
            cli["err"] = e
    cli_thread = threading.Thread(target=_build_cli, daemon=True)
    cli_thread.start()
    res = common.proof_gate(ctx, search)
    if any(v[1] for v in ctx.violations) and not os.path.exists(common.driver_bin(PROP)):
        return ctx.finish(res, trusted=common.TRUSTED_COMMON)
    rng = ctx.rng
    stats = {"histories": 0, "ops": 0, "clean": 0, "wild": 0, "nonlocal": 0, "latebind": 0, "long_name_histories": 0, "op_kinds": {}, "nontrivial": 0,
             "recheck_partial": 0, "oracle_known": 0}
    samples = []
    # 1. corpus
    cdir = os.path.join(common.VERIF, "corpus", PROP)
    corpus = []
    for f in sorted(os.listdir(cdir)) if os.path.isdir(cdir) else []:
        if f.endswith(".json"):
            h = Hist.from_json(json.load(open(os.path.join(cdir, f))))
            h.regime = "corpus:" + f
            corpus.append(h)
    # 2. probes of open findings
    probes = [p for p in (probe_hist(f["id"]) for f in ctx.open_findings) if p]
    for h, (orc, tie) in zip(corpus + probes, run_hists(tb, corpus + probes) if corpus + probes else []):
        stats["histories"] += 1
        if orc or tie:
            if handle_failure(ctx, tb, h, orc, tie, h.regime):
                stats["oracle_known"] += 1
    # 3. generated histories
    nh = ctx.scale(400, 8000)
    batch = 100
    done = 0
    distinct = set()
    while done < nh and not ctx.violations:
        hs = []
        for _ in range(min(batch, nh - done)):
            wild = rng.chance(3, 10)
            focus = rng.chance(1, 4)       # the "nonlocal" stream (diagnostics reported into other modules)
            if rng.chance(1, 4):           # the "latebind" stream (first use of a name several GC rounds after its declaration)
                r2 = rng.fork()
                hs.append(lengthen(gen_latebind(r2, wild), r2))
            else:
                hs.append(gen_history(rng.fork(), rng.range(2, ctx.scale(12, 16)), wild, focus))
        done += len(hs)
        results = run_hists(tb, hs)
        for h, (orc, tie) in zip(hs, results):
            stats["histories"] += 1
            stats[h.regime] += 1
            stats["long_name_histories"] += 1 if getattr(h, "long_names", 0) else 0
            stats["ops"] += len(h.ops)
            for k, v in h.ops:
                stats["op_kinds"][k] = stats["op_kinds"].get(k, 0) + 1
            key = json.dumps(h.to_json(), sort_keys=True)
            if key not in distinct:
                distinct.add(key)
                if len(h.init) >= 2 and len(h.ops) >= 2 and any("import" in t for t in h.init.values()):
                    stats["nontrivial"] += 1
            if orc or tie:
                if handle_failure(ctx, tb, h, orc, tie, f"generated {h.regime} seed={ctx.seed}"):
                    stats["oracle_known"] += 1
                if ctx.violations:
                    break
            elif len(samples) < 3 and len(h.ops) >= 3:
                samples.append(h.to_json())
    # 3b. exact affected_set correspondence on plain graphs (hook H5)
    ngraphs, gsizes = graph_stream(ctx, ctx.scale(400, 6000)) if not ctx.violations else (0, {})
    # 3c. the real LSP handlers over stdio
    lsp_stats = {}
    if not ctx.violations:
        cli_thread.join()
        if "err" in cli:
            ctx.violation(f"{cli['err'].what} failed", {"broken": cli["err"].what, "log": cli["err"].log}, no_input=True)
        else:
            lsp_stats = lsp_stream(ctx, tb, cli["bin"], ctx.scale(12, 150))
    # 3d. hypothesis Kinds as a fact of the current source (extract/c10_kinds.py)
    rc, kout = common.sh([os.sys.executable, os.path.join(common.VERIF, "extract", "c10_kinds.py")], env={"SAMVERIF_REPO": common.REPO})
    try:
        kinds = json.loads(kout.strip().split("\n")[-1])
    except Exception:
        kinds = {"ok": False, "violations": ["extractor crashed: " + kout[-300:]]}
    if rc != 0 or not kinds.get("ok"):
        ctx.violation("hypothesis Kinds of incremental_refines_fresh is no longer a fact of the source (only the parser may report "
                      "InvalidSyntax, and nothing else): " + "; ".join(kinds.get("violations", []))[:300],
                      {"broken": "extract/c10_kinds.py (hypothesis Kinds, Lemmas/Incremental.lean)", "extractor": kinds}, no_input=True)
    # 4. dynamic check of the theorem's hypotheses on every evaluated checker call
    def fresh_shaped(key):   # every signature was built under its own name, builtin under ROOT
        g = key.split("/", 2)[2]
        ents = [x.split(">", 1) for x in g.split(";") if x]
        return all((k == ROOT and v == "!") or (k != ROOT and v.split("~")[0] == k) for k, v in ents) and any(k == ROOT for k, _ in ents)
    # Hypothesis `LocalW` of incremental_refines_fresh, dynamically: every error that a call against a
    # from-scratch signature reports into ANOTHER module k (the real checker does: `interface A : E`
    # re-reports E's supertype error at E's location) must (1) have k in the forward import closure of
    # the checked module and (2) be reported by k's own check against the same signature.
    # Hypothesis `Kinds`: no type_check_module call reports an InvalidSyntax error (token prefix SYN).
    foreign, nforeign, synbad = [], 0, []
    for key, v in list(tb.tab.items()):
        if v == "-":
            continue
        if "SYN" in v:
            synbad.append([key, v])
        if not fresh_shaped(key):
            continue
        m, cid, g = key.split("/", 2)
        G = dict(x.split(">", 1) for x in g.split(";") if x)
        closure = None
        for x in v.split(","):
            k, t = x.split(":")
            if k == m:
                continue
            nforeign += 1
            if closure is None:
                closure, stack = set(), list(tb.facts.get(int(cid), ([], 0))[0])
                while stack:
                    y = stack.pop()
                    if y in closure:
                        continue
                    closure.add(y)
                    sgy = G.get(y)
                    if sgy and sgy != "!":
                        stack += tb.facts.get(int(sgy.split("~")[1]), ([], 0))[0]
            if k not in closure:
                foreign.append([key, x, "error located outside the forward import closure"]); continue
            sg = G.get(k)
            if not sg or sg == "!":
                foreign.append([key, x, "owner is not a source"]); continue
            okey = f"{k}/{sg.split('~')[1]}/{g}"
            if okey not in tb.tab:
                q = f"chk {k} {sg.split('~')[1]} " + " ".join(y.replace(">", "=") for y in g.split(";") if y)
                tb.tab[okey] = run_impl(tb.def_lines() + [q])[-1]
                tb.evals += 1
            if x not in tb.tab[okey].split(","):
                foreign.append([key, x, "owner's own check does not report it: " + tb.tab[okey]])
    if foreign:
        ctx.violation("hypothesis LocalW of incremental_refines_fresh is false for the real checker: type_check_module reported "
                      "an error into another module that is outside the import closure or that the owner's own check does "
                      "not report (whole-entry overwriting in recheck() is then unsound)",
                      {"calls": foreign[:3], "broken": "hypothesis LocalW (Lemmas/Incremental.lean, Props/C10.lean)"}, no_input=True)
    if synbad:
        ctx.violation("hypothesis Kinds of incremental_refines_fresh is false for the real checker: type_check_module reported an "
                      "InvalidSyntax error (recheck() would carry it over as if the parser had produced it)",
                      {"calls": synbad[:3], "broken": "hypothesis Kinds (Lemmas/Incremental.lean)"}, no_input=True)
    frame_bad = check_frame(tb)
    if frame_bad:
        ctx.violation("frame hypothesis of incremental_refines_fresh is false for the real checker: two global "
                      "signatures that agree on the module's forward import closure give different diagnostics",
                      {"calls": frame_bad, "broken": "hypothesis Frame (Props/C10.lean)"}, no_input=True)
    ctx.cov.update({
        "evaluations": stats["histories"], "distinct_nontrivial": stats["nontrivial"],
        "rule": "random histories (2..12 ops: single/batch update, create, rename, remove, remove-missing, revert) over <= 6 "
                "module names with cyclic/missing/self imports; contents from 12 valid/ill-typed templates (+2 unparsable, "
                "ROOT operands, duplicate batches in the 30% 'wild' stream; renames of any module, chained/colliding renames in both); non-trivial = distinct "
                "history with >= 2 initial files, >= 2 ops and at least one import edge",
        "samples": samples, "traces_validated_against_impl": stats["histories"],
        "ops_executed": stats["ops"], "op_histogram": stats["op_kinds"],
        "regimes": {"clean": stats["clean"], "wild": stats["wild"], "nonlocal": stats["nonlocal"], "latebind": stats["latebind"]},
        "histories_with_identifiers_of_16_bytes_or_more": stats["long_name_histories"],
        "real_checker_calls_evaluated_for_model": tb.evals,
        "frame_hypothesis_pairs_checked": getattr(tb, "frame_pairs", 0),
        "histories_matching_known_findings": stats["oracle_known"],
        "foreign_located_errors_seen": nforeign,
        "lsp_stdio": lsp_stats, "kinds_extractor": kinds,
        "affected_set_graphs_compared_exactly": ngraphs, "affected_set_size_histogram": gsizes,
        "pending": ["the recheck set an operation passes to recheck() is a local variable: tied through the stored graph (hook, every op), affected_set on plain graphs (H5) and its effects, not observed directly",
                    "checked_modules contents / GC interplay (property C11)"],
        "partial_theorems": {},
    })
    ctx.assumptions += [
        "frame hypothesis: type_check_module(m, c, G) depends only on G restricted to ROOT and the forward import closure of m (checked dynamically on all evaluated calls)",
        "weak locality (LocalW): an error that type_check_module(m, .., fresh G) reports into another module k has k in the forward import closure of m and is also reported by k's own check (checked dynamically on all such evaluated calls)",
        "kinds: only the parser reports InvalidSyntax errors, and it reports nothing else (source fact checked by extract/c10_kinds.py on every run, and dynamically on all evaluated calls)",
        "documents outside of the source directory are not modules of the project (notifications about them are skipped; a rename across the boundary is not followed)",
        "ModuleReference::ROOT is the builtin module, not a file: operations naming it are no-ops in the file-system view",
        "diagnostics compared as sets (ErrorSet is a BTreeSet); rendering = to_ide_format",
    ]
    return ctx.finish(res, trusted=common.TRUSTED_COMMON + [
        "hand-written model Model/Incremental.lean; parser and type checker are parameters of the model (instantiated in the correspondence by a table of the real checker's answers)",
        "not modelled: checked_modules, the heap and perform_gc_after_recheck (property C11); rayon scheduling inside recheck"])


def check_frame(tb):
    """Frame hypothesis, dynamically: calls with the same (module, content) whose global signatures agree on
    ROOT and on the forward import closure (computed from the contents in the signature) must agree."""
    groups = {}
    for key, val in tb.tab.items():
        m, cid, g = key.split("/", 2)
        groups.setdefault((m, cid), []).append((g, val))
    bad = []
    pairs = 0
    for (m, cid), calls in groups.items():
        views = []
        for g, val in calls:
            G = dict(x.split(">", 1) for x in g.split(";") if x)
            # closure of m through the imports of the contents whose signature G holds
            seen, stack = set(), list(tb.facts.get(int(cid), ([], 0))[0])
            while stack:
                x = stack.pop()
                if x in seen:
                    continue
                seen.add(x)
                sg = G.get(x)
                if sg and sg != "!":
                    stack += tb.facts.get(int(sg.split("~")[1]), ([], 0))[0]
            seen |= {ROOT, m}
            views.append((tuple(sorted((k, G.get(k)) for k in seen)), val, g))
        byview = {}
        for v, val, g in views:
            if v in byview:
                pairs += 1
                if byview[v][0] != val:
                    bad.append([f"{m}/{cid}/{byview[v][1]}", byview[v][0], f"{m}/{cid}/{g}", val])
            else:
                byview[v] = (val, g)
    tb.frame_pairs = pairs
    return bad[:3]


def replay(ctx, path):
    common.build_harness(PROP); common.build_lean(["drv-c10"])
    data = json.load(open(path))
    j = data.get("replay", data).get("history") if "replay" in data else data
    if not j:
        print(json.dumps(data, indent=1)); return 1
    h = Hist.from_json(j)
    tb = Table()
    (orc, tie), = run_hists(tb, [h])
    print("initial files:")
    for m, t in sorted(h.init.items()):
        print(f"  {m}: {t!r}")
    for i, (k, v) in enumerate(h.ops):
        print(f"op#{i}: {k} {v}")
    for i, m in orc:
        print(f"ORACLE op#{i}: {m}")
    for i, m in tie:
        print(f"MODEL-VS-IMPL op#{i}: {m}")
    fid = classify(tb, h)
    if orc and fid:
        print(f"(matches the signature of known finding {fid})")
    return 1 if orc or tie else 0
