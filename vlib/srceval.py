"""SRC: evaluation of samlang programs by the reference semantics `SamVerif.Source.eval`
(lean/SamVerif/Model/Source.lean) — the model-side oracle leg of property C01.

    eval_programs(programs) -> outcomes        (same program dicts as common.exec_programs)
    check_c01_leg(programs, exec_outcomes) -> list of disagreement records
    python3 -m vlib.srceval validate [--n N] [--seed S]

Pipeline per program: harness/src/bin/srcdump.rs (real parser + real type checker, dump of the
checked AST) -> lean/Driver/SRC.lean (`drv-src`: reads the dump, runs `Source.run`).
An outcome is {"check": "ok"|"errors"|"panic"|"crash", "msg", "lines": [...], "end":
"ok" | "panic:<msg>" | "trap:<kind>" | "oof", "flags": [...]}; `lines` are split at newlines the way
the execution oracle reports stdout.
"""
import glob, json, os, resource, subprocess, sys, time

from . import common

SRCDUMP = os.path.join(common.HARNESS, "target", "debug", "srcdump")
DRV = os.path.join(common.LEAN, ".lake", "build", "bin", "drv-src")
DEFAULT_FUEL = 100_000_000
STACK_KB = 16_000_000  # the interpreter recurses once per nesting level of the evaluation
EXCLUDING_FLAGS_WASM = {"ovf", "refeq", "vec31", "cap", "toint"}
EXCLUDING_FLAGS_TS = {"ovf", "refeq", "negdiv", "cap", "toint"}

_built = False

# small hand-written programs for corners the generators do not reach (validated three-way)
EXTRA_SOURCES = {
    "callee-order": """
class Box(val f: (int) -> int) {}
class Main {
  function say(s: Str, v: int): int = { let _ = Process.println(s); v }
  function getF(): (int) -> int = { let _ = Process.println("callee"); (x: int) -> x + 1 }
  function mk(): Box = { let _ = Process.println("receiver"); Box.init((x: int) -> x * 2) }
  function main(): unit = {
    let a = Main.getF()(Main.say("arg", 1));
    let b = Main.mk().f(Main.say("arg2", 2));
    let c = (Main.say("t0", 1), Main.say("t1", 2), Main.say("t2", 3));
    Process.println(Str.fromInt(a + b + c.e0 + c.e1 + c.e2))
  }
}
""",
    "escapes": """
class Main {
  function main(): unit = {
    Process.println("a\\tb\\\\c\\"d");
    Process.println("x\\ny");
    Process.println("p" :: "\\\\" :: "n");
    Process.println(if "a\\nb" == "a" :: "\\n" :: "b" { "same" } else { "diff" })
  }
}
""",
    "dispatch": """
interface Shape { method area(): int  method name(): Str }
class Sq(val s: int) : Shape { method area(): int = this.s * this.s  method name(): Str = "sq" }
class Re(val w: int, val h: int) : Shape { method area(): int = this.w * this.h  method name(): Str = "re" }
class Wrap<T: Shape>(val inner: T, val k: int) : Shape {
  method area(): int = this.inner.area() * this.k
  method name(): Str = "wrap(" :: this.inner.name() :: ")"
}
class Main {
  function <T: Shape> show(x: T): Str = x.name() :: "=" :: Str.fromInt(x.area())
  function <T: Shape> lazyArea(x: T): () -> int = x.area
  function <T: Shape> twice(x: T): Wrap<T> = Wrap.init(x, 2)
  function main(): unit = {
    Process.println(Main.show(Sq.init(3)));
    Process.println(Main.show(Re.init(2, 5)));
    Process.println(Main.show(Main.twice(Main.twice(Sq.init(2)))));
    let f = Main.lazyArea(Re.init(3, 4));
    Process.println(Str.fromInt(f()))
  }
}
""",
    "patterns": """
import { Option } from std.option;
import { Pair } from std.tuples;
class P(val x: int, val y: int, val z: Str) {}
class E(A(int, int), B(P), C, D(Option<int>)) {}
class Main {
  function f(e: E): Str = match e {
    A(n, _) | D(Some(n)) -> "n " :: Str.fromInt(n),
    B({ z as name, x, y as _ }) -> name :: Str.fromInt(x),
    C | D(None) -> "nothing",
  }
  function g(p: Pair<E, E>): int = match p {
    (A(a, _), A(_, b)) | (A(a, b), _) | (_, A(a, b)) -> a * 10 + b,
    (B({ x, y, z as _ }), _) | (_, B({ y as x, x as y, z as _ })) -> x * 100 + y,
    (C, _) -> 1,
    (D(_), _) -> 2,
  }
  function main(): unit = {
    Process.println(Main.f(E.A(0, 7)));
    Process.println(Main.f(E.A(8, 0)));
    Process.println(Str.fromInt(Main.g((E.A(1, 2), E.A(3, 4)))));
    Process.println(Str.fromInt(Main.g((E.A(1, 2), E.C()))));
    Process.println(Str.fromInt(Main.g((E.C(), E.A(5, 6)))));
    Process.println(Str.fromInt(Main.g((E.B(P.init(7, 8, "")), E.C()))));
    Process.println(Str.fromInt(Main.g((E.C(), E.B(P.init(7, 8, ""))))));
    Process.println(Str.fromInt(Main.g((E.C(), E.C()))));
    Process.println(Str.fromInt(Main.g((E.D(Option.None<int>()), E.C()))));
    Process.println(Main.f(E.B(P.init(1, 2, "pz"))));
    Process.println(Main.f(E.C()));
    Process.println(Main.f(E.D(Option.None<int>())));
    Process.println(Main.f(E.D(Option.Some(5))));
    let { y, x as xx, z as _ } = P.init(10, 20, "q");
    let (a, (b, c), _) = (1, (2, 3), 4);
    let r = if let D(Some(q)) = E.D(Option.Some(y - xx)) { q + a + b + c } else { 0 - 1 };
    Process.println(Str.fromInt(r));
    let r2 = if let (C, B({ x, y as _, z as _ })) = (E.A(1, 1), E.B(P.init(5, 6, ""))) { x } else { 0 - 2 };
    Process.println(Str.fromInt(r2))
  }
}
""",
    "closures": """
import { List } from std.list;
class Counter(val base: int) {
  method adder(): (int) -> int = (x) -> x + this.base
  method add(x: int): int = x + this.base
  function make(b: int): Counter = Counter.init(b)
}
class Opt(No, So(int)) {}
class Main {
  function apply(f: (int) -> int, x: int): int = f(x)
  function compose(f: (int) -> int, g: (int) -> int): (int) -> int = (x) -> g(f(x))
  function show(o: Opt): Str = match o { No -> "no", So(v) -> "so" :: Str.fromInt(v) }
  function main(): unit = {
    let c = Counter.make(10);
    let f = c.adder();
    let g = c.add;
    let h = Main.compose(f, g);
    Process.println(Str.fromInt(Main.apply(h, 1)));
    let mk = Opt.So;
    Process.println(Main.show(mk(3)));
    let l = List.of(1).cons(2).cons(3);
    l.map((x) -> x * c.base).iter((x) -> Process.println(Str.fromInt(x)));
    let k = 5;
    let k2 = { let kk = k + 1; kk * 2 };
    Process.println(Str.fromInt(k + k2));
    let counterMaker = Counter.make;
    Process.println(Str.fromInt(counterMaker(4).add(4)))
  }
}
""",
    "vec": """
class Main {
  function fill(v: Vec<Str>, n: int): unit = if n <= 0 { } else { v.push("s" :: Str.fromInt(n)); Main.fill(v, n - 1) }
  function main(): unit = {
    let v = Vec.empty<Str>();
    Main.fill(v, 4);
    let w = v;
    w.set(1, "changed");
    Process.println(v.get(1) :: v.pop() :: Str.fromInt(v.length()));
    let e = Vec.of(1);
    let _ = e.pop();
    Process.println(Str.fromInt(e.length()));
    let _ = e.get(0);
    Process.println("unreachable")
  }
}
""",
    "unicode": """
class Main {
  function main(): unit = {
    let s = "h\u00e9llo \u20ac \U0001F600";
    Process.println(s);
    Process.println(s :: "|" :: "\u00fc" :: Str.fromInt(1));
    Process.println(if s == "h\u00e9llo \u20ac \U0001F600" { "eq" } else { "ne" });
    Process.println("\u00e9" :: "x")
  }
}
""",
    "arith-neg": """
class Main {
  function main(): unit = {
    let x = "-7".toInt();
    Process.println(Str.fromInt(x / 2 * 2 + x % 2) :: " " :: Str.fromInt(-x) :: " " :: Str.fromInt(0 - 2147483647 - 1));
    Process.println(Str.fromInt(x % 3) :: " " :: Str.fromInt(7 % (0 - 3)) :: " " :: Str.fromInt(x * x - 50))
  }
}
""",
    "vec-pop-empty": """
class Main {
  function main(): unit = {
    let e = Vec.withCapacity<int>(3);
    e.push(1);
    e.set(0, 7);
    Process.println(Str.fromInt(e.pop()));
    let _ = e.pop();
    Process.println("unreachable")
  }
}
""",
    "shortcircuit": """
class Main {
  function t(s: Str, b: bool): bool = { let _ = Process.println(s); b }
  function n(s: Str): int = { let _ = Process.println(s); 0 }
  function main(): unit = {
    let a = Main.t("a", false) && Main.t("b", true);
    let b = Main.t("c", true) || Main.t("d", false);
    let c = Main.t("e", true) && (Main.t("f", false) || Main.t("g", true));
    let d = !(Main.t("h", false) || Main.t("i", false)) && Main.t("j", true);
    Process.println(if a { "T" } else { "F" });
    Process.println(if b { "T" } else { "F" });
    Process.println(if c { "T" } else { "F" });
    Process.println(if d { "T" } else { "F" });
    let e = false && Main.t("no1", true);
    let f = true || Main.t("no2", false);
    let g = (false && Main.t("no3", true)) || Main.t("yes4", true);
    let h = if true || Main.t("no5", true) { 1 } else { Main.n("no6") };
    Process.println((if e { "T" } else { "F" }) :: (if f { "T" } else { "F" }) :: (if g { "T" } else { "F" }) :: Str.fromInt(h));
    let x = -7;
    if Main.t("k", true) { Process.panic<unit>("boom " :: Str.fromInt(x)) } else { };
    Process.println("unreachable")
  }
}
""",
}


def build(force=False):
    """cargo build of srcdump (against /repo's working tree) and lake build of drv-src."""
    global _built
    if _built and not force:
        return
    common.build_harness("srcdump")
    ok, log = common.build_lean(["drv-src"])
    if not ok:
        raise common.BuildError("lake build drv-src", log[-4000:])
    _built = True


def dump_programs(programs, timeout=1800):
    data = "\n".join(json.dumps({"sources": p["sources"], "entry": p["entry"],
                                 "std": p.get("std", True)}) for p in programs).encode() + b"\n"
    p = subprocess.run([SRCDUMP], input=data, stdout=subprocess.PIPE, stderr=subprocess.PIPE,
                       timeout=timeout)
    out = [json.loads(l) for l in p.stdout.decode("utf-8", "replace").split("\n") if l.strip()]
    if len(out) != len(programs):
        raise RuntimeError(f"srcdump returned {len(out)} answers for {len(programs)} programs: "
                           f"{p.stderr.decode()[-500:]}")
    return out


def _big_stack():
    try:
        soft, hard = resource.getrlimit(resource.RLIMIT_STACK)
        want = STACK_KB * 1024
        if hard != resource.RLIM_INFINITY:
            want = min(want, hard)
        resource.setrlimit(resource.RLIMIT_STACK, (want, hard))
    except (ValueError, OSError):
        pass


def _parse_answer(line):
    w = line.split(" ")
    end = w[0]
    if end.startswith("bad-dump"):
        return {"check": "crash", "msg": line, "lines": [], "end": "bad-dump", "flags": []}
    if end.startswith("panic:"):
        end = "panic:" + common.unhex(end[6:]).decode("utf-8", "replace")
    flags = [] if w[1] == "-" else w[1].split(",")
    printed = [common.unhex(x).decode("utf-8", "replace") for x in w[3:3 + int(w[2])]]
    text = "".join(s + "\n" for s in printed)
    lines = text.split("\n")[:-1] if text else []
    return {"check": "ok", "lines": lines, "end": end, "flags": flags, "printed": len(printed)}


def _run_driver(dumps, fuel, timeout):
    """One drv-src process for a list of dumps; returns (answers or None on crash, stderr)."""
    data = ("\n".join(dumps) + "\n").encode()
    try:
        p = subprocess.run([DRV, str(fuel)], input=data, stdout=subprocess.PIPE,
                           stderr=subprocess.PIPE, timeout=timeout, preexec_fn=_big_stack)
    except subprocess.TimeoutExpired:
        return None, "timeout"
    out = [l for l in p.stdout.decode("utf-8", "replace").split("\n") if l.strip()]
    if p.returncode != 0 or len(out) != len(dumps):
        return None, p.stderr.decode("utf-8", "replace")[-300:]
    return out, ""


def eval_dumps(dumps, fuel=DEFAULT_FUEL, timeout=600, jobs=None):
    """Evaluates dumps in parallel chunks; a chunk whose process dies (native stack overflow)
    is retried program by program so that one runaway program does not hide the others."""
    from concurrent.futures import ThreadPoolExecutor
    n = len(dumps)
    if n == 0:
        return []
    jobs = jobs or min(os.cpu_count() or 4, 16)
    size = max(1, (n + jobs - 1) // jobs)
    chunks = [list(range(i, min(n, i + size))) for i in range(0, n, size)]
    res = [None] * n

    def work(idx):
        out, err = _run_driver([dumps[i] for i in idx], fuel, timeout)
        if out is not None:
            for i, l in zip(idx, out):
                res[i] = _parse_answer(l)
            return
        for i in idx:
            o, e = _run_driver([dumps[i]], fuel, timeout)
            res[i] = _parse_answer(o[0]) if o else {"check": "crash", "msg": e.strip(), "lines": [],
                                                     "end": "crash", "flags": []}

    with ThreadPoolExecutor(max_workers=jobs) as ex:
        list(ex.map(work, chunks))
    return res


def eval_programs(programs, fuel=DEFAULT_FUEL, timeout=600):
    """Source.eval outcome of every program (see module doc)."""
    build()
    ds = dump_programs(programs)
    idx = [i for i, d in enumerate(ds) if d["check"] == "ok"]
    ev = eval_dumps([ds[i]["dump"] for i in idx], fuel=fuel, timeout=timeout)
    out = []
    it = iter(ev)
    for d in ds:
        if d["check"] == "ok":
            out.append(next(it))
        else:
            out.append({"check": d["check"], "msg": d.get("msg", ""), "lines": [], "end": "", "flags": []})
    return out


# ------------------------------------------------------------------------------------------------
# comparison with the real back ends
# ------------------------------------------------------------------------------------------------

def _canon_end(end):
    """exec oracle vocabulary (harness/src/exec.rs): newlines of a panic message are escaped."""
    return end.replace("\n", "\\n") if end.startswith("panic:") else end


def compare(model, real, leg):
    """model: an eval_programs outcome; real: {"lines", "end"} of one back end (leg = "wasm"|"ts").
    -> ("agree"|"agree-flagged"|"differ"|"excluded:<why>"|"unevaluated:<why>", detail)"""
    if model.get("check") != "ok":
        return "unevaluated:model-" + model.get("check", "?"), model.get("msg", "")[:200]
    if model["end"] in ("oof", "crash", "bad-dump"):
        return "unevaluated:model-" + model["end"], ""
    if real is None or real.get("end") in (None, "no-node", "skipped"):
        return "unevaluated:no-run", ""
    if real["end"] in ("stack-overflow", "timeout") or real["end"].startswith("no-node"):
        return "unevaluated:real-" + real["end"], ""
    if model["end"] == "trap:div0":
        return "excluded:div0", ""
    bad = set(model["flags"]) & (EXCLUDING_FLAGS_WASM if leg == "wasm" else EXCLUDING_FLAGS_TS)
    same = list(model["lines"]) == list(real["lines"]) and _canon_end(model["end"]) == real["end"]
    if bad:
        # the run touched behaviour the specification leaves open: a difference is excused, an
        # agreement is still an agreement (reported separately)
        return ("agree-flagged" if same else "excluded:" + ",".join(sorted(bad))), ""
    if model["end"].startswith("trap:"):
        return "differ", f"reference semantics is stuck ({model['end']}) on a program the checker accepted"
    if same:
        return "agree", ""
    k = 0
    while k < min(len(model["lines"]), len(real["lines"])) and model["lines"][k] == real["lines"][k]:
        k += 1
    return "differ", {"first_difference_at_line": k,
                      "model": {"line": model["lines"][k] if k < len(model["lines"]) else None,
                                "end": model["end"], "n": len(model["lines"])},
                      leg: {"line": real["lines"][k] if k < len(real["lines"]) else None,
                            "end": real["end"], "n": len(real["lines"])}}


def check_c01_leg(programs, exec_outcomes, fuel=DEFAULT_FUEL, legs=("wasm",)):
    """The source-semantics leg of C01.  `programs`: the dicts given to common.exec_programs,
    `exec_outcomes`: its answers.  Every program the compiler accepted is evaluated by
    Source.eval and compared with the compiled WebAssembly run (and TS if asked).
    -> (stats, disagreements); a disagreement is {"index", "leg", "detail", "model", "real", "sources"}.
    Runs that overflow, divide by zero or touch implementation-defined behaviour (flags, see
    Model/Source.lean) are counted under stats["excluded"], never reported."""
    idx = [i for i, r in enumerate(exec_outcomes) if r.get("compile") == "ok"]
    models = eval_programs([programs[i] for i in idx], fuel=fuel)
    stats = {"programs": len(programs), "compiled": len(idx), "agree": 0, "agree_flagged": 0, "excluded": {}, "unevaluated": {},
             "lines_compared": 0, "model_rejects": 0}
    bad = []
    for i, m in zip(idx, models):
        if m.get("check") in ("errors", "panic"):
            # the dump runs the same parser + checker: a rejection here contradicts compile == ok
            stats["model_rejects"] += 1
            bad.append({"index": i, "leg": "front-end", "detail": "srcdump rejects a program compile_sources accepted: "
                        + m.get("msg", "")[:300], "model": m, "real": None, "sources": programs[i]["sources"]})
            continue
        for leg in legs:
            real = exec_outcomes[i].get(leg)
            verdict, detail = compare(m, real, leg)
            if verdict in ("agree", "agree-flagged"):
                stats["agree" if verdict == "agree" else "agree_flagged"] += 1
                stats["lines_compared"] += len(m["lines"])
            elif verdict.startswith("excluded:") or verdict.startswith("unevaluated:"):
                kind, why = verdict.split(":", 1)
                stats[kind][why] = stats[kind].get(why, 0) + 1
            else:
                bad.append({"index": i, "leg": leg, "detail": detail, "model": m, "real": real,
                            "sources": programs[i]["sources"]})
    return stats, bad


# ------------------------------------------------------------------------------------------------
# validation command
# ------------------------------------------------------------------------------------------------

def _repo_sources():
    srcs = {}
    for d in ("tests", "std"):
        for f in sorted(glob.glob(os.path.join(common.REPO, d, "*.sam"))):
            srcs[d + "." + os.path.basename(f)[:-4]] = open(f, encoding="utf-8").read()
    return srcs


def snapshot_programs():
    """One program per test case that tests.AllTests runs (entry `Main` calls `<Class>.run()`), the
    snapshot section of each, plus the whole of AllTests without the Benchmark case."""
    import re
    base = _repo_sources()
    text = base["tests.AllTests"]
    cls2mod = {c: m for c, m in re.findall(r"import \{ (\w+) \} from tests\.(\w+);", text)}
    order = re.findall(r'TestCase\.init\("(\w+)", (\w+)\.run\)', text)
    snap = open(os.path.join(common.REPO, "tests", "snapshot.txt"), encoding="utf-8").read().split("\n")
    if snap and snap[-1] == "":
        snap.pop()
    bar = "=" * 40
    sections, cur = {}, None
    i = 0
    while i < len(snap):
        if snap[i] == bar and i + 1 < len(snap) and snap[i + 1].startswith("Test Name: "):
            cur = snap[i + 1][len("Test Name: "):]
            sections[cur] = []
            i += 2
            continue
        if snap[i] == bar and i == len(snap) - 1:
            break
        sections[cur].append(snap[i])
        i += 1
    progs = []
    for name, cls in order:
        s = dict(base)
        s["Main"] = (f"import {{ {cls} }} from tests.{cls2mod[cls]};\n"
                     f"class Main {{ function main(): unit = {cls}.run() }}\n")
        progs.append({"name": name, "sources": s, "entry": "Main", "std": True, "expect": sections.get(name)})
    # whole AllTests minus Benchmark (a tail recursion 2*10^7 deep: beyond the interpreter's native stack)
    s = dict(base)
    s["tests.AllTests"] = "\n".join(l for l in text.split("\n") if '"Benchmark"' not in l)
    exp, skip = [], False
    for j, l in enumerate(snap):
        if l == bar and j + 1 < len(snap) and snap[j + 1] == "Test Name: Benchmark":
            skip = True
            continue
        if skip and l == "Test Name: Benchmark":
            continue
        if skip and l == bar:
            skip = False
        if not skip:
            exp.append(l)
    progs.append({"name": "<AllTests without Benchmark>", "sources": s, "entry": "tests.AllTests", "std": True,
                  "expect": exp})
    return progs


def extra_programs():
    """Hand-picked programs compared three-way like the generated ones."""
    base = _repo_sources()
    s = dict(base)
    # Benchmark with its 2*10^7-deep tail recursion scaled to 10^5 (its self-check then fails with a
    # panic on every leg alike: the closed formula only holds for the original bound)
    s["tests.Benchmark"] = s["tests.Benchmark"].replace("20000000", "100000")
    s["Main"] = "import { Benchmark } from tests.Benchmark;\nclass Main { function main(): unit = Benchmark.run() }\n"
    out = [{"gen": "extra:benchmark-scaled", "sources": s, "entry": "Main", "std": True, "ts": True,
            "timeout_ms": 60000, "expect": None}]
    for name, src in EXTRA_SOURCES.items():
        out.append({"gen": "extra:" + name, "sources": {"Main": src}, "entry": "Main", "std": True, "ts": True,
                    "timeout_ms": 20000, "expect": None})
    return out


def validate_snapshot(verbose=True):
    progs = snapshot_programs()
    t0 = time.time()
    out = eval_programs(progs, timeout=900)
    rows, ok = [], 0
    for p, o in zip(progs, out):
        good = o["check"] == "ok" and o["end"] == "ok" and o["lines"] == p["expect"]
        ok += good
        rows.append({"name": p["name"], "match": bool(good), "end": o["end"] or o["check"], "flags": o["flags"],
                     "lines": len(o["lines"]), "expected_lines": None if p["expect"] is None else len(p["expect"]),
                     "msg": o.get("msg", "")[:120]})
        if verbose:
            r = rows[-1]
            print(f"  {'ok  ' if good else 'FAIL'} {r['name']:<32} end={r['end']:<10} lines={r['lines']}/{r['expected_lines']} "
                  f"flags={','.join(r['flags']) or '-'} {r['msg']}")
    return {"sections": len(progs), "reproduced": ok, "rows": rows, "seconds": round(time.time() - t0, 1)}


def generated_programs(n, seed):
    """n programs from the generators of vlib/scopegen.py, vlib/c01.py (end-to-end families) and
    vlib/c04.py (whole-program oracle)."""
    from . import scopegen, c01, c04
    rng = common.Rng(seed)
    progs = []
    g4 = c04.Gen(rng.fork())
    r1, r13 = rng.fork(), rng.fork()
    for k in range(n):
        which = k % 3
        if which == 0:
            c = c01.e2e_case(r1)
            srcs = {"Main": c["src"]}
            if c.get("extra") == "set":      # std/set.sam is not among the modules the compiler embeds
                srcs["std.set"] = open(os.path.join(common.REPO, "std", "set.sam"), encoding="utf-8").read()
            progs.append({"gen": "c01:" + c["family"], "sources": srcs, "entry": "Main",
                          "std": bool(c.get("std")), "ts": True, "timeout_ms": 20000, "expect": c["expect"]})
        elif which == 1:
            src, exp = g4.program()
            progs.append({"gen": "c04", "sources": {"Main": src}, "entry": "Main", "std": False, "ts": True,
                          "timeout_ms": 20000, "expect": exp})
        else:
            p = scopegen.gen_program(r13.fork())
            progs.append({"gen": "scopegen", "sources": scopegen.render(p), "entry": "Main", "std": True, "ts": True,
                          "timeout_ms": 20000, "expect": None})
    return progs


def validate_generated(n, seed, verbose=True):
    common.build_exec()
    progs = generated_programs(n, seed) + extra_programs()
    t0 = time.time()
    clean = [{k: v for k, v in p.items() if k not in ("gen", "expect")} for p in progs]
    real = common.exec_programs(clean)
    stats, bad = check_c01_leg(clean, real, legs=("wasm", "ts"))
    per_gen, three = {}, 0
    models = None
    # three-way count: model = wasm = ts on the same program
    bad_idx = {(b["index"], b["leg"]) for b in bad}
    idx = [i for i, r in enumerate(real) if r.get("compile") == "ok"]
    models = dict(zip(idx, eval_programs([clean[i] for i in idx])))
    for i in idx:
        vw, _ = compare(models[i], real[i].get("wasm"), "wasm")
        vt, _ = compare(models[i], real[i].get("ts"), "ts")
        g = progs[i]["gen"].split(":")[0]
        d = per_gen.setdefault(g, {"programs": 0, "three_way": 0, "wasm_only": 0, "excluded": 0, "differ": 0})
        d["programs"] += 1
        if vw.startswith("agree") and vt.startswith("agree"):
            d["three_way"] += 1
            three += 1
            if "flagged" in vw + vt:
                d["three_way_flagged"] = d.get("three_way_flagged", 0) + 1
        elif vw.startswith("agree") and not vt == "differ":
            d["wasm_only"] += 1
        elif "differ" in (vw, vt):
            d["differ"] += 1
        else:
            d["excluded"] += 1
    not_compiled = {}
    for p, r in zip(progs, real):
        if r.get("compile") != "ok":
            key = p["gen"] + ": " + r.get("compile", "?") + ": " + (r.get("msg") or "").strip().split("\n")[0][:80]
            not_compiled[key] = not_compiled.get(key, 0) + 1
    if verbose:
        for k, v in not_compiled.items():
            print(f"  not compiled x{v}: {k}")
        for b in bad[:10]:
            print("  DISAGREE", progs[b["index"]]["gen"], b["leg"], json.dumps(b["detail"])[:400])
    return {"programs": len(progs), "compiled": stats["compiled"], "three_way_agree": three, "per_generator": per_gen,
            "not_compiled": not_compiled, "stats": stats, "disagreements": [{"gen": progs[b["index"]]["gen"], "leg": b["leg"], "detail": b["detail"],
                                               "model": b["model"], "real": b["real"],
                                               "entry": progs[b["index"]]["entry"],
                                               "sources": b["sources"]} for b in bad],
            "seconds": round(time.time() - t0, 1)}


def _shared_repo_lock():
    """/repo may be mutated by fault experiments under the exclusive lock (vlib/repo_lock.sh)."""
    if os.environ.get("SAMVERIF_HAVE_REPO_LOCK"):
        return None
    import fcntl
    os.makedirs(os.path.join(common.VERIF, ".locks"), exist_ok=True)
    f = open(os.path.join(common.VERIF, ".locks", "repo"), "w")
    fcntl.flock(f, fcntl.LOCK_SH)
    return f


def validate(n=300, seed=1):
    _lock = _shared_repo_lock()
    build()
    print("[a] tests/*.sam run by tests.AllTests vs tests/snapshot.txt (section by section)")
    a = validate_snapshot()
    print(f"    {a['reproduced']}/{a['sections']} sections reproduced exactly ({a['seconds']} s)")
    print(f"[b] {n} generated programs (seed {seed}): Source.eval vs wasm vs ts")
    b = validate_generated(n, seed)
    print(f"    compiled {b['compiled']}/{b['programs']}, three-way agreement {b['three_way_agree']}, "
          f"disagreements {len(b['disagreements'])} ({b['seconds']} s)")
    print("    per generator:", json.dumps(b["per_generator"]))
    print("    excluded:", json.dumps(b["stats"]["excluded"]), "unevaluated:", json.dumps(b["stats"]["unevaluated"]))
    os.makedirs(os.path.join(common.VERIF, "evidence-aux"), exist_ok=True)
    path = os.path.join(common.VERIF, "evidence-aux", "SRC-validate.json")
    json.dump({"snapshot": a, "generated": {k: v for k, v in b.items() if k != "disagreements"},
               "disagreements": b["disagreements"][:20], "seed": seed, "n": n}, open(path, "w"), indent=1)
    print("    evidence:", os.path.relpath(path, common.VERIF))
    return 0 if a["reproduced"] == a["sections"] and not b["disagreements"] else 1



if __name__ == "__main__":
    cmd = sys.argv[1] if len(sys.argv) > 1 else ""
    if cmd == "run":
        # python3 -m vlib.srceval run FILE.sam [more.sam ...]: module name = file stem, entry = first
        srcs = {os.path.basename(f)[:-4]: open(f).read() for f in sys.argv[2:]}
        entry = os.path.basename(sys.argv[2])[:-4]
        print(json.dumps(eval_programs([{"sources": srcs, "entry": entry}])[0], indent=1))
    elif cmd == "validate":
        import argparse
        ap = argparse.ArgumentParser()
        ap.add_argument("cmd")
        ap.add_argument("--n", type=int, default=300)
        ap.add_argument("--seed", type=int, default=int(os.environ.get("VERIF_SEED", "1")))
        a = ap.parse_args()
        sys.exit(validate(a.n, a.seed))
    else:
        print(__doc__)
