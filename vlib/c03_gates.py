"""Deterministic gate families for C03 (round 5, coverage-guided): one program per diagnostic site of the
checker that the random streams never reached (each must be REJECTED with that diagnostic; an accepted one is
run through the execution oracle), and accepted controls that reach representation arms of the back end
(tuples of 2..16, unit loops, panics in statement position, reference inequality, ...) with their expected output.
Generated once from the exploration scripts; edit by hand."""

PRE = '''interface HasArea { method area(): int }
interface Named { method name(): Str }
class Sq(val s: int) : HasArea { method area(): int = this.s * this.s }
class Pt(val x: int, val y: int, private val hid: int) {
  function mk(): Pt = Pt.init(1, 2, 3)
}
class Bx<T>(val c: T) { method get(): T = this.c }
class Opt(No, Yes(int)) {}
class Two(A(int), B(Str)) {}
class W(Only(Pt)) {}
'''
def M(body, extra="", pre=PRE):
    return pre + extra + "class Main {\n  function <T> id(x: T): T = x\n  function main(): unit = {\n" + body + "\n  }\n}\n"

REJECT = {
 "field access on int": M("    let _ = Process.println(Str.fromInt(1.foo));"),
 "field access on lambda": M("    let f = (x: int) -> x;\n    let _ = f.foo;"),
 "method explicit type-arg arity": M("    let _ = Main.id<int, int>(1);"),
 "method value explicit type-arg arity": M("    let g = Bx.init(1).get<int>;"),
 "call of int": M("    let x = 1;\n    let _ = x(2);"),
 "call of literal": M("    let _ = 1(2);"),
 "irrefutable if-let": M("    let o = Opt.Yes(1);\n    let _ = if let x = o { 1 } else { 2 };"),
 "if-let variant on int": M("    let _ = if let Yes(x) = 1 { 1 } else { 2 };"),
 "if-let object on int": M("    let _ = if let { a, b } = 1 { 1 } else { 2 };"),
 "match nested object/or on non-enum": M("    let _ = match 1 { Yes({ a as (Q | R), b }) -> 1, _ -> 2 };"),
 "tuple pattern too many": M("    let (a, b, c) = (1, 2);"),
 "tuple pattern too few": M("    let (a, b) = (1, 2, 3);"),
 "tuple pattern on struct too many": M("    let (a, b, c, d) = Sq.init(1);"),
 "object pattern on int": M("    let { a } = 1;"),
 "object pattern private field": M("    let { x, y, hid } = Pt.mk();"),
 "object pattern unknown field": M("    let { x, y, zz } = Pt.mk();"),
 "object pattern missing field": M("    let { s as _ } = Sq.init(1);\n    let { x } = Pt.mk();"),
 "variant pattern surplus": M("    let _ = match Opt.Yes(1) { Yes(a, b) -> 1, No -> 2 };"),
 "variant pattern too few": M("    let _ = match Two.A(1) { A -> 1, B(_) -> 2 };"),
 "or-pattern binding type mismatch": M("    let _ = match Two.A(1) { A(x) | B(x) -> 1 };"),
 "or-pattern binding names differ": M("    let _ = match Two.A(1) { A(x) | B(y) -> 1 };"),
 "non-exhaustive let": M("    let Yes(x) = Opt.Yes(1);"),
 "non-exhaustive match": M("    let _ = match Opt.Yes(1) { Yes(_) -> 1 };"),
 "conformance: type param arity": PRE+"interface G { method <A> m(a: A): int }\nclass CG(val v: int) : G { method <A, B> m(a: A): int = 1 }\nclass Main { function main(): unit = {} }\n",
 "conformance: type param name": PRE+"interface G { method <A> m(a: A): int }\nclass CG(val v: int) : G { method <B> m(a: B): int = 1 }\nclass Main { function main(): unit = {} }\n",
 "conformance: bound missing": PRE+"interface G { method <A: HasArea> m(a: A): int }\nclass CG(val v: int) : G { method <A> m(a: A): int = 1 }\nclass Main { function main(): unit = {} }\n",
 "conformance: bound extra": PRE+"interface G { method <A> m(a: A): int }\nclass CG(val v: int) : G { method <A: HasArea> m(a: A): int = 1 }\nclass Main { function main(): unit = {} }\n",
 "conformance: bound differs": PRE+"interface G { method <A: HasArea> m(a: A): int }\nclass CG(val v: int) : G { method <A: Named> m(a: A): int = 1 }\nclass Main { function main(): unit = {} }\n",
 "conformance: signature differs": PRE+"interface G { method m(a: int): int }\nclass CG(val v: int) : G { method m(a: Str): int = 1 }\nclass Main { function main(): unit = {} }\n",
 "cyclic interfaces": PRE+"interface IA : IB {}\ninterface IB : IA {}\nclass Main { function main(): unit = {} }\n",
 "cyclic self": PRE+"interface IA : IA {}\nclass Main { function main(): unit = {} }\n",
 "class extends class": PRE+"class Sub(val a: int) : Sq {}\nclass Main { function main(): unit = {} }\n",
 "function in interface": PRE+"interface G { function f(): int }\nclass Main { function main(): unit = {} }\n",
 "private implements public": PRE+"class Bad(val v: int) : HasArea { private method area(): int = 1 }\nclass Main { function main(): unit = {} }\n",
 "missing member": PRE+"class Bad(val v: int) : HasArea {}\nclass Main { function main(): unit = {} }\n",
 "nominal type-arg arity": M("    let b: Bx<int, int> = Bx.init(1);"),
 "fn param arity": M("    let f: (int) -> int = (a: int, b: int) -> a;"),
 "fn vs int": M("    let f: (int) -> int = 3;"),
 "nominal vs fn": M("    let f: Sq = (a: int) -> a;"),
 "nested targ mismatch": M("    let b: Bx<Bx<int>> = Bx.init(Bx.init(\"s\"));"),
 "underconstrained": M("    let _ = Bx.init;") ,
 "underconstrained lambda": M("    let f = (x) -> x;"),
 "interface as value type": M("    let x = HasArea.init(1);"),
 "unknown class": M("    let x = Nope.init(1);"),
 "unknown member": M("    let x = Sq.nope(1);"),
 "unknown method": M("    let x = Sq.init(1).nope();"),
 "unknown name": M("    let x = nope;"),
 "if branch mismatch": M("    let x = if true { 1 } else { \"s\" };"),
 "match arm mismatch": M("    let x = match Opt.No() { No -> 1, Yes(_) -> \"s\" };"),
 "arg count": M("    let _ = Main.id(1, 2);"),
 "arg type": M("    let _ = Sq.init(\"s\");"),
 "binary operand": M("    let _ = 1 + \"s\";"),
 "condition not bool": M("    let _ = if 1 { 1 } else { 2 };"),
 "name collision": M("    let a = 1;\n    let a = 2;"),
 "private method from outside": PRE+"class Pv(val v: int) { private method secret(): int = 1 }\nclass Main { function main(): unit = { let _ = Pv.init(1).secret(); } }\n",
 "private field from outside": M("    let _ = Pt.mk().hid;"),
}

FRAGMENT = {'field access on int': 'incompatible with `nominal type`', 'field access on lambda': 'incompatible with `nominal type`', 'method explicit type-arg arity': 'Type argument arity', 'method value explicit type-arg arity': 'Type argument arity', 'call of int': 'incompatible with `nominal type`', 'call of literal': 'incompatible with `nominal type`', 'irrefutable if-let': 'irrefutable', 'if-let variant on int': 'not an instance of an enum class', 'if-let object on int': 'not an instance of a struct class', 'match nested object/or on non-enum': 'not an instance of an enum class', 'tuple pattern too many': 'Cannot access member of', 'tuple pattern too few': 'does not bind all fields', 'tuple pattern on struct too many': 'Cannot access member of', 'object pattern on int': 'not an instance of a struct class', 'object pattern private field': 'Cannot resolve member `hid`', 'object pattern unknown field': 'Cannot resolve member `zz`', 'object pattern missing field': 'does not bind all fields', 'variant pattern surplus': 'Cannot access member of', 'variant pattern too few': 'does not bind all fields', 'or-pattern binding type mismatch': 'is incompatible with', 'or-pattern binding names differ': 'must bind the same variables', 'non-exhaustive let': 'not exhaustive', 'non-exhaustive match': 'not exhaustive', 'conformance: type param arity': 'Type parameter arity', 'conformance: type param name': 'Type parameter name mismatch', 'conformance: bound missing': 'Type parameter name mismatch', 'conformance: bound extra': 'Type parameter name mismatch', 'conformance: bound differs': 'Type parameter name mismatch', 'conformance: signature differs': 'is incompatible with', 'cyclic interfaces': 'cyclic definition', 'cyclic self': 'cyclic definition', 'class extends class': 'is incompatible with', 'function in interface': 'not allowed in interfaces', 'private implements public': '`private member` is incompatible', 'missing member': 'must be implemented', 'nominal type-arg arity': 'is incompatible with', 'fn param arity': 'is incompatible with', 'fn vs int': 'is incompatible with', 'nominal vs fn': 'is incompatible with', 'nested targ mismatch': 'is incompatible with', 'underconstrained': 'not enough context', 'underconstrained lambda': 'not enough context', 'interface as value type': 'Cannot resolve class', 'unknown class': 'Cannot resolve class `Nope`', 'unknown member': 'Cannot resolve member `nope`', 'unknown method': 'Cannot resolve member `nope`', 'unknown name': 'Cannot resolve name', 'if branch mismatch': 'is incompatible with', 'match arm mismatch': 'is incompatible with', 'arg count': '', 'arg type': 'is incompatible with', 'binary operand': 'is incompatible with', 'condition not bool': 'incompatible with `bool`', 'name collision': 'collides', 'private method from outside': 'Cannot resolve member `secret`', 'private field from outside': 'Cannot resolve member `hid`'}

ACCEPT = {}

for n in range(2, 17):
    vals = ", ".join(str(i) for i in range(1, n + 1))
    names = ", ".join(f"a{i}" for i in range(n))
    ACCEPT[f"tuple of {n}"] = ("import { Pair } from std.tuples;\n" if False else "") + M(f"    let t = ({vals});\n    let ({names}) = t;\n    let _ = Process.println(Str.fromInt({' + '.join(f'a{i}' for i in range(n))}));"), [str(n*(n+1)//2)]
ACCEPT["if-else-if chain as generic argument"] = M("    let b = \"1\".toInt() == 1;\n    let _ = Process.println(Str.fromInt(Main.id(if b { 1 } else if !b { 2 } else { 3 })));"), ["1"]
ACCEPT["match as generic argument"] = M("    let o = Opt.Yes(\"5\".toInt());\n    let _ = Process.println(Str.fromInt(Main.id(match o { Yes(v) -> v, No -> 0 })));\n    let _ = Process.println(Main.id(match o { Yes(_) -> \"y\", No -> \"n\" }));"), ["5","y"]
ACCEPT["if-let with complete root signature, refutable below"] = M("    let w = W2.Only(Opt.Yes(3));\n    let v = W2.Only(Opt.No());\n    let _ = Process.println(Str.fromInt(if let Only(Yes(n)) = w { n } else { 0 }));\n    let _ = Process.println(Str.fromInt(if let Only(Yes(n)) = v { n } else { 0 }));", extra="class W2(Only(Opt)) {}\n"), ["3","0"]
ACCEPT["or-pattern nested in a later alternative"] = M("    let a = Out.A(1);\n    let b = Out.B(In.D(7));\n    let _ = Process.println(Str.fromInt(Main.f(a) + Main.f(b) + Main.f(Out.B(In.C(2)))));", extra="class In(C(int), D(int)) {}\nclass Out(A(int), B(In)) {}\n").replace("  function <T> id(x: T): T = x\n","  function <T> id(x: T): T = x\n  function f(o: Out): int = match o { A(x) | B(C(x) | D(x)) -> x }\n"), ["10"]
ACCEPT["struct with payload-free variant fields"] = M("    let s = Holder.init(Opt.No(), 3, Opt.Yes(4));\n    let p = match s.a { No -> s.n, Yes(k) -> k };\n    let q = match s.b { No -> 0, Yes(k) -> k };\n    let _ = Process.println(Str.fromInt(p + q));", extra="class Holder(val a: Opt, val n: int, val b: Opt) {}\n"), ["7"]
ACCEPT["panic in statement position, not taken"] = M("    let b = \"1\".toInt() == 2;\n    let _ = if b { Process.panic<unit>(\"boom\") } else { Process.println(\"fine\") };\n    let _ = Main.check(b);").replace("  function main","  function check(b: bool): unit = if b { let _ = Process.panic<int>(\"x\"); } else { }\n  function main"), ["fine"]
ACCEPT["unit tail-recursive loop"] = M("    let _ = Main.loop(0);").replace("  function main","  function loop(i: int): unit = if i > 2 { } else { let _ = Process.println(Str.fromInt(i)); Main.loop(i + 1) }\n  function main"), ["0","1","2"]
ACCEPT["reference inequality"] = M("    let a = \"x\";\n    let b = \"y\" :: \"\";\n    let _ = Process.println(if a != b { \"ne\" } else { \"eq\" });\n    let _ = Process.println(if a == a { \"eq\" } else { \"ne\" });"), ["ne","eq"]
ACCEPT["generic field access with explicit constructor type args"] = M("    let _ = Process.println(Str.fromInt(Bx.init<int>(4).c + Bx.init(5).get()));"), ["9"]

for _k in ("tuple pattern too many", "tuple pattern too few"):
    REJECT.pop(_k)      # without std.tuples the tuple types themselves do not resolve: see REJECT_STD

# extra rejects that need std (tuple classes) or the if-let irrefutability loop over a complete signature
REJECT_STD = {
 "tuple pattern too many": M("    let (a, b, c) = (1, 2);"),
 "tuple pattern too few": M("    let (a, b) = (1, 2, 3);"),
 "irrefutable if-let over a complete signature": M("    let o = Opt.Yes(1);\n    let _ = if let Yes(_) | No = o { 1 } else { 2 };"),
 "irrefutable if-let, single variant": M("    let w = W.Only(Pt.mk());\n    let _ = if let Only(_) = w { 1 } else { 2 };"),
 "class extends class": PRE+"class Sub(val a: int) : Sq {}\nclass Main { function main(): unit = {} }\n",
}
FRAGMENT.update({"irrefutable if-let over a complete signature": "irrefutable", "irrefutable if-let, single variant": "irrefutable"})


# ---- second batch (round 5): inference through type_meet, hinted function values, callee fields
GEN = ("  function <T> two(a: T, b: T): T = a\n  function <T> inBox(a: T, b: Bx<T>): T = a\n  function <T> app(f: (T) -> T, x: T): T = f(x)\n"
       "  function <A, B> k(a: A, f: (A) -> B): B = f(a)\n  function <T> none(): int = 7\n  function <T: HasArea> ar(x: T): int = x.area()\n")
def MG(body, extra=""):
    return M(body, extra).replace("  function <T> id(x: T): T = x\n", "  function <T> id(x: T): T = x\n"+GEN)
for _k, (_src, _frag) in {
 "inference: two arguments disagree": (MG("    let _ = Main.two(1, \"s\");"), "is incompatible with"),
 "inference: nested type argument disagrees": (MG("    let _ = Main.inBox(1, Bx.init(\"s\"));"), "is incompatible with"),
 "inference: lambda arity": (MG("    let _ = Main.app((a: int, b: int) -> a, 1);"), "is incompatible with"),
 "inference: int where function expected": (MG("    let _ = Main.app(3, 1);"), "is incompatible with"),
 "inference: nominal where function expected": (MG("    let _ = Main.app(Sq.init(1), 1);"), "is incompatible with"),
 "hinted function value: return type": (MG("    let f: (int) -> Str = Main.id;"), "is incompatible with"),
 "hinted function value: arity": (MG("    let f: (int, int) -> int = Main.id;"), "is incompatible with"),
 "hinted function value: not a function": (MG("    let f: int = Main.id;"), "is incompatible with"),
 "interface as type argument of a value": (MG("    let b: Bx<HasArea> = Bx.init(Sq.init(1));"), ""),
 "interface type for a local": (MG("    let h: HasArea = Sq.init(1);"), ""),
 "tuple pattern over a private field": (MG("    let (a, b, c) = Pt.mk();"), "Cannot access member of"),
 "field used as callee with wrong arguments": (MG("    let b = Bx.init((x: int) -> x + 1);\n    let _ = b.c(\"s\");"), "is incompatible with"),
 "bound violated through inference": (MG("    let _ = Main.ar(3);"), "is not a subtype of"),
 "match argument bodies disagree": (MG("    let _ = Main.two(match Opt.No() { No -> 1, Yes(_) -> 2 }, match Opt.No() { No -> \"a\", Yes(_) -> \"b\" });"), "is incompatible with"),
}.items():
    REJECT_STD[_k] = _src
    FRAGMENT[_k] = _frag
for _k, (_src, _exp) in {
 "inference through a lambda hint": (MG("    let _ = Process.println(Str.fromInt(Main.k(1, (x) -> x + 1)));\n    let _ = Process.println(Main.k(2, (x) -> Str.fromInt(x * 2)));"), ["2","4"]),
 "hinted function values": (MG("    let f: (int) -> int = Main.id;\n    let g: (Str) -> Str = Main.id;\n    let _ = Process.println(Str.fromInt(f(4)) :: g(\"!\"));"), ["4!"]),
 "unsolved type parameter of a hinted value": (MG("    let f: () -> int = Main.none;\n    let _ = Process.println(Str.fromInt(f()));"), None),
 "field used as callee": (MG("    let b = Bx.init((x: int) -> x + 1);\n    let _ = Process.println(Str.fromInt(b.c(4)));"), ["5"]),
 "match and lambda as generic arguments": (MG("    let o = Opt.Yes(3);\n    let _ = Process.println(Str.fromInt(Main.app(match o { Yes(_) -> (x: int) -> x * 2, No -> (x: int) -> x }, 5)));"), ["10"]),
 "interface-bounded generic through inference": (MG("    let _ = Process.println(Str.fromInt(Main.ar(Sq.init(3))));"), ["9"]),
}.items():
    if _exp is not None:
        ACCEPT[_k] = (_src, _exp)

# former C03-F9 (fixed a0e8e71): a method of a GENERIC class used as a function value
ACCEPT["method of a generic class as a value"] = (
    "class Box<T>(val v: T) {\n  method get(): T = this.v\n  method add(x: T): T = x\n  method <R> map(f: (T) -> R): R = f(this.v)\n}\n"
    "class Main {\n  function main(): unit = {\n    let g = Box.init(41).get;\n    let a = Box.init(1).add;\n"
    "    let m: ((int) -> Str) -> Str = Box.init(5).map;\n    let s = Box.init(\"s\").get;\n"
    "    let _ = Process.println(Str.fromInt(g() + a(2)) :: m((x) -> Str.fromInt(x * 2)) :: s());\n  }\n}\n", ["4310s"])
# C03-F10 (open): a generic function as a value under a hint that leaves a type parameter unsolved
KNOWN_PROBES = {
    "C03-F10": "class Foo {\n  function <T> bar(x: int): int = x\n}\nclass Main {\n  function main(): unit = {\n    let f: (int) -> int = Foo.bar;\n    let _ = Process.println(Str.fromInt(f(3)));\n  }\n}\n",
}


# ---- sole references (round e): a global entity whose ONLY reference sits in one syntactic position
def sole_reference_programs():
    """entity kinds x positions; every program prints a value that depends on the entity, so dropping
    the entity (string global, function, class/type, variant, generic instance) changes or breaks it."""
    out = {}
    kinds = {
        # kind: (type, E, D, show(x), expected show(E), expected show(D), declarations)
        "string literal": ("Str", '"uniqE"', '"uniqD"', "{x}", "uniqE", "uniqD", ""),
        "function value": ("(int) -> int", "Main.hE", "Main.hD", "Str.fromInt({x}(1))", "12", "22",
                           "  function hE(x: int): int = x + 11\n  function hD(x: int): int = x + 21\n"),
        "lambda": ("(int) -> int", "(q: int) -> q * 13", "(q: int) -> q * 17", "Str.fromInt({x}(1))", "13", "17", ""),
        "variant constructor": ("En", "En.VE(5)", "En.VD(6)", "Str.fromInt(Main.code({x}))", "105", "206",
                                "  function code(e: En): int = match e { VE(n) -> 100 + n, VD(n) -> 200 + n, VN -> 0 }\n"),
        "class": ("int", "OnlyE.init(31).v", "OnlyD.init(32).w", "Str.fromInt({x})", "31", "32", ""),
        "generic instance": ("int", "Bx.init(OnlyE.init(33)).get().v", "Bx.init(OnlyD.init(34)).get().w", "Str.fromInt({x})", "33", "34", ""),
    }
    classes = ("class En(VE(int), VD(int), VN) {}\nclass OnlyE(val v: int) {}\nclass OnlyD(val w: int) {}\n"
               "class Bx<T>(val c: T) {\n  method get(): T = this.c\n}\nclass Opt(No, Yes(int)) {}\n")
    for kind, (T, E, D, show, sE, sD, decls) in kinds.items():
        sh = lambda x: show.replace("{x}", x)
        positions = {
            "tail-call argument (loop value)": (f"  function lp(n: int, x: {T}): {T} = if n == 0 {{ x }} else {{ Main.lp(n - 1, {E}) }}\n",
                                                f"    let r = Main.lp(k, {D});\n    let z = Main.lp(k - 3, {D});", [sE, sD], "r", "z"),
            "loop initial value": (f"  function lp(n: int, x: {T}): {T} = if n == 0 {{ x }} else {{ Main.lp(n - 1, x) }}\n",
                                   f"    let r = Main.lp(k, {E});\n    let z = Main.lp(k, {D});", [sE, sD], "r", "z"),
            "loop exit value": (f"  function lp(n: int, x: {T}): {T} = if n == 0 {{ {E} }} else {{ Main.lp(n - 1, x) }}\n",
                                f"    let r = Main.lp(k, {D});\n    let z = {D};", [sE, sD], "r", "z"),
            "if branch result": ("", f"    let r = if k == 3 {{ {E} }} else {{ {D} }};\n    let z = if k == 4 {{ {E} }} else {{ {D} }};", [sE, sD], "r", "z"),
            "match arm result": ("", f"    let r = match Opt.Yes(k) {{ Yes(_) -> {E}, No -> {D} }};\n    let z = match Main.none(k) {{ Yes(_) -> {E}, No -> {D} }};", [sE, sD], "r", "z"),
            "lambda body": ("", f"    let f = () -> {E};\n    let g = () -> {D};\n    let r = f();\n    let z = g();", [sE, sD], "r", "z"),
            "closure capture": ("", f"    let c = {E};\n    let d = {D};\n    let f = (u: int) -> if u == 3 {{ c }} else {{ d }};\n    let r = f(k);\n    let z = f(k + 1);", [sE, sD], "r", "z"),
            "struct field": ("", f"    let r = Bx.init({E}).get();\n    let z = Bx.init({D}).c;", [sE, sD], "r", "z"),
            "argument of an inlined callee": (f"  function <A> pass(x: A): A = x\n", f"    let r = Main.pass({E});\n    let z = Main.pass(Main.pass({D}));", [sE, sD], "r", "z"),
            "return value": (f"  function ret(): {T} = {E}\n  function ret2(b: bool): {T} = if b {{ {D} }} else {{ Main.ret() }}\n", "    let r = Main.ret();\n    let z = Main.ret2(k == 3);", [sE, sD], "r", "z"),
        }
        for pos, (fdecl, body, exp, r, z) in positions.items():
            src = (classes + "class Main {\n" + decls + fdecl + "  function none(k: int): Opt = if k == 99 { Opt.Yes(k) } else { Opt.No() }\n"
                   "  function main(): unit = {\n    let k = \"3\".toInt();\n" + body +
                   f"\n    let _ = Process.println({sh(r)});\n    let _ = Process.println({sh(z)});\n  }}\n}}\n")
            out[f"sole reference to a {kind} in the {pos}"] = (src, exp)
    return out


ACCEPT.update(sole_reference_programs())


# ---- third batch (round 5): remaining reachable arms
_GB = "class Gb<A, B: HasArea>(val a: A, val b: B) {\n  method total(): int = this.b.area()\n}\nclass Blob(val name: Str) {}\n"
REJECT_STD["tuple pattern on int"] = M("    let (a, b) = 1;")
FRAGMENT["tuple pattern on int"] = "not an instance of a struct class"
REJECT_STD["bound violated in a parameter annotation"] = M("    let _ = 1;", extra=_GB).replace("  function main", "  function take(x: Gb<int, Blob>): int = 1\n  function main")
FRAGMENT["bound violated in a parameter annotation"] = "is not a subtype of"
REJECT_STD["bound violated in a local annotation"] = M("    let g: Gb<Str, int> = Gb.init(\"s\", Sq.init(2));", extra=_GB)
FRAGMENT["bound violated in a local annotation"] = "is not a subtype of"
REJECT_STD["bound violated in a nested annotation"] = M("    let _ = 1;", extra=_GB).replace("  function main", "  function take(x: Bx<Gb<int, Blob>>): int = 1\n  function main")
FRAGMENT["bound violated in a nested annotation"] = "is not a subtype of"
ACCEPT["bounded class in annotations"] = (M("    let g: Gb<Str, Sq> = Gb.init(\"s\", Sq.init(3));\n    let _ = Process.println(Str.fromInt(Main.take(g)));", extra=_GB)
                                          .replace("  function main", "  function take(x: Gb<Str, Sq>): int = x.total()\n  function main"), ["9"])
ACCEPT["Vec of an enum with payload-free variants"] = (M(
    "    let v = Vec.of(Opt.No());\n    let _ = v.push(Opt.Yes(4));\n    let a = match v.get(1) { Yes(n) -> n, No -> 0 };\n"
    "    let b = match v.get(0) { Yes(n) -> n, No -> 7 };\n    let c = match v.pop() { Yes(n) -> n, No -> 0 };\n"
    "    let _ = Process.println(Str.fromInt(a * 100 + b * 10 + c));"), ["474"])


# ---- method used as a function VALUE x what its body does with `this` / its parameters (former C03-F11)
def method_value_programs():
    out = {}
    bodies = {
        # kind: (method declaration inside class Acc, use of the value `h`, expected line)
        "plain": ("method plus(x: int): int = x + this.base", "Acc.init(7).plus", "Str.fromInt(h(1))", "8"),
        "closure capturing this": ("method adder(): (int) -> int = (x) -> x + this.base", "Acc.init(7).adder", "Str.fromInt(h()(1))", "8"),
        "closure capturing a parameter": ("method scaled(k: int): (int) -> int = (x) -> x * k", "Acc.init(7).scaled", "Str.fromInt(h(3)(5))", "15"),
        "closure capturing this and a parameter": ("method both(k: int): (int) -> int = (x) -> x * k + this.base", "Acc.init(7).both", "Str.fromInt(h(3)(5))", "22"),
        "nested lambda": ("method deep(): (int) -> (int) -> int = (a) -> (b) -> a + b + this.base", "Acc.init(7).deep", "Str.fromInt(h()(1)(2))", "10"),
        "returns this": ("method me(): Acc = this", "Acc.init(7).me", "Str.fromInt(h().base)", "7"),
        "stores this in a struct": ("method wrap(): Hold = Hold.init(this, 1)", "Acc.init(7).wrap", "Str.fromInt(h().a.base + h().n)", "8"),
        "passes this to a function": ("method viaStatic(): int = Acc.get(this)", "Acc.init(7).viaStatic", "Str.fromInt(h())", "7"),
        "this in both branches of an if": ("method pick(o: Acc, b: bool): Acc = if b { this } else { o }", "Acc.init(7).pick", "Str.fromInt(h(Acc.init(9), true).base + h(Acc.init(9), false).base)", "16"),
        "this as a loop value": ("method walk(n: int, cur: Acc): Acc = if n == 0 { cur } else { this.walk(n - 1, this) }", "Acc.init(7).walk", "Str.fromInt(h(k, Acc.init(1)).base)", "7"),
        "this passed to a closure call": ("method app(f: (Acc) -> int): int = f(this)", "Acc.init(7).app", "Str.fromInt(h((a) -> a.base * 2))", "14"),
        "this in a variant payload": ("method some(): OptA = OptA.Yes(this)", "Acc.init(7).some", "Str.fromInt(match h() { Yes(a) -> a.base, No -> 0 })", "7"),
    }
    for kind, (decl, ref, show, exp) in bodies.items():
        for style in ("let", "argument", "if"):
            if style == "let":
                body = f"    let h = {ref};\n    let _ = Process.println({show});"
            elif style == "argument":
                body = f"    let h = Main.id({ref});\n    let _ = Process.println({show});"
            else:
                body = f"    let h = if k == 3 {{ {ref} }} else {{ {ref} }};\n    let _ = Process.println({show});"
            src = ("class Acc(val base: int) {\n  function get(a: Acc): int = a.base\n  " + decl + "\n}\n"
                   "class Hold(val a: Acc, val n: int) {}\nclass OptA(No, Yes(Acc)) {}\n"
                   "class Main {\n  function <T> id(x: T): T = x\n  function main(): unit = {\n    let k = \"3\".toInt();\n" + body + "\n  }\n}\n")
            out[f"method as a value ({style}), body: {kind}"] = (src, [exp])
    # the same for a method of a generic class and of an enum class (erased receiver)
    out["method of a generic class as a value, closure capturing this"] = (
        "class Box<T>(val v: T) {\n  method getter(): () -> T = () -> this.v\n  method me(): Box<T> = this\n}\n"
        "class Main {\n  function main(): unit = {\n    let g = Box.init(41).getter;\n    let m = Box.init(\"s\").me;\n"
        "    let _ = Process.println(Str.fromInt(g()()) :: m().v);\n  }\n}\n", ["41s"])
    out["method of an enum class as a value, body uses this"] = (
        "class En(A, B(int)) {\n  method code(): int = match this { A -> 1, B(n) -> n }\n  method me(): En = this\n  method later(): () -> int = () -> this.code()\n}\n"
        "class Main {\n  function main(): unit = {\n    let c = En.B(5).code;\n    let m = En.A().me;\n    let l = En.B(6).later;\n"
        "    let _ = Process.println(Str.fromInt(c() * 100 + m().code() * 10 + l()()));\n  }\n}\n", ["516"])
    return out


ACCEPT.update(method_value_programs())


# ---- self-recursive functions whose recursive call passes a PERMUTATION of their parameters (round f)
def permutation_recursion_programs(full=False):
    """k in {2,3,4} extra parameters; the self-call passes a permutation of them (all k! for k <= 3,
    rotations and transpositions for 4); every parameter is either used in the base case or used
    nowhere but in the self-call (forwarded, possibly into ANOTHER slot); types int / Str / class / enum /
    closure; tail and non-tail recursion; depth 3 at run time.  A parameter is removable only if every
    self-call passes it in its OWN slot: expected output = the permutation applied 3 times to the
    initial arguments, shown at the used positions.  quick: types and tail/non-tail cycle over the
    (k, permutation, used-mask) combinations; full (thorough): the whole product."""
    import itertools
    types = {
        "int": ("int", ["11", "22", "33", "44"], "Str.fromInt({x})", ["11", "22", "33", "44"]),
        "Str": ("Str", ['"a"', '"b"', '"c"', '"d"'], "{x}", ["a", "b", "c", "d"]),
        "class": ("Pt", ["Pt.init(1)", "Pt.init(2)", "Pt.init(3)", "Pt.init(4)"], "Str.fromInt({x}.v)", ["1", "2", "3", "4"]),
        "enum": ("En", ["En.A()", "En.B(2)", "En.B(3)", "En.C(4)"], "Main.sh({x})", ["A", "B2", "B3", "C4"]),
        "closure": ("(int) -> int", ["(q: int) -> q + 1", "(q: int) -> q + 2", "(q: int) -> q * 5", "(q: int) -> q * 7"],
                    "Str.fromInt({x}(1))", ["2", "3", "5", "7"]),
    }
    tnames = list(types)
    out = {}
    idx = 0
    for k in (2, 3, 4):
        if k <= 3:
            perms = list(itertools.permutations(range(k)))
        else:
            perms = [tuple((i + r) % 4 for i in range(4)) for r in range(4)]
            for a in range(4):
                for b in range(a + 1, 4):
                    pm = list(range(4)); pm[a], pm[b] = pm[b], pm[a]; perms.append(tuple(pm))
        for perm in perms:
            for mask in range(1 << k):
                combos = [(t, tail) for t in tnames for tail in (True, False)] if full else \
                    [(tnames[idx % 5], idx % 2 == 0)]
                idx += 1
                for tn, tail in combos:
                    T, vals, show, shown = types[tn]
                    used = [i for i in range(k) if (mask >> i) & 1]
                    params = ", ".join(f"p{i}: {T}" for i in range(k))
                    base = " :: \",\" :: ".join(show.replace("{x}", f"p{i}") for i in used) if used else '"z"'
                    # slot j of the self-call receives parameter perm[j]
                    rec = "Main.rot(n - 1, " + ", ".join(f"p{perm[j]}" for j in range(k)) + ")"
                    step = rec if tail else rec + ' :: "!"'
                    body = f"if n == 0 {{ {base} }} else {{ {step} }}"
                    # reference semantics: after one step slot j holds the old value of slot perm[j]
                    cur = list(range(k))
                    for _ in range(3):
                        cur = [cur[perm[j]] for j in range(k)]
                    exp = (",".join(shown[cur[i]] for i in used) if used else "z") + ("" if tail else "!!!")
                    src = ("class Pt(val v: int) {}\nclass En(A, B(int), C(int)) {}\nclass Main {\n"
                           "  function sh(e: En): Str = match e { A -> \"A\", B(n) -> \"B\" :: Str.fromInt(n), C(n) -> \"C\" :: Str.fromInt(n) }\n"
                           f"  function rot(n: int, {params}): Str = {body}\n"
                           "  function main(): unit = {\n    let d = \"3\".toInt();\n"
                           f"    let _ = Process.println(Main.rot(d, {', '.join(vals[:k])}));\n  }}\n}}\n")
                    out[f"self-call passing permutation {perm} of {k} {tn} parameters, used in the base case: {used}, {'tail' if tail else 'non-tail'}"] = (src, [exp])
    return out


ACCEPT.update(permutation_recursion_programs())
