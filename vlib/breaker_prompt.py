#!/usr/bin/env python3
"""Prints the prompt given to an independent 'breaker' sub-agent for one property.
Only the property's text is included -- nothing else from /verif."""
import json, sys
pid = sys.argv[1]
variant = sys.argv[2] if len(sys.argv) > 2 else "a"
for l in open('/verif/properties.jsonl'):
    p = json.loads(l)
    if p['id'] == pid:
        break
else:
    sys.exit("no such property")
wt = f"/tmp/wt-{pid}{'' if variant=='a' else variant}"
out = f"/tmp/seeds/{pid}{'' if variant=='a' else variant}"
print(f"""You are helping to evaluate a verification framework by acting as an independent "fault seeder".
You work ONLY inside the scratch git worktree {wt} (a checkout of the Rust project SamChou19815/samlang: a compiler + LSP for a typed functional/OO language). Do NOT read or touch /verif or /repo (the main checkout); do not read /root/.claude. Everything you write goes into {wt} (code change) and {out}/ (your deliverables; create it).

Property (of the unmodified project) that your change must BREAK:

  Title: {p['title']}
  Statement: {p['statement']}
  Quantifier: {p['quantifier']['text']}
  Code the property is anchored in: {', '.join(p['anchors']['files'])}
  Mechanisms: {'; '.join(m['name'] + ' (' + m.get('where','') + ')' for m in p['anchors']['mechanism'])}

Task: make ONE small, realistic source change (the kind of slip a maintainer could make in a refactor or "optimisation": an off-by-one, a dropped case, a wrong comparison operator, a swapped argument, a missing invalidation, a stale cache, two cooperating sites that each look fine alone...) to the Rust/.sam sources in {wt} such that
  1. the workspace still compiles:  cd {wt} && cargo build --workspace --offline
  2. the existing test suite still passes completely:  cd {wt} && cargo test --workspace --no-fail-fast --offline   (367 tests; all must pass, and you must not edit/delete any existing test or golden snapshot)
  3. the property above is now violated -- but only in a situation that needs something specific to manifest (a particular unusual input, a multi-step sequence of operations, a particular boundary value, a particular interleaving or history), NOT something ordinary use would expose at once.
  4. you provide a demonstration that FAILS with your change and PASSES without it: preferably a new standalone Rust test file or small program (e.g. a new file under the affected crate's tests/ directory or a tiny extra crate/binary using path dependencies, or a .sam program plus the exact samlang-cli command and expected vs. actual output). The demonstration is NOT part of the change itself.

Constraints: the sandbox is offline (always pass --offline to cargo; never try to fetch anything). Node 22 for running compiled output is at /root/.nvm/versions/node/v22.22.2/bin/node (the default `node` is too old for the emitted WasmGC); `samlang-cli compile` run in a directory with sconfig.json writes ./out/<entry>.wasm.js and ./out/<entry>.ts . Keep the change small (a few lines) and plausible; do not add cfg flags, feature gates, randomness, environment checks or input special-casing like `if name == "magic"`. Do not commit.

Deliverables in {out}/ :
  - patch.diff : output of `git -C {wt} diff` containing ONLY the fault (not the demonstration files)
  - demo/ : the demonstration files, plus run.sh -- a script that takes the path of a checkout as $1, copies/uses the demo there, and exits 0 if the property holds on that checkout and non-zero if it is violated (so: non-zero on your patched worktree, 0 on a clean one)
  - notes.md : what you changed, why the existing tests do not notice, exactly what is needed for the violation to manifest, and the commands you ran with their results (build, full test suite, demo with and without the change).
Before finishing, verify all four points yourself by actually running the commands (with the change: build ok, tests all pass, demo fails; without the change: demo passes), then restore your change in the worktree. To test without the change do NOT use `git stash` (the stash is shared with other worktrees that other people are using right now): save `git diff > {out}/patch.diff`, run `git checkout -- .`, test, then `git apply {out}/patch.diff`. Report briefly what you did.""")
