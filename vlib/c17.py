"""C17 — string-interning heap.  Proof: lean/SamVerif/Props/C17.lean over Model/Heap.lean.
Tie: `heapops` correspondence (real samlang_heap::Heap vs the Lean model, line by line) plus an
implementation-side property oracle that does not use the model."""
import json, os
from . import common
from .common import hexs, unhex

WORDS = ["a", "ab", "x", "std", "tuples", "DUMMY", "é", "日本", "", "_t0", "_t1", "a-b", "-", "my-lib-name-with-dashes", "std-x"]


def gen_string(rng, pool):
    if pool and rng.chance(55, 100):
        return rng.pick(pool)
    kind = rng.below(10)
    if kind < 3:      # boundary lengths in bytes
        n = rng.pick([14, 15, 16, 17])
        s = bytes(rng.range(97, 122) for _ in range(n)).decode()
    elif kind < 5:    # multi-byte UTF-8 ending exactly at / across the 15-byte boundary
        base = "".join(rng.pick(["é", "日", "𝔸", "ß", "a", "Z"]) for _ in range(rng.range(3, 9)))
        s = base
        while len(s.encode()) < rng.pick([13, 14, 15, 16, 18]):
            s += rng.pick(["a", "é", "日"])
    elif kind < 6:
        s = rng.pick(WORDS)
    elif kind < 7:    # NUL bytes: trailing (the inline form pads with zeros), leading, interior
        base = rng.pick(["", "a", "ab", "abcdefghijklm", "abcdefghijklmn", "abcdefghijklmno", "é"])
        s = rng.pick([base + "\0" * rng.range(1, 3), "\0" + base, base[:1] + "\0" + base[1:], "\0" * rng.range(1, 16)])
    else:
        n = rng.range(0, 40)
        s = "".join(chr(rng.range(97, 102)) for _ in range(n))
    pool.append(s)
    return s


def gen_history(rng, nops):
    lines = ["reset"]
    pool, hs = [], []
    nmods = 3
    nh = 0
    for _ in range(nops):
        op = rng.weighted([("as", 24), ("st", 7), ("at", 3), ("am", 8), ("ams", 3), ("gm", 3), ("au", 6),
                           ("pop", 6), ("mk", 12), ("sw", 11), ("rd", 14), ("mp", 5), ("stat", 2),
                           ("du", 2), ("cmp", 8), ("tc", 1), ("tca", 3), ("tcs", 1)])
        if op in ("as", "st"):
            v = f"h{nh}"; nh += 1; hs.append(v)
            lines.append(f"{op} {v} {hexs(gen_string(rng, pool))}")
            lines.append(f"rd {v}")
        elif op == "at":
            v = f"h{nh}"; nh += 1; hs.append(v)
            lines.append(f"at {v}")
        elif op in ("tc", "tcs"):
            lines.append(op)
        elif op == "tca":
            v = f"h{nh}"; nh += 1; hs.append(v)
            lines.append(f"tca {v}")
        elif op == "am" and hs:
            k = rng.range(0, 3)
            parts = [rng.pick(hs) for _ in range(k)]
            lines += [f"rd {v}" for v in parts]   # lets the oracle know which parts are live now
            lines.append(("am " + " ".join(parts)).strip())
            nmods += 1
        elif op in ("ams", "gm"):
            k = rng.range(0, 3)
            lines.append((op + " " + " ".join(hexs(gen_string(rng, pool)) for _ in range(k))).strip())
            nmods += 1
        elif op == "au":
            lines.append(f"au {rng.below(nmods + 1)}")
        elif op == "pop":
            lines.append("pop")
        elif op == "mk" and hs:
            v = rng.pick(hs)
            if rng.chance(3, 4):
                lines.append(f"rd {v}")   # lets the oracle know whether the mark hits a live string
            lines.append(f"mk {v}")
        elif op == "sw":
            lines.append("stat")      # tells the oracle the table length: sweep windows become exact
            lines.append(f"sw {rng.pick([0, 1, 1, 2, 3, 5, 10, 64, 10000, 4294967295])}")
        elif op == "rd" and hs:
            lines.append(f"rd {rng.pick(hs)}")
        elif op == "mp":
            lines.append(f"mp {rng.below(nmods + 1)}")
        elif op in ("stat", "du"):
            lines.append(op)
        elif op == "cmp" and len(hs) >= 1:
            a, b = rng.pick(hs), rng.pick(hs)
            lines += [f"rd {a}", f"rd {b}", f"cmp {a} {b}"]
    lines.append("stat")
    return lines


def cmp_family():
    """Deterministic (seed-independent) comparison family: strings that differ only in how the
    16-byte inline form pads them (trailing NUL bytes), at every length around the inline boundary,
    plus prefix pairs, multi-byte endings and heap-sized strings; every ordered pair is compared
    (Eq, Ord, Hash must tell the same story: ord = 0 exactly when the handles are equal, which is
    exactly when the strings are equal)."""
    strs = ["", "\0", "\0\0", "a", "a\0", "a\0\0", "\0a", "ab", "ab\0", "ab\0\0", "a\0b", "b",
            "abcdefghijklmn", "abcdefghijklmn\0", "abcdefghijklmno", "abcdefghijklmn\0\0", "abcdefghijklmno\0",
            "abcdefghijklmnop", "abcdefghijklmnop\0", "abcdefghijklm\u00e9", "abcdefghijkl\u00e9\0",
            "\0" * 14, "\0" * 15, "\0" * 16, "\u00e9", "\u00e9\0", "\u65e5\u672c", "z" * 15, "z" * 16, "z" * 17]
    lines = ["reset"]
    for i, x in enumerate(strs):
        lines += [f"as c{i} {hexs(x)}", f"rd c{i}"]
    for i in range(len(strs)):
        for j in range(len(strs)):
            lines += [f"cmp c{i} c{j}"]
    # the same after a GC round that keeps half of them (heap ids of survivors unchanged)
    for i in range(0, len(strs), 2):
        lines += [f"mk c{i}"]
    lines += ["sw 10000"]
    for i in range(0, len(strs), 2):
        lines += [f"rd c{i}"]
    for i in range(0, len(strs), 2):
        for j in range(0, len(strs), 2):
            lines += [f"rd c{i}", f"rd c{j}", f"cmp c{i} c{j}"]
    return lines


def cursor_family():
    """Deterministic (seed-independent) sweep-cursor family: N long strings, all marked; a partial
    sweep of k < N slots leaves the cursor in the middle of the table; ONE string (every position:
    behind the cursor, at it, ahead of it) is marked again; then slices of u slots run through two
    full cycles, reading every handle after each slice.  A mark is a mark wherever the cursor stands:
    the re-marked string must survive the pass that reclaims its neighbours (clause "marked since the
    sweeper last passed over it", for work units smaller than the table)."""
    lines = []
    for n in (2, 3, 4, 5):
        for k in range(1, n):
            for tgt in range(n):
                for u in (1, 2, 3):
                    names = [f"k{i}" for i in range(n)]
                    lines.append("reset")
                    for i, v in enumerate(names):
                        lines += [f"as {v} {hexs('cursor-family-string-%02d-%s' % (i, 'x' * i))}", f"rd {v}"]
                    for v in names:
                        lines += [f"rd {v}", f"mk {v}"]
                    lines += ["stat", f"sw {k}"]
                    lines += [f"rd {names[tgt]}", f"mk {names[tgt]}"]
                    for _ in range((2 * n) // u + 3):
                        lines += ["stat", f"sw {u}"] + [f"rd {v}" for v in names]
                    lines += [f"as r{tgt} {hexs('cursor-family-string-%02d-%s' % (tgt, 'x' * tgt))}", f"rd r{tgt}", "stat"]
    return lines


def resolve(lines, impl):
    out = []
    for i, l in enumerate(lines):
        if l == "pop":
            ans = impl[i] if i < len(impl) else "p:none"
            out.append("pop " + (ans[2:] if ans.startswith("p:") else "none"))
        else:
            out.append(l)
    return out


def oracle(lines, impl):
    """Implementation-side check of the property itself (no model). Returns list of (index, msg)."""
    bad = []
    src, hid, readable, protected, dead_ids = {}, {}, {}, set(), set()
    last_mark, created, eff_sweeps = {}, {}, []
    unmarked = set()
    last_read = {}
    # precise sweep-window tracking (when the table length is known from a `stat` answer and no
    # untracked allocation happened since): which slots each incremental sweep slice passes over
    tlen, sidx, pass_log, imprecise = 0, 0, {}, []
    for i, l in enumerate(lines):
        t = l.split(" ")
        a = impl[i] if i < len(impl) else "<missing>"
        op = t[0]
        if op == "reset":
            src, hid, readable, protected, dead_ids = {}, {}, {}, set(), set()
            last_mark, created, eff_sweeps, unmarked = {}, {}, [], set()
            tlen, sidx, pass_log, imprecise = 0, 0, {}, []
        elif op in ("as", "st", "am", "ams") and a == "panic":
            bad.append((i, f"{op} panicked inside the heap (an internal `expect`/index failed: the intern tables and the slot table disagree)"))
        elif op in ("as", "st"):
            v = t[1]; src[v] = unhex(t[2]); created[v] = i; last_mark.pop(v, None)
            hid[v] = a
            if a.startswith("r:") and tlen is not None:
                tlen = max(tlen, int(a[2:]) + 1)
            if a.startswith("r:") and int(a[2:]) in dead_ids:
                bad.append((i, f"re-allocation returned the reclaimed handle {a}"))
            if a.startswith("i:") != (len(src[v]) <= 15):
                bad.append((i, f"inline/heap form wrong for a {len(src[v])}-byte string: {a}"))
            if op == "st":
                protected.add(v)
            # same id => inherits protection/mark state of other vars with that id
            for w in list(hid):
                if w != v and hid[w] == a and a.startswith("r:"):
                    if w in protected: protected.add(v)
                    if w in last_mark: last_mark[v] = last_mark[w]
                    created[v] = min(created[v], created.get(w, i))
        elif op in ("at", "tca"):
            if op == "tca":
                tlen = None      # names issued by a TempPStrCounter get their slots only at sync time
            elif a.startswith("r:") and tlen is not None:
                tlen = max(tlen, int(a[2:]) + 1)
            if a != "skip":
                hid[t[1]] = a; src[t[1]] = unhex(a[2:]) if a.startswith("i:") else None
        elif op in ("ams", "gm", "tc", "tcs"):
            tlen = None      # strings / slots allocated without reporting their ids: length unknown until the next `stat`
        elif op == "stat":
            try:
                tlen = int(a.split(" ")[0])
            except ValueError:
                pass
        elif op == "am" and a.startswith("m:"):
            for v in t[1:]:
                # protected only if the read issued just before this op succeeded
                if readable.get(v) is True and all(
                        not (lines[k].startswith("sw ")) for k in range(last_read.get(v, 0), i)):
                    for w in hid:
                        if hid[w] == hid[v]: protected.add(w)
        elif op == "au" and a == "ok":
            unmarked.add(t[1])
        elif op == "pop" and a.startswith("p:") and a != "p:none":
            unmarked.discard(a[2:])
        elif op == "mk" and a == "ok":
            v = t[1]
            # the mark only counts if the string is known to be live now: a successful read (or
            # its creation) with no effective sweep in between
            known_live = max(last_read.get(v, -1) if readable.get(v) else -1, created.get(v, -1) if v not in readable else -1)
            if known_live >= 0 and not any(k > known_live for k in eff_sweeps):
                for w in hid:
                    if hid[w] == hid.get(v): last_mark[w] = i
        elif op == "sw":
            if a != "ok":
                bad.append((i, f"sweep({t[1]}) panicked"))
            elif not unmarked:
                eff_sweeps.append(i)
                w = int(t[1])
                if tlen is None or sidx is None:
                    imprecise.append(i); sidx = None
                else:
                    end = min(sidx + w, tlen)
                    for n in range(sidx, end):
                        pass_log.setdefault(n, []).append(i)
                    sidx = 0 if sidx + w >= tlen else sidx + w
        elif op == "rd" and t[1] in hid:
            v = t[1]
            last_read[v] = i
            if a.startswith("s:"):
                readable[v] = True
                if src.get(v) is not None and unhex(a[2:]) != src[v]:
                    bad.append((i, f"handle {v} reads {a[2:]} but was created from {hexs(src[v])}"))
            elif a == "panic":
                if readable.get(v, True):
                    since = last_mark.get(v, created.get(v, 0))
                    n = sum(1 for k in eff_sweeps if k > since)
                    need = 2 if v in last_mark else 1
                    if v in protected:
                        bad.append((i, f"permanent / module-reference string behind {v} ({hid[v]}) was reclaimed"))
                    elif n < need:
                        bad.append((i, f"{v} ({hid[v]}) reclaimed after only {n} effective sweep(s) since its last mark/creation"))
                    elif hid[v].startswith("r:") and not any(k > since for k in imprecise):
                        # every sweep since the mark had a known window: count the slices that covered THIS slot
                        np_ = sum(1 for k in pass_log.get(int(hid[v][2:]), []) if k > since)
                        if np_ < need:
                            bad.append((i, f"{v} ({hid[v]}) reclaimed although the sweeper passed over its slot only {np_} time(s) since its last mark/creation ({n} sweep slices ran, the others covered other slots)"))
                    if hid[v].startswith("i:"):
                        bad.append((i, f"inline handle {v} unreadable"))
                readable[v] = False
                if hid[v].startswith("r:"):
                    dead_ids.add(int(hid[v][2:]))
        elif op == "cmp" and a.startswith("eq:"):
            x, y = t[1], t[2]
            if "HASH" in a:
                bad.append((i, "equal handles hash differently"))
            mo = a.split(" ")
            if len(mo) >= 2 and mo[1].startswith("ord:") and (mo[1] == "ord:0") != (mo[0] == "eq:1"):
                bad.append((i, f"handles {x},{y}: {mo[0]} but {mo[1]} (Ord and Eq disagree: ordered collections conflate or split them)"))
            if readable.get(x) and readable.get(y) and src.get(x) is not None and src.get(y) is not None:
                eq = a.split(" ")[0] == "eq:1"
                if eq != (src[x] == src[y]):
                    bad.append((i, f"handles {x},{y}: eq={eq} but strings {'equal' if src[x]==src[y] else 'differ'}"))
    return bad


def split_histories(lines):
    hist, cur = [], []
    for l in lines:
        if l == "reset" and cur:
            hist.append(cur); cur = []
        cur.append(l)
    if cur:
        hist.append(cur)
    return hist


def densify(lines):
    """Insert a read of every known handle after every op (search for a property-level failure)."""
    out, hs = [], []
    for l in lines:
        t = l.split(" ")
        if t[0] in ("mk", "am"):
            out += [f"rd {v}" for v in t[1:]]
        if t[0] == "sw" and (not out or out[-1] != "stat"):
            out.append("stat")
        out.append(l)
        if t[0] in ("as", "st", "at", "tca") and t[1] not in hs:
            hs.append(t[1])
        if t[0] != "rd":
            out += [f"rd {v}" for v in hs]
    return out


def probe(lines):
    """Property-directed search (on top of `densify`): after every effective point of the history
    (every sweep, and at the end) re-allocate every string allocated so far under a fresh name, read
    it, compare it with every earlier handle of the same string (and one of a different string), and
    build a module reference from it — the observations the property speaks about (injectivity,
    read-back, re-allocation, module-reference parts), which a random history only makes by chance.
    The oracle judges the implementation's answers only, so any failing probe history is a genuine
    counterexample."""
    out, strs, byname, z = [], [], {}, [0]

    def probes():
        ps = []
        for sx in strs:
            v = f"z{z[0]}"; z[0] += 1
            ps += [f"as {v} {sx}", f"rd {v}"]
            same = [w for w, s2 in byname.items() if s2 == sx]
            other = [w for w, s2 in byname.items() if s2 != sx][:1]
            for w in same + other:
                ps += [f"rd {w}", f"rd {v}", f"cmp {v} {w}"]
            ps += [f"rd {v}", f"am {v}", f"rd {v}"]
            byname[v] = sx
        return ps

    def static_probes():
        # promotion path: every string that is around as a temporary is allocated again as a STATIC
        # string (alloc_str_for_test -> the promote branch), used as a module-reference part, and must
        # then survive two full sweeps
        ps, ys = [], []
        for sx in strs:
            v = f"y{z[0]}"; z[0] += 1
            ps += [f"st {v} {sx}", f"rd {v}", f"am {v}", f"rd {v}"]
            ys.append(v)
        ps += ["stat", "sw 4294967295", "stat", "sw 4294967295"] + [f"rd {v}" for v in ys]
        return ps
    for l in densify(lines):
        t = l.split(" ")
        out.append(l)
        if t[0] in ("as", "st") and len(t) == 3:
            byname[t[1]] = t[2]
            if t[2] not in strs:
                strs.append(t[2])
        if t[0] == "sw":
            out += probes()
    return out + probes() + static_probes()


def check_lines(ctx, lines, label):
    """Run lines through impl + model + oracle; record violations. Returns True if clean."""
    impl, model = common.run_pair("C17", lines, resolve)
    clean = True
    orc = oracle(lines, impl)
    d = common.first_diff(impl, model)
    if d is None and not orc:
        return True, impl
    # locate the failing history and shrink it
    hists = split_histories(lines)
    pos = 0
    for h in hists:
        n = len(h)
        if (d is not None and pos <= d < pos + n) or any(pos <= k < pos + n for k, _ in orc):
            def fails(cand):
                c = ["reset"] + [x for x in cand if x != "reset"]
                i2, m2 = common.run_pair("C17", c, resolve)
                return common.first_diff(i2, m2) is not None or bool(oracle(c, i2))
            def fails_oracle(cand):
                c = densify(["reset"] + [x for x in cand if x != "reset"])
                i2, _ = common.run_pair("C17", c, resolve)
                return bool(oracle(c, i2))
            def fails_probe(cand):
                c = probe(["reset"] + [x for x in cand if x != "reset"])
                i2, _ = common.run_pair("C17", c, resolve)
                return bool(oracle(c, i2))
            if fails_oracle(h):      # search: does the implementation break the property itself?
                small = densify(["reset"] + [x for x in common.ddmin(h, fails_oracle) if x != "reset"])
            elif fails_probe(h):     # search 2: property-directed probes (re-allocation, comparison, module refs)
                small = probe(["reset"] + [x for x in common.ddmin(h, fails_probe) if x != "reset"])
            else:
                small = ["reset"] + [x for x in common.ddmin(h, fails) if x != "reset"]
                # the shrunk history may show the property-level failure once it is observed densely
                # (shrinking by "tie or oracle" can move to a smaller manifestation of the same cause)
                for widen in (densify, probe):
                    c = widen(small)
                    i3, _ = common.run_pair("C17", c, resolve)
                    if oracle(c, i3):
                        small = c
                        break
            i2, m2 = common.run_pair("C17", small, resolve)
            o2 = oracle(small, i2)
            payload = {"protocol": "heapops", "label": label, "ops": small, "impl": i2, "model": m2,
                       "oracle": [f"op#{k}: {m}" for k, m in o2]}
            if o2:
                ctx.violation("samlang_heap::Heap breaks C17 on this history: " + o2[0][1], payload)
            else:
                payload["broken"] = "correspondence `heapops` (Model/Heap.lean vs crates/samlang-heap): the theorems of Props/C17.lean no longer speak about this code"
                ctx.violation("model/implementation disagreement on protocol heapops; no property-level failure found on the shrunk history", payload, no_input=True)
            clean = False
            break
        pos += n
    return clean, impl


def run(ctx):
    def search():
        return False
    # translator: table of every `pub const …: PStr` regenerated from the current source
    rc, out = common.sh(["python3", os.path.join(common.VERIF, "extract", "c17_consts.py")])
    if rc != 0:
        ctx.violation("translator extract/c17_consts.py can no longer read the PStr constants: " + out.strip()[-300:],
                      {"broken": "extract/c17_consts.py", "log": out[-3000:]}, no_input=True)
    res = common.proof_gate(ctx, search)
    rng = ctx.rng
    # constants probe (implementation side only): every well-known PStr constant reads back the
    # text of its literal and IS the handle alloc_string returns for that text
    _, cans, cerr = common.run_exec(common.harness_bin("C17"), [], ["reset", "consts"], timeout=300)
    ca = cans[1] if len(cans) > 1 else f"<harness died: {cerr[-200:]}>"
    import re as _re
    cm = _re.match(r"consts n=(\d+) bad=(.*)$", ca)
    if not cm:
        ctx.violation("constants probe did not answer: " + ca[:200], {"broken": "harness op `consts`", "answer": ca}, no_input=True)
    elif cm.group(2):
        ctx.violation("samlang_heap::PStr breaks C17: well-known constant(s) " + cm.group(2) +
                      " do not read back their text / differ from the handle alloc_string returns for the same text",
                      {"protocol": "heapops", "ops": ["reset", "consts"], "impl": cans, "constants": cm.group(2).split(",")})
    nconst = int(cm.group(1)) if cm else 0
    nh = ctx.scale(400, 20000)
    nops = ctx.scale(60, 120)
    # corpus first
    cdir = os.path.join(common.VERIF, "corpus", "C17")
    total_lines = 0
    for f in sorted(os.listdir(cdir)) if os.path.isdir(cdir) else []:
        lines = [l.rstrip("\n") for l in open(os.path.join(cdir, f)) if l.strip()]
        check_lines(ctx, lines, f"corpus/{f}")
        total_lines += len(lines)
    fam = cmp_family()
    check_lines(ctx, fam, "deterministic comparison family")
    total_lines += len(fam)
    cur = cursor_family()
    check_lines(ctx, cur, "deterministic sweep-cursor family")
    total_lines += len(cur)
    distinct, nontrivial, opcount, samples = set(), 0, {}, []
    batch = 200
    done = 0
    while done < nh and not ctx.violations:
        lines = []
        hs = []
        for _ in range(min(batch, nh - done)):
            h = gen_history(rng.fork(), rng.range(nops // 3, nops))
            hs.append(h); lines += h
        done += len(hs)
        clean, impl = check_lines(ctx, lines, f"generated seed={ctx.seed}")
        total_lines += len(lines)
        pos = 0
        for h in hs:
            out = impl[pos:pos + len(h)]; pos += len(h)
            key = hash(tuple(h))
            for l in h:
                opcount[l.split(" ")[0]] = opcount.get(l.split(" ")[0], 0) + 1
            if key in distinct:
                continue
            distinct.add(key)
            last = out[-1].split(" ") if out else []
            if len(last) == 3 and last[2].isdigit() and int(last[2]) > 0:
                nontrivial += 1
                if len(samples) < 3:
                    samples.append({"ops": h[:40], "impl_answers": out[:40]})
    ctx.cov.update({
        "evaluations": done, "distinct_nontrivial": nontrivial,
        "rule": "random API histories (alloc_string/static/temp, module refs, add/pop unmarked, mark, sweep(work), reads, comparisons) over a reused string pool with 14/15/16/17-byte and multi-byte boundary strings; non-trivial = distinct history in which at least one string was actually reclaimed by a sweep (final stat unused>0)",
        "samples": samples, "traces_validated_against_impl": done, "op_lines": total_lines,
        "pstr_constants_checked": nconst,
        "op_histogram": opcount})
    ctx.assumptions += ["work units < 2^32 (sweep_index + work_unit is computed in usize without overflow check)",
                        "valid UTF-8 strings (&str / String API)"]
    return ctx.finish(res, trusted=common.TRUSTED_COMMON + [
        "hand-written model Model/Heap.lean (HashMap/HashSet as association lists; pop's hash-order choice supplied by the implementation)",
        "not modelled: the unsafe 16-byte union layout of PStr itself (observed only through Debug/Eq/Ord/Hash in the correspondence), TempPStrCounter atomics"])


def replay(ctx, path):
    common.build_harness("C17"); common.build_lean(["drv-c17"])
    data = json.load(open(path))
    ops = data["replay"].get("ops")
    if not ops:
        print(json.dumps(data, indent=1)); return 1
    impl, model = common.run_pair("C17", ops, resolve)
    orc = oracle(ops, impl)
    for i, l in enumerate(ops):
        print(f"{i:3} {l:50} impl={impl[i] if i < len(impl) else '?':30} model={model[i] if i < len(model) else '?'}")
    for k, m in orc:
        print(f"ORACLE op#{k}: {m}")
    return 1 if orc or common.first_diff(impl, model) is not None else 0
