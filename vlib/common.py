"""Shared machinery for every check: builds, proof audit, protocol runs, evidence, findings.

One check run = (1) rebuild harness from /repo's working tree with hooks on, (2) regenerate
translator-made Lean files, (3) lake build of the property's theorem module + axiom audit,
(4) correspondence / oracle run, (5) known-finding replays, (6) decision + evidence.
See DESIGN.md section 4.
"""
import fcntl, hashlib, json, os, re, subprocess, sys, time, glob, shutil

VERIF = os.path.dirname(os.path.dirname(os.path.abspath(__file__)))
REPO = os.environ.get("SAMVERIF_REPO", "/repo")
LEAN = os.path.join(VERIF, "lean")
HARNESS = os.path.join(VERIF, "harness")


def _harness_target():
    # SAMVERIF_COV=1 (vlib/coverage.py): an instrumented copy of the harness (nightly,
    # -C instrument-coverage) in its own target dir; measurement only, never part of a verdict
    return os.path.join(HARNESS, "target", "cov", "debug") if os.environ.get("SAMVERIF_COV") else os.path.join(HARNESS, "target", "debug")


def harness_bin(prop):
    return os.path.join(_harness_target(), prop.lower())


def driver_bin(prop):
    return os.path.join(LEAN, ".lake", "build", "bin", "drv-" + prop.lower())

SCRATCH_ROOT = "/scratch"
ALLOWED_AXIOMS = {"propext", "Classical.choice", "Quot.sound"}
FORBIDDEN = re.compile(r"\bsorry\b|\badmit\b|^axiom |native_decide|bv_decide|implemented_by|\bunsafe |maxHeartbeats 0")

MASK = (1 << 64) - 1


class Rng:
    """SplitMix64: every random choice of a run derives from VERIF_SEED."""

    def __init__(self, seed):
        self.s = seed & MASK

    def next(self):
        self.s = (self.s + 0x9E3779B97F4A7C15) & MASK
        z = self.s
        z = ((z ^ (z >> 30)) * 0xBF58476D1CE4E5B9) & MASK
        z = ((z ^ (z >> 27)) * 0x94D049BB133111EB) & MASK
        return z ^ (z >> 31)

    def below(self, n):
        return self.next() % n if n > 0 else 0

    def range(self, lo, hi):  # inclusive
        return lo + self.below(hi - lo + 1)

    def chance(self, num, den):
        return self.below(den) < num

    def pick(self, xs):
        return xs[self.below(len(xs))]

    def weighted(self, pairs):
        total = sum(w for _, w in pairs)
        r = self.below(total)
        for x, w in pairs:
            if r < w:
                return x
            r -= w
        return pairs[-1][0]

    def fork(self):
        return Rng(self.next())

    def shuffle(self, xs):
        xs = list(xs)
        for i in range(len(xs) - 1, 0, -1):
            j = self.below(i + 1)
            xs[i], xs[j] = xs[j], xs[i]
        return xs


def hexs(b):
    if isinstance(b, str):
        b = b.encode()
    return b.hex() if b else "-"


def unhex(s):
    return b"" if s == "-" else bytes.fromhex(s)


class Lock:
    def __init__(self, name):
        os.makedirs(os.path.join(VERIF, ".locks"), exist_ok=True)
        self.path = os.path.join(VERIF, ".locks", name)

    def __enter__(self):
        self.f = open(self.path, "w")
        fcntl.flock(self.f, fcntl.LOCK_EX)
        return self

    def __exit__(self, *a):
        fcntl.flock(self.f, fcntl.LOCK_UN)
        self.f.close()


def sh(cmd, cwd=None, timeout=3600, env=None, inp=None):
    e = dict(os.environ)
    e.update({"CARGO_NET_OFFLINE": "true"})
    if env:
        e.update(env)
    p = subprocess.run(cmd, cwd=cwd, shell=isinstance(cmd, str), stdout=subprocess.PIPE,
                       stderr=subprocess.STDOUT, timeout=timeout, env=e, input=inp)
    return p.returncode, p.stdout.decode("utf-8", "replace")


class BuildError(Exception):
    def __init__(self, what, log):
        super().__init__(what)
        self.what = what
        self.log = log


def _cargo_build(binname):
    if os.environ.get("SAMVERIF_COV"):
        return ["cargo", "+nightly", "build", "--offline", "--bin", binname]
    return ["cargo", "build", "--offline", "--bin", binname]


def _cargo_env():
    if os.environ.get("SAMVERIF_COV"):
        e = dict(os.environ)
        e["CARGO_TARGET_DIR"] = os.path.join(HARNESS, "target", "cov")
        e["RUSTFLAGS"] = "-C instrument-coverage --cfg samlang_verif"
        # instrumented proc-macros / build scripts write a profile where they run (the crate's
        # source directory, i.e. /repo) unless told otherwise
        e["LLVM_PROFILE_FILE"] = "/scratch/cov/build/build-%p-%m.profraw"
        return e
    return None


def build_harness(prop):
    """Rebuild the property's harness binary (and thereby the samlang crates it links) from
    /repo's current working tree, with --cfg samlang_verif (harness/.cargo/config.toml)."""
    with Lock("cargo"):
        src, dst = os.path.join(REPO, "Cargo.lock"), os.path.join(HARNESS, "Cargo.lock")
        try:
            if open(src, "rb").read() != (open(dst, "rb").read() if os.path.exists(dst) else b""):
                shutil.copy(src, dst)
        except OSError:
            pass
        rc, out = sh(_cargo_build(prop.lower()), cwd=HARNESS, timeout=1800, env=_cargo_env())
        if rc != 0:
            raise BuildError("harness build (cargo build of /repo crates with --cfg samlang_verif)", out[-6000:])
    return harness_bin(prop)


def build_lean(targets):
    """lake build of the given targets; returns (ok, log)."""
    with Lock("lake"):
        rc, out = sh(["lake", "build"] + list(targets), cwd=LEAN, timeout=3600)
    return rc == 0, out


def lean_run(path, timeout=1800):
    with Lock("lake"):
        return sh(["lake", "env", "lean", path], cwd=LEAN, timeout=timeout)


def lean_closure(roots):
    """Transitive closure of `import SamVerif.*` / `import Driver.*` starting from the given files."""
    seen, todo = set(), list(roots)
    while todo:
        f = todo.pop()
        if f in seen or not os.path.exists(f):
            continue
        seen.add(f)
        for m in re.findall(r"^import\s+((?:SamVerif|Driver)\.\S+)", open(f, encoding="utf-8").read(), re.M):
            todo.append(os.path.join(LEAN, *m.split(".")) + ".lean")
    return sorted(seen)


def grep_forbidden(prop=None):
    """Scan the Lean sources this property depends on (import closure of its audit file and its
    driver; all sources if prop is None) for forbidden constructs outside comments."""
    hits = []
    if prop:
        files = lean_closure([os.path.join(LEAN, "SamVerif", "Audit", f"{prop}.lean"),
                              os.path.join(LEAN, "Driver", f"{prop}.lean")])
    else:
        files = glob.glob(os.path.join(LEAN, "SamVerif", "**", "*.lean"), recursive=True) + \
            glob.glob(os.path.join(LEAN, "Driver", "*.lean"))
    for f in files:
        depth = 0
        for n, line in enumerate(open(f, encoding="utf-8"), 1):
            code = ""
            i = 0
            while i < len(line):
                if line.startswith("/-", i):
                    depth += 1; i += 2; continue
                if line.startswith("-/", i) and depth > 0:
                    depth -= 1; i += 2; continue
                if depth == 0 and line.startswith("--", i):
                    break
                if depth == 0:
                    code += line[i]
                i += 1
            if FORBIDDEN.search(code):
                hits.append(f"{os.path.relpath(f, LEAN)}:{n}: {line.strip()}")
    return hits


def audit(prop):
    """Build Props.<prop>, run Audit/<prop>.lean, parse `#print axioms`.
    Returns dict(obligations=[names], discharged=[names], failed=[(name, why)], log)."""
    res = {"obligations": [], "discharged": [], "failed": [], "log": ""}
    audit_file = os.path.join(LEAN, "SamVerif", "Audit", f"{prop}.lean")
    names = re.findall(r"^#print axioms\s+(\S+)", open(audit_file).read(), re.M)
    res["obligations"] = names
    mods = re.findall(r"^import\s+(SamVerif\.\S+)", open(audit_file).read(), re.M) or [f"SamVerif.Props.{prop}"]
    ok, log = build_lean(mods)
    res["log"] = log
    if not ok:
        res["failed"] = [(n, "lake build of %s failed" % " ".join(mods)) for n in names]
        return res
    rc, out = lean_run(os.path.join("SamVerif", "Audit", f"{prop}.lean"))
    res["log"] += out
    # output blocks: "'name' depends on axioms: [a, b]" or "'name' does not depend on any axioms"
    text = out.replace("\n", " ")
    for n in names:
        m = re.search(r"'(?:[\w.]*\.)?" + re.escape(n) + r"' (does not depend on any axioms|depends on axioms: \[([^\]]*)\])", text)
        if not m:
            res["failed"].append((n, "theorem missing or audit failed"))
            continue
        axs = set(a.strip() for a in (m.group(2) or "").split(",") if a.strip())
        bad = axs - ALLOWED_AXIOMS
        if bad:
            res["failed"].append((n, "depends on non-standard axioms: " + ", ".join(sorted(bad))))
        else:
            res["discharged"].append(n)
    hits = grep_forbidden(prop)
    if hits:
        res["failed"].append(("<source scan>", "forbidden construct: " + "; ".join(hits[:5])))
    return res


def run_exec(binary, args, lines, timeout=900):
    data = ("\n".join(lines) + "\n").encode()
    p = subprocess.run([binary, *args], input=data, stdout=subprocess.PIPE,
                       stderr=subprocess.PIPE, timeout=timeout)
    out = p.stdout.decode("utf-8", "replace").split("\n")
    if out and out[-1] == "":
        out.pop()
    return p.returncode, out, p.stderr.decode("utf-8", "replace")


def run_pair(prop, lines, resolve=None, timeout=900, args=()):
    """Run the implementation harness and the Lean model driver on the same op lines.
    `resolve(lines, impl_out)` may rewrite the lines for the model (to pass nondeterministic
    choices the implementation made). Returns (impl_out, model_out)."""
    rc, impl, err = run_exec(harness_bin(prop), list(args), lines, timeout)
    if rc != 0 and len(impl) < len(lines):
        impl = impl + [f"<harness died rc={rc}: {err.strip()[-200:]}>"]
    mlines = resolve(lines, impl) if resolve else lines
    rc2, model, err2 = run_exec(driver_bin(prop), list(args), mlines, timeout)
    if rc2 != 0 and len(model) < len(mlines):
        model = model + [f"<driver died rc={rc2}: {err2.strip()[-200:]}>"]
    return impl, model


def first_diff(a, b):
    for i in range(max(len(a), len(b))):
        x = a[i] if i < len(a) else "<missing>"
        y = b[i] if i < len(b) else "<missing>"
        if x != y:
            return i
    return None


def ddmin(items, fails, max_tests=400):
    """Delta-debugging minimisation of a list for which fails(items) is True."""
    n = 2
    tests = 0
    items = list(items)
    while len(items) >= 2 and tests < max_tests:
        chunk = max(1, len(items) // n)
        reduced = False
        for i in range(0, len(items), chunk):
            cand = items[:i] + items[i + chunk:]
            tests += 1
            if cand and fails(cand):
                items = cand
                n = max(n - 1, 2)
                reduced = True
                break
        if not reduced:
            if chunk == 1:
                break
            n = min(n * 2, len(items))
    return items


def load_findings(prop):
    path = os.path.join(VERIF, "known_findings.json")
    if not os.path.exists(path):
        return []
    data = json.load(open(path))
    return [f for f in data.get("findings", []) if f["property"] == prop]


class Ctx:
    """Per-run context: tier, seed, rng, evidence accumulation, violation reporting."""

    def __init__(self, prop, tier, seed):
        self.prop = prop
        self.tier = tier
        self.seed = seed
        self.rng = Rng(seed ^ int(hashlib.sha256(prop.encode()).hexdigest()[:8], 16))
        self.t0 = time.time()
        self.violations = []      # (replay_path, suffix)
        self.known_lines = []
        self.cov = {"evaluations": 0, "distinct_nontrivial": 0, "samples": [], "rule": "",
                    "traces_validated_against_impl": 0}
        self.assumptions = []
        self.findings = load_findings(prop)
        self.open_findings = [f for f in self.findings if f.get("status") == "open"]
        # /repo may be temporarily mutated by fault experiments (vlib/repo_lock.sh holds the lock
        # exclusively); a normal check run holds it shared so it never sees a half-applied change.
        if not os.environ.get("SAMVERIF_HAVE_REPO_LOCK"):
            os.makedirs(os.path.join(VERIF, ".locks"), exist_ok=True)
            self._repo_lock = open(os.path.join(VERIF, ".locks", "repo"), "w")
            fcntl.flock(self._repo_lock, fcntl.LOCK_SH)
        os.makedirs(os.path.join(VERIF, "evidence"), exist_ok=True)
        os.makedirs(os.path.join(VERIF, "replays"), exist_ok=True)

    @property
    def quick(self):
        return self.tier == "quick"

    def scale(self, quick, thorough):
        return quick if self.quick else thorough

    def violation(self, what, payload, no_input=False):
        """Record a violation with a replay file. payload is JSON-serialisable."""
        h = hashlib.sha256(json.dumps(payload, sort_keys=True, default=str).encode()).hexdigest()[:10]
        name = f"{self.prop}-{'broken-' if no_input else ''}{h}.json"
        path = os.path.join(VERIF, "replays", name)
        json.dump({"property": self.prop, "what": what, "seed": self.seed, "tier": self.tier,
                   "replay": payload}, open(path, "w"), indent=1, default=str)
        self.violations.append((os.path.relpath(path, VERIF), no_input, what))

    def known(self, finding, detail=""):
        line = f"KNOWN-FINDING: property={self.prop} {finding['id']}: {finding['what']}"
        if detail:
            line += f" [{detail}]"
        if line not in self.known_lines:
            self.known_lines.append(line)

    def finish(self, audit_res, level="proof", checker_cmd=None, trusted=None, extra=None):
        cov = dict(self.cov)
        cov["obligations"] = len(audit_res["obligations"])
        cov["discharged"] = len(audit_res["discharged"])
        cov["obligation_names"] = audit_res["obligations"]
        cov["checker_cmd"] = checker_cmd or (
            f"cd /verif/lean && lake build SamVerif.Props.{self.prop} && "
            f"lake env lean SamVerif/Audit/{self.prop}.lean   # #print axioms of every property theorem")
        cov["trusted_base"] = trusted or []
        if "leanchecker" in audit_res:
            cov["leanchecker"] = audit_res["leanchecker"]
        if extra:
            cov.update(extra)
        cov["samples"] = cov["samples"][:8]
        ev = {"property_id": self.prop, "tier": self.tier, "seed": self.seed, "level": level,
              "coverage": cov, "assumptions": self.assumptions,
              "wall_s": round(time.time() - self.t0, 2), "violations": len(self.violations),
              "known_findings_reported": self.known_lines}
        # evidence/ holds exactly one file per property of properties.jsonl; auxiliary checks
        # (./check SRC: the reference semantics' own validation) write to evidence-aux/
        import re as _re
        edir = "evidence" if _re.fullmatch(r"C\d\d", self.prop) else "evidence-aux"
        edir = os.environ.get("SAMVERIF_EVIDENCE_DIR") or edir      # vlib/try_seed.sh: seeded-tree runs
        os.makedirs(os.path.join(VERIF, edir), exist_ok=True)
        json.dump(ev, open(os.path.join(VERIF, edir, f"{self.prop}.json"), "w"), indent=1, default=str)
        for l in self.known_lines:
            print(l)
        for path, no_input, what in self.violations:
            print(f"# {what}")
            print(f"VIOLATION property={self.prop} replay={path}" + (" no-failing-input-found" if no_input else ""))
        sys.stdout.flush()
        return 1 if self.violations else 0


TRUSTED_COMMON = [
    "Lean 4.33.0 kernel (thorough tier: leanchecker re-check of the .olean files)",
    "axioms: at most propext, Classical.choice, Quot.sound per theorem (audited by #print axioms on every run); no native_decide/bv_decide/sorry",
    "correspondence harness (/verif/harness, Rust, in-process calls of /repo's crates built from the working tree with --cfg samlang_verif) and the Python orchestration/diff in /verif/vlib",
]


def proof_gate(ctx, search=None):
    """Steps 1-3 of a run. Returns audit result; on a broken build/proof, runs `search` (a callable
    returning True if it recorded a concrete violation) and otherwise records a
    no-failing-input-found violation naming what no longer checks."""
    try:
        build_harness(ctx.prop)
    except BuildError as e:
        ctx.violation(f"{e.what} failed; property can no longer be shown", {"broken": e.what, "log": e.log}, no_input=True)
        return {"obligations": [], "discharged": [], "failed": [("build", e.what)], "log": e.log}
    ok, log = build_lean(["drv-" + ctx.prop.lower()])
    if not ok:
        ctx.violation("Lean driver/model no longer builds", {"broken": "lake build drv-" + ctx.prop.lower(), "log": log[-4000:]}, no_input=True)
    res = audit(ctx.prop)
    if not ctx.quick and not res["failed"]:
        # thorough tier: independent re-check of the compiled theorem modules
        audit_file = os.path.join(LEAN, "SamVerif", "Audit", f"{ctx.prop}.lean")
        mods = re.findall(r"^import\s+(SamVerif\.\S+)", open(audit_file).read(), re.M)
        with Lock("lake"):
            rc, out = sh(["lake", "env", "leanchecker"] + mods, cwd=LEAN, timeout=3600)
        res["leanchecker"] = "ok" if rc == 0 else out[-2000:]
        if rc != 0:
            res["failed"].append(("<leanchecker>", "independent re-check of the .olean files failed"))
            res["log"] += out
    if res["failed"]:
        found = False
        if search:
            try:
                found = bool(search())
            except Exception as ex:  # search is best effort
                res["log"] += f"\nsearch crashed: {ex!r}"
        if not found:
            ctx.violation("proof obligations no longer check: " + "; ".join(f"{n} ({w})" for n, w in res["failed"][:6]),
                          {"broken_theorems": res["failed"], "log": res["log"][-4000:]}, no_input=True)
    return res


def build_exec():
    """Build the shared real-execution oracle binary (harness/src/bin/exec.rs)."""
    with Lock("cargo"):
        rc, out = sh(_cargo_build("exec"), cwd=HARNESS, timeout=1800, env=_cargo_env())
        if rc != 0:
            raise BuildError("exec oracle build", out[-6000:])
    return os.path.join(_harness_target(), "exec")


def exec_programs(programs, timeout=3600):
    """Compile with the real compiler in-process and run wasm + TS under Node >= 22.
    programs: list of {"sources": {module: text}, "entry": module, "std": bool, "ts": bool,
    "timeout_ms": int}. Returns a list of {"compile": ok|errors|panic, "msg", "wasm": {"lines",
    "end"}, "ts": {...}} in the same order (see harness/src/exec.rs for the `end` vocabulary)."""
    if not programs:
        return []
    data = "\n".join(json.dumps(p) for p in programs).encode() + b"\n"
    p = subprocess.run([os.path.join(_harness_target(), "exec")], input=data,
                       stdout=subprocess.PIPE, stderr=subprocess.PIPE, timeout=timeout)
    out = [json.loads(l) for l in p.stdout.decode("utf-8", "replace").split("\n") if l.strip()]
    if len(out) != len(programs):
        raise RuntimeError(f"exec oracle returned {len(out)} answers for {len(programs)} programs: {p.stderr.decode()[-500:]}")
    # A wall-clock `timeout` of a compiled program is not a verdict: programs of a batch run side by
    # side and the machine may be loaded. Re-run such a program alone with a 6x budget; only a program
    # that times out again (a real hang / blow-up) keeps `timeout`. (Programs that are EXPECTED to hang
    # pass their own small timeout_ms and "no_retry": true.)
    for i, (prog, ans) in enumerate(zip(programs, out)):
        if prog.get("no_retry") or prog.get("_retried"):
            continue
        if any(isinstance(ans.get(side), dict) and ans[side].get("end") == "timeout" for side in ("wasm", "ts")):
            again = dict(prog, timeout_ms=int(prog.get("timeout_ms", 10000)) * 6, _retried=True)
            out[i] = exec_programs([again], timeout=timeout)[0]
    return out
