"""C04 — TypeScript and WebAssembly back ends agree.

Proof: lean/SamVerif/Props/C04.lean over Model/Backends.lean + Generated/TsOps.lean.
Tie   : (a) extract/c04_tsops.py regenerates the operator table the theorems are about from
            /repo on every run; (b) protocol `backends`: every generated micro-operation is
            compiled by the real compiler in-process and *executed* on both real back ends
            (harness/src/bin/c04.rs) and on both back-end models (lean/Driver/C04.lean):
            4-way comparison per line.
Oracle: independent of the model — TypeScript leg vs WebAssembly leg of the same real run
        (micro-operations, a stream of generated whole programs, and /repo's own tests.AllTests).
"""
import json, os, re, subprocess, sys
from . import common
from .common import hexs, unhex

PROP = "C04"
MIN, MAX = -2 ** 31, 2 ** 31 - 1
ARITH = ["MUL", "DIV", "MOD", "PLUS", "MINUS"]
CMP = ["LT", "LE", "GT", "GE", "EQ", "NE"]
BOUNDARY = [MIN, MIN + 1, -2 ** 30 - 1, -2 ** 30, -65536, -46341, -46340, -10, -7, -3, -2, -1, 0, 1, 2, 3, 7,
            10, 46340, 46341, 65535, 65536, 2 ** 30 - 1, 2 ** 30, MAX - 1, MAX]


def tdiv(a, b):
    q = abs(a) // abs(b)
    return q if (a < 0) == (b < 0) else -q


# ------------------------------------------------------------------ exclusions / finding signatures
def in_range(n):
    return MIN <= n <= MAX


def excluded(line):
    """Runs the property excludes (decided here, not by the model): overflow, division by zero,
    toInt on input that is not a canonical in-range decimal (implementation-defined by the spec)."""
    t = line.lstrip("!").split(" ")
    if t[0] == "bin":
        op, a, b = t[1], int(t[2]), int(t[3])
        if op == "PLUS":
            return not in_range(a + b)
        if op == "MINUS":
            return not in_range(a - b)
        if op == "MUL":
            return not in_range(a * b)
        if op == "DIV":
            return b == 0 or (a == MIN and b == -1)
        if op == "MOD":
            return b == 0
        return False
    if t[0] == "s2i":
        s = unhex(t[1]).decode("utf-8", "replace")
        return not (re.fullmatch(r"-?(0|[1-9][0-9]*)", s) and in_range(int(s)))
    return False


def str_content(line):
    raw = unhex(line.lstrip("!").split(" ")[1]).decode("utf-8", "replace")
    return raw.replace('\\"', '"')


def vec_ops(line):
    out = []
    for o in line.lstrip("!").split(" ")[1:]:
        f = o.split(":")
        if f[0] == "new":
            if f[1] == "of":
                out.append(("push", [int(f[2])]))
            continue
        out.append((f[0], [int(x) for x in f[1:]]))
    return out


def vec_first_failure(ops):
    """index of the first call that must fail per the abstract sequence spec, or None"""
    n = 0
    for k, (o, a) in enumerate(ops):
        if o == "push":
            n += 1
        elif o == "pop":
            if n == 0:
                return k
            n -= 1
        elif o in ("get", "set"):
            if a[0] < 0 or a[0] >= n:
                return k
    return None


def signatures(line):
    """ids of the open-finding signatures this (shrunk) witness matches"""
    t = line.lstrip("!").split(" ")
    sig = []
    if t[0] == "bin" and t[1] == "DIV":
        a, b = int(t[2]), int(t[3])
        if b != 0 and a % b != 0 and (a < 0) != (b < 0):
            sig.append("C04-F1")
    if t[0] == "vec":
        ops = vec_ops(line)
        ff = vec_first_failure(ops)
        live = ops if ff is None else ops[:ff]
        if any(o in ("push", "set") and not (-2 ** 30 <= a[-1] < 2 ** 30) for o, a in live):
            sig.append("C04-F5")
    if t[0] == "veq":
        vals = [int(x) for part in t[1:3] if part != "-" for x in part.split(",")]
        if any(not (-2 ** 30 <= v < 2 ** 30) for v in vals):
            sig.append("C04-F5")
    return sig


# ------------------------------------------------------------------ answers -> canonical legs
def parse_impl(ans):
    """-> dict(kind='run', ts=(text bytes, end|None)|'unreached', wasm=...) | kind C/X/unsupported"""
    t = ans.split(" ")
    if t[0] == "C":
        return {"kind": "C", "msg": unhex(t[1]).decode("utf-8", "replace") if len(t) > 1 else ""}
    if t[0] == "X":
        return {"kind": "X", "msg": unhex(t[1]).decode("utf-8", "replace") if len(t) > 1 else ""}
    if t[0] != "T":
        return {"kind": ans}
    i = 1
    legs = []
    for _ in range(2):
        if t[i] == "unreached":
            legs.append("unreached"); i += 2
        else:
            end = None if t[i + 1] == "-" else unhex(t[i + 1]).decode("utf-8", "replace")
            legs.append((unhex(t[i]), end)); i += 3
    return {"kind": "run", "ts": legs[0], "wasm": legs[1]}


def units_to_utf8(tok):
    h = tok[2:]
    if h == "-":
        return b""
    units = [int(h[i:i + 4], 16) for i in range(0, len(h), 4)]
    raw = b"".join(u.to_bytes(2, "little") for u in units)
    # console.log writes UTF-8; a lone surrogate becomes U+FFFD
    return raw.decode("utf-16-le", "replace").encode("utf-8")


def leg_matches(tok, leg, kind):
    """does the model token describe this real leg?  leg = (text, end)"""
    if leg == "unreached":
        return False
    text, end = leg
    if kind in ("vec", "veq", "seq", "vecr", "veqr"):
        toks = [x for x in text.decode("utf-8", "replace").split("\n") if x != ""]
        if end and end != "ok":
            if end.startswith("panic:"):
                toks.append("P" + hexs(end[6:]))
            elif end.startswith("trap:"):
                toks.append("T" + hexs(end[5:]))
            else:
                toks.append("?" + end)
        return ",".join(toks) == tok
    if tok == "syn":
        return None   # model makes no prediction (not a single template literal)
    if kind in ("cov", "streq"):
        return end in (None, "ok") and "s" + text.decode("utf-8", "replace").replace(" ", "_").replace("\n", "|") == tok
    if kind in ("tag", "enum", "resv"):
        return end is None and "s" + text.decode("utf-8", "replace").replace(" ", "_").replace("\n", "|") == tok
    if tok == "trap":
        return text == b"" and bool(end) and end.startswith("trap:")
    if end is not None:
        return False
    s = text.decode("utf-8", "replace")
    if tok.startswith("i:"):
        return s == tok[2:]
    if tok == "frac":
        return re.fullmatch(r"-?\d+\.\d+(e[-+]\d+)?", s) is not None
    if tok == "nan":
        return s == "NaN"
    if tok == "inf":
        return s == "Infinity"
    if tok == "-inf":
        return s == "-Infinity"
    if tok.startswith("b:"):
        return s == tok[2:]
    if tok.startswith("u:"):
        return text == units_to_utf8(tok)
    return False


def judge(line, impl_ans, model_ans):
    """-> (model_ok, oracle_ok, detail).  oracle_ok is None when the run is excluded."""
    kind = line.lstrip("!").split(" ")[0]
    im = parse_impl(impl_ans)
    mt = model_ans.split(" ")
    if im["kind"] == "unsupported":
        return True, None, "unsupported by the harness"
    if im["kind"] == "C":
        return model_ans == "rej", None if model_ans == "rej" else False, "rejected by the compiler: " + im["msg"]
    if im["kind"] != "run":
        return False, False, "compiler outcome " + im["kind"] + " " + im.get("msg", "")
    if len(mt) != 2:
        return False, (im["ts"] == im["wasm"]) if not excluded(line) else None, "model answered " + model_ans
    a = leg_matches(mt[0], im["ts"], kind)
    b = leg_matches(mt[1], im["wasm"], kind)
    model_ok = (a is not False) and (b is not False)
    oracle_ok = None if excluded(line) else (mask_hints(line, im["ts"]) == mask_hints(line, im["wasm"]) and im["ts"] != "unreached")
    return model_ok, oracle_ok, ""


def mask_hints(line, leg):
    """`capacity()` is an implementation hint per the specification (backends may round up): its
    printed value is not part of the comparison between the back ends (still compared to the model)."""
    t = line.lstrip("!").split(" ")
    if t[0] != "vec" or "cap" not in t or leg == "unreached":
        return leg
    ops = [o for o in t[1:] if not o.startswith("new:")]
    text, end = leg
    lines = text.decode("utf-8", "replace").split("\n")
    out = [("<hint>" if k < len(ops) and ops[k] == "cap" else l) for k, l in enumerate(lines)]
    return ("\n".join(out).encode(), end)


# ------------------------------------------------------------------ generators
def gen_int(rng):
    k = rng.below(10)
    if k < 4:
        return rng.pick(BOUNDARY)
    if k < 7:
        return rng.range(0, 200) - 100
    if k < 8:
        return rng.range(0, 200000) - 100000
    return rng.range(0, 2 ** 32 - 1) + MIN


def steer_div(a, b):
    """make a DIV pair avoid the open C04-F1 signature (keeps boundary flavour)"""
    if b != 0 and a % b != 0 and (a < 0) != (b < 0):
        if -b != MIN and in_range(-b):
            return a, -b
        return a - a % b if in_range(a - a % b) else (abs(a) % 1000, abs(b) % 1000 + 1)
    return a, b


def gen_bin(rng, steer=True):
    op = rng.pick(ARITH + ARITH + CMP)
    a, b = gen_int(rng), gen_int(rng)
    if op == "MUL" and rng.chance(3, 4):
        a, b = rng.pick([a, rng.range(0, 92680) - 46340]), rng.range(0, 92680) - 46340
    if op == "MUL" and abs(a * b) >= 2 ** 53:
        b = b % 4096   # the TypeScript product must stay exact for the 4-way comparison
    if op == "DIV" and steer:
        a, b = steer_div(a, b)
    line = f"bin {op} {a} {b}"
    if (op in ("DIV", "MOD") and b == 0) or (op == "DIV" and a == MIN and b == -1):
        line = "!" + line   # traps on wasm: own program
    return line


PLAIN = "abcxyzABZ019 _-+*/=<>()[]{}.,;:!?#%&|~^'$`"
ESC = ["\\n", "\\t", "\\\\", "\\r", "\\0", "\\b", "\\f", "\\v"]
NONASCII = ["é", "ß", "日", "本", "𝔸", "€", " ", "ÿ"]


def gen_plain_text(rng, n):
    return "".join(rng.pick(PLAIN) for _ in range(n))


def gen_str(rng, flavour):
    n = rng.range(0, 12)
    if flavour == "plain":
        s = ""
        for _ in range(n):
            s += '\\"' if rng.chance(1, 8) else (rng.pick(NONASCII + ["${", "${1}", "`", "\r"] + ESC + ["\\0" + rng.pick("0189a")]) if rng.chance(1, 4) else gen_plain_text(rng, 1))
        return "str " + hexs(s)
    parts = [gen_plain_text(rng, 1) for _ in range(n)]
    k = rng.range(1, 3)
    for _ in range(k):
        ins = {"escape": lambda: rng.pick(ESC + ["\\\\`", "\\\\${", "\\n" + rng.pick(NONASCII)]), "cr": lambda: "\r",
               "malformed": lambda: rng.pick(["\\q", "\\x41", "\\u0041", "\\", "\"", "\\1", "\\'", "\n"])}[flavour]()
        parts.insert(rng.below(len(parts) + 1), ins)
    if flavour == "escape" and rng.chance(1, 6):
        parts.append("\\0" + rng.pick("0189a"))
    return "!str " + hexs("".join(parts))


def gen_i2s(rng):
    return f"i2s {gen_int(rng)}"


def gen_s2i(rng, valid=True):
    if valid:
        return "s2i " + hexs(str(gen_int(rng)))
    return "s2i " + hexs(rng.pick([" 42", "+5", "12abc", "", "-", "abc", "99999999999", "-0", "007", "4 2", "2147483648",
                                    "-2147483649", "1.5", "0x10", "  -3 "]))


def gen_vec(rng, flavour):
    n = rng.range(1, 14)
    ops, size = [], 0
    for _ in range(n):
        o = rng.weighted([("push", 5), ("pop", 2), ("get", 3), ("set", 2), ("len", 1)])
        small = rng.pick([rng.range(0, 2000) - 1000, rng.pick([-2 ** 30, 2 ** 30 - 1, 0, -1, 7])])
        v = small if flavour != "i31" or rng.chance(1, 2) else rng.pick([2 ** 30, -2 ** 30 - 1, MAX, MIN, 2000000000, gen_int(rng)])
        if o == "push":
            ops.append(f"push:{v}"); size += 1
        elif o == "pop":
            if size == 0 and flavour != "fail":
                ops.append(f"push:{v}"); size += 1
            else:
                ops.append("pop"); size = max(0, size - 1)
        elif o in ("get", "set"):
            if size == 0 and flavour != "fail":
                ops.append("len"); continue
            i = rng.below(size) if size else 0
            if flavour == "fail" and rng.chance(1, 3):
                i = rng.pick([size, size + 3, -1, MIN, MAX])
            ops.append(f"get:{i}" if o == "get" else f"set:{i}:{v}")
        else:
            ops.append("len")
    if flavour == "fail" and vec_first_failure(vec_ops("vec " + " ".join(ops))) is None:
        ops.append("get:%d" % size)
    return "vec " + " ".join(ops)


def gen_vec_full(rng):
    """all Vec builtins incl. constructors, reserve, capacity; never failing, 31-bit values"""
    line = gen_vec(rng, "ok").split(" ")[1:]
    ctor = rng.below(3)
    pre = []
    if ctor == 1:
        pre = [f"new:of:{rng.range(0, 2000) - 1000}"]
        line = ["get:0"] + line
    elif ctor == 2:
        pre = [f"new:cap:{rng.pick([0, 1, 3, 4, 5, 16, 100])}"]
    out = []
    for o in line:
        out.append(o)
        if rng.chance(1, 4):
            out.append(rng.pick(["cap", f"res:{rng.pick([-5, 0, 1, 3, 4, 5, 9, 17, 40])}", "len"]))
    return "vec " + " ".join(pre + out)


def gen_veq(rng, big=False):
    """argument shapes: equal / strict prefix (both directions) / empty / differ first, middle, last /
    same length / longer / shorter"""
    val = (lambda: rng.pick([2 ** 30, -2 ** 30 - 1, MAX, MIN, 2 ** 30 - 1, 5])) if big else \
        (lambda: rng.pick([rng.range(0, 6), rng.range(0, 2000) - 1000, rng.pick([-2 ** 30, 2 ** 30 - 1])]))
    n = rng.range(0, 6)
    a = [val() for _ in range(n)]
    shape = rng.below(8)
    if shape == 0:
        b = list(a)
    elif shape == 1:
        b = a + [val() for _ in range(rng.range(1, 3))]
    elif shape == 2:
        b = a[:rng.below(len(a) + 1)]
    elif shape == 3:
        b = []
    elif shape in (4, 5) and a:
        b = list(a)
        k = rng.pick([0, len(a) - 1, rng.below(len(a))])
        b[k] = b[k] + 1 if b[k] < 2 ** 30 - 1 else b[k] - 1
    elif shape == 6:
        b = [val() for _ in range(n)]
    else:
        b = [val() for _ in range(rng.range(0, 6))]
    f = lambda l: ",".join(str(x) for x in l) if l else "-"
    return f"veq {f(a)} {f(b)}"


def gen_seq(rng):
    w = lambda: "".join(rng.pick("abXY01") for _ in range(rng.range(0, 4)))
    a, na = w(), rng.pick([0, 1, 12, -3, gen_int(rng)])
    shape = rng.below(6)
    if shape == 0:
        b, nb = a, na
    elif shape == 1:
        b, nb = a + w(), na
    elif shape == 2:
        b, nb = a[:rng.below(len(a) + 1)], na
    elif shape == 3:
        b, nb = a, rng.pick([na + 1 if na < MAX else 0, -na if na != MIN else 1, na * 10 if in_range(na * 10) else 7])
    elif shape == 4 and na >= 0 and in_range(int("1" + str(na))):
        b, nb = a + "1", na      # "a" :: "12" vs "a1" :: "2"-like boundary shifts
        a, na = a, int("1" + str(na))
    else:
        b, nb = w(), gen_int(rng)
    return f"seq {hexs(a)} {na} {hexs(b)} {nb}"


def gen_vecr(rng):
    """call sequences on a Vec of references (objects 0..3; 2 and 3 have equal content)"""
    ops, size = [], 0
    for _ in range(rng.range(1, 10)):
        o = rng.weighted([("push", 5), ("pop", 2), ("get", 3), ("set", 2), ("len", 1)])
        if o == "push":
            ops.append(f"push:{rng.below(4)}"); size += 1
        elif o == "pop":
            ops.append("pop"); size = max(0, size - 1)
        elif o in ("get", "set"):
            i = rng.below(size) if size and rng.chance(5, 6) else rng.pick([size, -1, size + 2])
            ops.append(f"get:{i}" if o == "get" else f"set:{i}:{rng.below(4)}")
        else:
            ops.append("len")
    return "vecr " + " ".join(ops)


def gen_veqr(rng):
    a = [rng.below(4) for _ in range(rng.range(0, 4))]
    shape = rng.below(5)
    b = {0: list(a), 1: a + [rng.below(4)], 2: a[:rng.below(len(a) + 1)], 3: [3 if x == 2 else (2 if x == 3 else x) for x in a],
         4: [rng.below(4) for _ in range(rng.range(0, 4))]}[shape]
    f = lambda l: ",".join(str(x) for x in l) if l else "-"
    return f"veqr {f(a)} {f(b)}"


# words that are special in JavaScript / TypeScript (reserved, strict-mode reserved, contextual, globals the
# emitted code or the CommonJS wrapper relies on) — each is used as every kind of samlang identifier, every run
JS_WORDS = """break case catch class const continue debugger default delete do else enum export extends false finally for
function if import in instanceof new null return super switch this throw true try typeof var void while with
yield let static implements interface package private protected public await async of get set arguments eval undefined
abstract any as asserts bigint boolean declare from global infer is keyof module namespace never number object out
override readonly require satisfies symbol type unique unknown using accessor exports console parseInt isNaN
globalThis window process length name prototype constructor toString valueOf hasOwnProperty""".split()


COV_FAMILY = ['vecopt', 'ifempty', 'unitloop', 'closures', 'refne', 'nostr']


def cov_family():
    """deterministic whole programs for code-generation paths no micro-operation reaches"""
    return ["cov " + n for n in COV_FAMILY]


def streq_family():
    """deterministic: == / != on Str — equal contents as one shared constant, constant vs run-time built,
    run-time vs run-time; prefixes; equal length differing in the last byte with the high bit set on
    one or both sides; byte boundaries 0x7f / 0x80 (U+0080) / 0xbf / 0xff-neighbourhood (U+00FF, U+07FF)"""
    base = ["", "a", "abc", "caf\u00e9", "\u00e9", "\u65e5\u672c", "\U0001d538", "\x7f", "\u0080", "\u00ff", "\u07ff", "a\u0080", "x" * 40 + "\u00e9"]
    pairs = [(x, x) for x in base]
    pairs += [("caf", "caf\u00e9"), ("caf\u00e9", "caf"), ("", "\u00e9"), ("caf\u00e9", "caf\u00e8"), ("caf\u00e9", "cafe"), ("\x7f", "\u0080"),
              ("\u0080", "\u00bf"), ("\u65e5\u672c", "\u65e5\u672d"), ("a\u00e9b", "a\u00e9c"), ("\u00e9a", "\u00e8a"), ("ab", "ba"), ("\U0001d538", "\U0001d539")]
    return [f"streq {hexs(x)} {hexs(y)}" for x, y in pairs]


def resv_family():
    """deterministic (seed-independent)"""
    return ["resv " + hexs(w) for w in JS_WORDS]


ENUM_SHAPES = {1: 3, 2: 4, 3: 2, 4: 3, 5: 1}


def gen_enum(rng):
    """a value of one of five enum layouts (Int31+Unboxed, Int31+Boxed+Boxed, Boxed only, demoted
    Unboxed, single Unboxed); field values include the odd numbers that are printed tags"""
    sh = rng.pick(list(ENUM_SHAPES))
    v = lambda: rng.pick([0, 1, 2, 3, 5, 7, -1, rng.range(0, 30) - 10])
    return f"enum {sh} {rng.below(ENUM_SHAPES[sh])} {v()} {v()}"


def gen_tag(rng):
    """variant tests on unboxed payloads: one-field struct / Vec<int> whose content is a small number
    (odd numbers are the printed i31 tags), empty Vec, and the payload-free variants themselves"""
    k = rng.below(10)
    if k < 5:
        return f"tag box {rng.pick([0, 1, 2, 3, 4, 5, 7, -1, rng.range(0, 40) - 20, gen_int(rng)])}"
    if k < 8:
        return "tag vec " + rng.pick(["-", "0", "1", "3", "5", "2", str(rng.range(0, 10))])
    return rng.pick(["tag none 0", "tag other 0"])


def gen_stream(rng, n_bulk):
    """bulk stream: steered away from the open signatures"""
    lines = []
    for _ in range(n_bulk):
        k = rng.weighted([("bin", 44), ("str", 20), ("i2s", 8), ("s2i", 7), ("vec", 6), ("vecfull", 5), ("veq", 6), ("seq", 4), ("tag", 5), ("vecr", 3), ("veqr", 3), ("enum", 6)])
        if k == "bin":
            lines.append(gen_bin(rng))
        elif k == "str":
            lines.append(gen_str(rng, "plain"))
        elif k == "i2s":
            lines.append(gen_i2s(rng))
        elif k == "s2i":
            lines.append(gen_s2i(rng, rng.chance(3, 4)))
        elif k == "vecfull":
            lines.append(gen_vec_full(rng))
        elif k == "veq":
            lines.append(gen_veq(rng))
        elif k == "seq":
            lines.append(gen_seq(rng))
        elif k == "tag":
            lines.append(gen_tag(rng))
        elif k == "enum":
            lines.append(gen_enum(rng))
        elif k == "vecr":
            lines.append(gen_vecr(rng))
        elif k == "veqr":
            lines.append(gen_veqr(rng))
        else:
            lines.append(gen_vec(rng, rng.pick(["ok", "ok", "fail"])))
    return lines


def gen_probes(rng, per):
    """dedicated probes: one family per open finding + the malformed stream"""
    out = []
    for _ in range(per):
        a, b = gen_int(rng), gen_int(rng)
        if b in (0, -1):
            b = 2
        if a % b == 0:
            a = a + 1 if a < MAX else a - 1
        if (a < 0) == (b < 0):
            b = -b if b != MIN else 3
            if a % b == 0:
                a, b = -7, 2
        out.append(("C04-F1", f"bin DIV {a} {b}"))
        out.append((None, gen_str(rng, rng.pick(["escape", "escape", "cr"]))))
        out.append(("C04-F5", gen_vec(rng, "i31")))
        out.append(("C04-F5", gen_veq(rng, big=True)))
        out.append((None, gen_str(rng, "malformed")))
    return out


FIXED_PROBES = [("C04-F1", "bin DIV -7 2"), ("C04-F1", "bin DIV 7 -2"), ("C04-F5", "vec push:2000000000 get:0"),
                ("C04-F5", "veq 1073741824 -1073741824")]


# ------------------------------------------------------------------ running / classification
def run_lines(lines):
    impl, model = common.run_pair(PROP, lines, timeout=1800)
    return impl, model


def shrink(line, fails):
    """structural shrinking of one op line while `fails(line)` stays true"""
    t = line.lstrip("!").split(" ")
    if t[0] == "vec":
        ops = common.ddmin(t[1:], lambda c: fails("vec " + " ".join(c)), max_tests=60)
        return "vec " + " ".join(ops)
    if t[0] == "str":
        chars = list(unhex(t[1]).decode("utf-8", "replace"))
        chars = common.ddmin(chars, lambda c: fails("!str " + hexs("".join(c))), max_tests=60)
        return "!str " + hexs("".join(chars))
    return line


class State:
    def __init__(self, ctx):
        self.ctx = ctx
        self.evals = 0
        self.distinct = set()
        self.nontrivial = set()
        self.hist = {}
        self.samples = []
        self.tie_broken = []
        self.reported = set()


def nontrivial(line, impl_ans):
    t = line.lstrip("!").split(" ")
    if not impl_ans.startswith("T "):
        return False
    if t[0] == "bin":
        return int(t[2]) != 0 and int(t[3]) != 0
    if t[0] == "str":
        return t[1] != "-"
    if t[0] == "i2s":
        return abs(int(t[1])) >= 10
    if t[0] == "s2i":
        return len(t[1]) >= 4
    if t[0] == "vec":
        return len(t) >= 3
    if t[0] == "veq":
        return t[1] != "-" or t[2] != "-"
    if t[0] in ("seq", "tag", "vecr", "veqr", "enum", "resv", "cov", "streq"):
        return True
    return False


def handle_failure(st, line, why):
    """a line whose real TypeScript and WebAssembly legs differ (property-level failure)"""
    ctx = st.ctx
    if len([v for v in ctx.violations if not v[1]]) >= MAX_REPORTS:
        return      # enough concrete replays for one run

    orig_sig = set(signatures(line))

    def fails(l):
        # a candidate must fail the same way: never shrink an unknown failure into a known one
        if set(signatures(l)) != orig_sig:
            return False
        i, m = run_lines([l if l.startswith("!") or l.startswith("vec") else "!" + l])
        mo, oo, _ = judge(l, i[0], m[0])
        return oo is False
    small = shrink(line, fails)
    i, m = run_lines([small if small.startswith(("!", "vec")) else "!" + small])
    mo, oo, detail = judge(small, i[0], m[0])
    if oo is not False:          # shrinking lost it (flaky?) — keep the original
        small = line
        i, m = run_lines([line if line.startswith(("!", "vec")) else "!" + line])
        mo, oo, detail = judge(small, i[0], m[0])
    sig = signatures(small)
    open_ids = {f["id"]: f for f in ctx.open_findings}
    hit = [s for s in sig if s in open_ids]
    key = (small,)
    if hit and mo:
        ctx.known(open_ids[hit[0]])
        return
    if key in st.reported:
        return
    st.reported.add(key)
    payload = {"protocol": "backends", "line": small, "from": line, "impl": i[0], "model": m[0],
               "impl_decoded": parse_impl(i[0]), "why": why, "matched_signatures": sig,
               "note": "TypeScript leg and WebAssembly leg of the same real run differ" +
                       ("; the difference is not the one the model of the known finding predicts" if hit else "")}
    ctx.violation(f"emitted TypeScript and WebAssembly disagree on `{small.lstrip('!')}`", payload)


def check_lines(st, lines, label):
    """4-way comparison + oracle for a list of op lines."""
    if not lines:
        return
    impl, model = run_lines(lines)
    redo = []
    for k, l in enumerate(lines):
        ia = impl[k] if k < len(impl) else "<missing>"
        ma = model[k] if k < len(model) else "<missing>"
        if "unreached" in ia and not l.startswith(("!", "vec")):
            redo.append(l); continue
        mo, oo, detail = judge(l, ia, ma)
        if (not mo or oo is False) and not l.startswith(("!", "vec")):
            redo.append(l); continue     # re-run alone before judging (batch neighbours may interfere)
        account(st, l, ia, ma, mo, oo, detail, label)
    if redo:
        solo = ["!" + l for l in redo]
        impl, model = run_lines(solo)
        for k, l in enumerate(solo):
            mo, oo, detail = judge(l, impl[k], model[k])
            account(st, l, impl[k], model[k], mo, oo, detail, label)


def account(st, l, ia, ma, mo, oo, detail, label):
    st.evals += 1
    kind = l.lstrip("!").split(" ")[0]
    st.hist[kind] = st.hist.get(kind, 0) + 1
    key = l.lstrip("!")
    if key not in st.distinct:
        st.distinct.add(key)
        if nontrivial(l, ia):
            st.nontrivial.add(key)
            if len(st.samples) < 6 and (len(st.samples) < 2 or kind not in [s["op"].split(" ")[0] for s in st.samples]):
                st.samples.append({"op": key, "impl": ia, "model": ma})
    if oo is False:
        handle_failure(st, l, detail or label)
    elif not mo:
        st.tie_broken.append({"line": l, "impl": ia, "model": ma, "detail": detail, "label": label})


# ------------------------------------------------------------------ whole-program oracle
class Gen:
    """Random samlang programs over int / bool / Str / an enum / a record / a closure, evaluated
    here with exact integers so that programs that overflow, divide by zero, or hit an open finding
    (inexact division with a negative operand, non-plain strings, big Vec ints) are never emitted."""

    class Reject(Exception):
        pass

    def __init__(self, rng):
        self.rng = rng

    def chk(self, v):
        if not in_range(v):
            raise Gen.Reject()
        return v

    def int_expr(self, env, d):
        r = self.rng
        ints = [k for k, v in env.items() if isinstance(v, int) and not isinstance(v, bool)]
        k = r.below(10) if d > 0 else r.below(3)
        if k == 0 or not ints and k < 3:
            v = r.range(0, 60) - 20
            return (str(v) if v >= 0 else f"({v})"), v
        if k < 3:
            n = r.pick(ints)
            return n, env[n]
        if k < 7:
            op = r.pick(["+", "-", "*", "/", "%"])
            (sa, a), (sb, b) = self.int_expr(env, d - 1), self.int_expr(env, d - 1)
            if op == "+":
                v = a + b
            elif op == "-":
                v = a - b
            elif op == "*":
                v = a * b
            else:
                if b == 0 or (a == MIN and b == -1):
                    raise Gen.Reject()
                if a % b != 0 and (a < 0 or b < 0):
                    raise Gen.Reject()
                v = tdiv(a, b) if op == "/" else a - b * tdiv(a, b)
            return f"({sa} {op} {sb})", self.chk(v)
        if k == 7:
            (sc, c) = self.bool_expr(env, d - 1)
            (sa, a), (sb, b) = self.int_expr(env, d - 1), self.int_expr(env, d - 1)
            return f"(if {sc} {{ {sa} }} else {{ {sb} }})", (a if c else b)
        if k == 8:
            (sa, a) = self.int_expr(env, d - 1)
            return f"Str.fromInt({sa}).toInt()", a
        (sa, a), (sb, b) = self.int_expr(env, d - 1), self.int_expr(env, d - 1)
        f = r.pick(["sumTo", "gcd", "pick", "area", "twice"])
        if f == "sumTo":
            if a < 0:
                raise Gen.Reject()
            n = a % 40
            return f"Main.sumTo({sa} % 40, {sb})", self.chk(b + n * (n + 1) // 2)
        if f == "gcd":
            x, y = abs(a) % 1000 + 1, abs(b) % 1000 + 1
            if a < 0 or b < 0:
                raise Gen.Reject()
            import math
            return f"Main.gcd({sa} % 1000 + 1, {sb} % 1000 + 1)", math.gcd(x, y)
        if f == "pick":
            self.chk(a * 3)
            return f"Main.pick(Shape.Circle({sa}), {sb})", self.chk(a * 3 + b)
        if f == "area":
            return f"Main.pick(Shape.Rect({sa}, {sb}), 1)", self.chk(self.chk(a * b) + 1)
        self.lam = getattr(self, "lam", 0) + 1
        return f"Main.twice((k{self.lam}: int) -> k{self.lam} + {sb}, {sa})", self.chk(self.chk(a + b) + b)

    def bool_expr(self, env, d):
        r = self.rng
        k = r.below(6) if d > 0 else 0
        if k <= 2:
            op = r.pick(["<", "<=", ">", ">=", "==", "!="])
            (sa, a), (sb, b) = self.int_expr(env, d - 1), self.int_expr(env, d - 1)
            v = {"<": a < b, "<=": a <= b, ">": a > b, ">=": a >= b, "==": a == b, "!=": a != b}[op]
            return f"({sa} {op} {sb})", v
        if k == 3:
            (sa, a) = self.bool_expr(env, d - 1)
            return f"(!{sa})", not a
        if k == 4:
            op = r.pick(["&&", "||"])
            (sa, a), (sb, b) = self.bool_expr(env, d - 1), self.bool_expr(env, d - 1)
            return f"({sa} {op} {sb})", (a and b) if op == "&&" else (a or b)
        (sa, a), (sb, b) = self.str_expr(env, d - 1), self.str_expr(env, d - 1)
        return f"({sa} == {sb})", a == b

    def str_expr(self, env, d):
        r = self.rng
        k = r.below(5) if d > 0 else 0
        if k == 0:
            s = gen_plain_text(r, r.range(0, 5)).replace("$", "S")
            return f"\"{s}\"", s
        if k == 1:
            (sa, a) = self.int_expr(env, d - 1)
            return f"Str.fromInt({sa})", str(a)
        if k == 2:
            (sa, a), (sb, b) = self.str_expr(env, d - 1), self.str_expr(env, d - 1)
            return f"({sa} :: {sb})", a + b
        if k == 3:
            (sc, c) = self.bool_expr(env, d - 1)
            (sa, a), (sb, b) = self.str_expr(env, d - 1), self.str_expr(env, d - 1)
            return f"(if {sc} {{ {sa} }} else {{ {sb} }})", (a if c else b)
        (sa, a) = self.int_expr(env, d - 1)
        return f"Main.describe(Shape.Circle({sa}))", "circle " + str(a)

    PRELUDE = """class Shape(Circle(int), Rect(int, int), Empty) {}
class Pair(val a: int, val b: Str) {}
class Main {
  function sumTo(n: int, acc: int): int = if n <= 0 { acc } else { Main.sumTo(n - 1, acc + n) }
  function gcd(a: int, b: int): int = if b == 0 { a } else { Main.gcd(b, a % b) }
  function pick(s: Shape, k: int): int = match s { Circle(r) -> r * 3 + k, Rect(w, h) -> w * h + k, Empty -> k }
  function describe(s: Shape): Str = match s { Circle(r) -> "circle " :: Str.fromInt(r), Rect(w, h) -> "rect", Empty -> "empty" }
  function twice(f: (int) -> int, x: int): int = f(f(x))
  function main(): unit = {
"""

    def builtin_block(self, j, env):
        """uses every Vec builtin (empty/of/withCapacity/push/pop/get/set/length/reserve/eq; capacity
        only through `>= length`) and Str concat / == / != / fromInt / toInt on run-time values"""
        r = self.rng
        small = lambda: r.range(0, 40) - 20
        ctor = r.below(3)
        a, body = [], ""
        if ctor == 0:
            body += f"    let a{j} = Vec.empty<int>();\n"
        elif ctor == 1:
            v = small(); a = [v]
            body += f"    let a{j} = Vec.of<int>(Str.fromInt({v if v >= 0 else f'({v})'}).toInt());\n"
        else:
            body += f"    let a{j} = Vec.withCapacity<int>({r.pick([0, 1, 4, 9])});\n"
        for _ in range(r.range(0, 6)):
            (sv, v) = self.int_expr(env, 1)
            if not (-2 ** 30 <= v < 2 ** 30):
                raise Gen.Reject()
            a.append(v); body += f"    a{j}.push({sv});\n"
        if r.chance(1, 2):
            body += f"    a{j}.reserve({r.pick([-1, 0, 3, 12])});\n"
        exp = []
        if a and r.chance(1, 2):
            i = r.below(len(a)); v = small(); a[i] = v
            body += f"    a{j}.set({i}, {v if v >= 0 else f'({v})'});\n"
        if a and r.chance(1, 3):
            v = a.pop()
            body += f"    let _ = Process.println(\"pop \" :: Str.fromInt(a{j}.pop()));\n"; exp.append(f"pop {v}")
        # second vector in a chosen shape relative to the first
        shape = r.below(5)
        b = {0: list(a), 1: a + [small()], 2: a[:r.below(len(a) + 1)], 3: [], 4: [x + 1 for x in a]}[shape]
        body += f"    let b{j} = Vec.empty<int>();\n" + "".join(
            f"    b{j}.push({x if x >= 0 else f'({x})'});\n" for x in b)
        tf = lambda c: "T" if c else "F"
        body += (f"    let _ = Process.println((if a{j}.eq(b{j}) {{ \"T\" }} else {{ \"F\" }}) :: (if b{j}.eq(a{j}) {{ \"T\" }} else {{ \"F\" }})"
                 f" :: (if a{j}.eq(a{j}) {{ \"T\" }} else {{ \"F\" }}) :: (if a{j}.capacity() >= a{j}.length() {{ \"T\" }} else {{ \"F\" }})"
                 f" :: Str.fromInt(a{j}.length()) :: \",\" :: Str.fromInt(b{j}.length()));\n")
        exp.append(tf(a == b) + tf(b == a) + "TT" + f"{len(a)},{len(b)}")
        if a:
            i = r.below(len(a))
            body += f"    let _ = Process.println(Str.fromInt(a{j}.get({i}) + {len(a)}));\n"; exp.append(str(self.chk(a[i] + len(a))))
        (s1, v1), (s2, v2) = self.str_expr(env, 1), self.str_expr(env, 1)
        body += (f"    let s{j} = {s1} :: Str.fromInt(a{j}.length());\n    let t{j} = {s2} :: Str.fromInt(b{j}.length());\n"
                 f"    let _ = Process.println((if s{j} == t{j} {{ \"eq \" }} else {{ \"ne \" }}) :: (if s{j} != t{j} {{ \"ne \" }} else {{ \"eq \" }}) :: s{j} :: t{j});\n")
        x, y = v1 + str(len(a)), v2 + str(len(b))
        exp.append(("eq " if x == y else "ne ") + ("ne " if x != y else "eq ") + x + y)
        return body, exp

    def program(self):
        r = self.rng
        while True:
            try:
                env, body, expect = {}, "", []
                for i in range(r.range(2, 4)):
                    v = r.range(0, 400) - 100 if r.chance(3, 4) else r.pick([46340, -46340, 65536, 1000000])
                    env[f"x{i}"] = v
                    body += f"    let x{i} = \"{v}\".toInt();\n"
                for j in range(r.range(3, 8)):
                    k = r.below(8)
                    if k >= 6:
                        bb, ee = self.builtin_block(j, env)
                        body += bb; expect += ee
                    elif k < 3:
                        s, v = self.int_expr(env, 3)
                        if r.chance(1, 2):
                            env[f"y{j}"] = v
                            body += f"    let y{j} = {s};\n"
                            s = f"y{j}"
                        body += f"    let _ = Process.println(Str.fromInt({s}));\n"; expect.append(str(v))
                    elif k == 3:
                        s, v = self.str_expr(env, 3)
                        body += f"    let _ = Process.println({s});\n"; expect.append(v)
                    elif k == 4:
                        s, v = self.bool_expr(env, 3)
                        body += f"    let _ = Process.println(if {s} {{ \"T\" }} else {{ \"F\" }});\n"; expect.append("T" if v else "F")
                    else:
                        sa, a = self.int_expr(env, 2)
                        sb, b = self.str_expr(env, 2)
                        if not (-2 ** 30 <= a < 2 ** 30):
                            raise Gen.Reject()
                        body += f"    let p{j} = Pair.init({sa}, {sb});\n    let v{j} = Vec.of<int>(p{j}.a);\n    v{j}.push(p{j}.a + 1);\n"
                        self.chk(a + 1)
                        if not (-2 ** 30 <= a + 1 < 2 ** 30):
                            raise Gen.Reject()
                        body += f"    let _ = Process.println(p{j}.b :: Str.fromInt(v{j}.get(1) - v{j}.get(0) + v{j}.length()));\n"
                        expect.append(b + "3")
                if r.chance(1, 5):
                    s, v = self.str_expr(env, 1)
                    body += f"    let _ = Process.panic<unit>({s});\n"; expect.append("PANIC:" + v)
                return Gen.PRELUDE + body + "  }\n}\n", expect
            except Gen.Reject:
                continue


def program_oracle(ctx, st, nprog):
    """The property itself on whole programs: both real back ends, same lines, same end."""
    try:
        common.build_exec()
    except common.BuildError as e:
        ctx.violation("real-execution oracle no longer builds", {"broken": e.what, "log": e.log}, no_input=True)
        return {}
    g = Gen(ctx.rng.fork())
    progs, expects = [], []
    for _ in range(nprog):
        src, exp = g.program()
        progs.append({"sources": {"Main": src}, "entry": "Main", "std": False, "ts": True, "timeout_ms": 20000})
        expects.append(exp)
    # the repo's own test programs (tests.AllTests reproduces tests/snapshot.txt on both back ends)
    tdir = os.path.join(common.REPO, "tests")
    srcs = {}
    if os.path.isdir(tdir):
        for f in sorted(os.listdir(tdir)):
            if f.endswith(".sam"):
                srcs["tests." + f[:-4]] = open(os.path.join(tdir, f)).read()
    sdir = os.path.join(common.REPO, "std")
    for f in sorted(os.listdir(sdir)) if os.path.isdir(sdir) else []:
        if f.endswith(".sam"):
            srcs["std." + f[:-4]] = open(os.path.join(sdir, f)).read()
    if "tests.AllTests" in srcs:
        progs.append({"sources": srcs, "entry": "tests.AllTests", "std": False, "ts": True, "timeout_ms": 60000})
        expects.append(None)
    res = common.exec_programs(progs)
    stats = {"programs": len(progs), "compiled": 0, "agree": 0, "lines_compared": 0, "panicking": 0, "spec_mismatch": 0}
    no_node = False
    for p, e, r in zip(progs, expects, res):
        if r.get("compile") != "ok":
            stats["rejected"] = stats.get("rejected", 0) + 1
            if e is not None:
                # our generator only emits well-typed programs; a rejection means the generator is
                # wrong or the compiler changed — either way nothing was compared
                st.tie_broken.append({"line": "program", "impl": r.get("msg", "")[:300], "model": "accepted",
                                      "detail": "generated program rejected by the compiler", "label": p["sources"]["Main"]})
            continue
        stats["compiled"] += 1
        t, w = r["ts"], r["wasm"]
        if "no-node" in (t["end"], w["end"]):
            no_node = True
            continue
        if t["end"].startswith("panic"):
            stats["panicking"] += 1
        stats["lines_compared"] += max(len(t["lines"]), len(w["lines"]))
        if t == w:
            stats["agree"] += 1
            if e is not None:
                got = list(t["lines"]) + (["PANIC:" + t["end"][6:]] if t["end"].startswith("panic:") else [])
                if "\n".join(got) != "\n".join(e):
                    stats["spec_mismatch"] += 1   # both back ends agree but differ from the generator's evaluation: not C04
            continue
        # disagreement: find first differing line
        k = 0
        while k < min(len(t["lines"]), len(w["lines"])) and t["lines"][k] == w["lines"][k]:
            k += 1
        payload = {"protocol": "program", "entry": p["entry"],
                   "sources": p["sources"] if e is not None else "the modules of /repo/tests (entry tests.AllTests)",
                   "first_difference_at_line": k,
                   "ts": {"line": t["lines"][k] if k < len(t["lines"]) else None, "end": t["end"], "n": len(t["lines"])},
                   "wasm": {"line": w["lines"][k] if k < len(w["lines"]) else None, "end": w["end"], "n": len(w["lines"])}}
        if len([v for v in ctx.violations if not v[1]]) < MAX_REPORTS + 2:
            ctx.violation("emitted TypeScript and WebAssembly of one program print different lines or end differently", payload)
    stats["no_node"] = no_node
    return stats


# ------------------------------------------------------------------ search (broken proof / broken tie)
def dense_lines():
    out = []
    vals = [MIN, MIN + 1, -2 ** 30, -46341, -8, -7, -2, -1, 0, 1, 2, 7, 8, 46341, 2 ** 30, MAX]
    for op in ARITH + CMP:
        for a in vals:
            for b in vals:
                if op == "DIV":
                    a2, b2 = steer_div(a, b)
                else:
                    a2, b2 = a, b
                l = f"bin {op} {a2} {b2}"
                if not excluded(l):
                    out.append(l)
    for e in "tv0bfnr\\":
        out.append("!str " + hexs("a\\" + e + "b"))
    out += ["!str " + hexs("a\\01"), "!str " + hexs("a\rb"), "!str " + hexs("a`b${c}"), "!str " + hexs("$\\n{")]
    for c in PLAIN + "\"":
        out.append("str " + hexs("a" + (c if c != '"' else '\\"') + "b"))
    for n in vals:
        out += [f"i2s {n}", "s2i " + hexs(str(n))]
    els = ["-", "1", "1,2", "1,2,3", "2", "1,3", "2,2,3", "1,2,4"]
    out += [f"veq {a} {b}" for a in els for b in els]
    strs = [("", 0), ("", 1), ("a", 1), ("a", 12), ("ab", 1), ("a1", 2), ("b", 1)]
    out += [f"seq {hexs(a)} {x} {hexs(b)} {y}" for a, x in strs for b, y in strs]
    out += ["vecr push:0 push:2 push:3 get:1 get:2 set:0:3 get:0 pop pop pop pop", "vecr get:0", "vecr push:1 len pop len",
            "veqr 2 3", "veqr 2 2", "veqr 0,1 0,1,2", "veqr - 0", "veqr - -", "veqr 0,2 0,3"]
    out += resv_family() + cov_family()
    out += [f"enum {sh} {k} {a} {b}" for sh, n in ENUM_SHAPES.items() for k in range(n) for a, b in [(1, 3), (3, 1), (0, 5)]]
    out += [f"tag box {n}" for n in range(-2, 8)] + [f"tag vec {n}" for n in ["-", 0, 1, 2, 3, 5]] + ["tag none 0", "tag other 0"]
    out += ["vec new:of:7 get:0 push:1 cap res:20 cap len pop pop len", "vec new:cap:16 cap len push:3 cap pop len",
            "vec new:cap:0 push:1 push:2 get:1 cap", "vec res:-1 cap res:3 cap push:1 res:9 cap get:0"]
    out += ["vec push:1 push:2 pop len get:0 set:0:5 get:0", "vec push:-1073741824 push:1073741823 get:0 get:1",
            "vec " + " ".join(f"push:{i}" for i in range(9)) + " get:8 get:0 pop len"]
    return sorted(set(out))


def search(ctx, st):
    """dense enumeration of small/boundary cases through the real back ends; True if a concrete
    non-known disagreement was recorded"""
    before = len(ctx.violations)
    try:
        # the runtime builtins first: their deterministic families name the input directly
        check_lines(st, streq_family() + cov_family(), "search: runtime builtin families")
        check_lines(st, dense_lines(), "dense search")
    except Exception as ex:   # harness may be unusable
        st.tie_broken.append({"line": "search", "impl": repr(ex), "model": "", "detail": "search crashed", "label": ""})
    return any(not v[1] for v in ctx.violations[before:])


def run_runtime_pins():
    p = subprocess.run([sys.executable, os.path.join(common.VERIF, "extract", "c04_runtime.py")],
                       stdout=subprocess.PIPE, stderr=subprocess.STDOUT)
    try:
        out = json.loads(p.stdout.decode("utf-8", "replace"))
    except ValueError:
        out = p.stdout.decode("utf-8", "replace")[-500:]
    return p.returncode, out


def run_extractor():
    """both translators (operator table, string-constant printers); rc != 0 if either fails"""
    rc, log = 0, ""
    for script in ("c04_tsops.py", "c04_strings.py", "c04_reserved.py"):
        p = subprocess.run([sys.executable, os.path.join(common.VERIF, "extract", script)],
                           stdout=subprocess.PIPE, stderr=subprocess.STDOUT)
        rc = rc or p.returncode
        log += p.stdout.decode("utf-8", "replace")
    return rc, log


# ------------------------------------------------------------------ entry points
def run(ctx):
    st = State(ctx)
    rc, xlog = run_extractor()
    searched = [False]

    def do_search():
        searched[0] = True
        return search(ctx, st)
    res = common.proof_gate(ctx, do_search)
    harness_ok = os.path.exists(common.harness_bin(PROP)) and not any(n == "build" for n, _ in res["failed"])
    if rc != 0:
        found = harness_ok and (searched[0] or do_search()) and any(not v[1] for v in ctx.violations)
        if not found:
            ctx.violation("translator extract/c04_tsops.py / c04_strings.py no longer understands the source: " + xlog.strip()[-300:],
                          {"broken": "tie: Generated/TsOps.lean / Generated/StrEsc.lean cannot be regenerated from /repo", "log": xlog[-2000:]}, no_input=True)
    stats = {}
    pins = None
    if harness_ok:
        prc, pout = run_runtime_pins()
        pins = {"rc": prc, "changed": pout}
        if prc != 0:
            # a runtime builtin no longer has the text its model was written from: the theorems about
            # it no longer speak about this code -> search every builtin with every argument shape
            found = (searched[0] or do_search()) and any(not v[1] for v in ctx.violations)
            if not found and not any(not v[1] for v in ctx.violations):
                names = ", ".join(c.get("builtin", "?") for c in pout) if isinstance(pout, list) else str(pout)
                ctx.violation("runtime builtin(s) changed, models in Model/Backends.lean no longer tied: " + names[:200],
                              {"broken": "tie: extract/c04_runtime.py (text of ts_prolog()/libsam.wat/loader.js vs pinned normal form)",
                               "changed": pout}, no_input=True)
    if harness_ok:
        rng = ctx.rng
        cdir = os.path.join(common.VERIF, "corpus", PROP)
        for f in sorted(os.listdir(cdir)) if os.path.isdir(cdir) else []:
            lines = [l.rstrip("\n") for l in open(os.path.join(cdir, f)) if l.strip() and not l.startswith("#")]
            check_lines(st, lines, f"corpus/{f}")
        check_lines(st, gen_stream(rng.fork(), ctx.scale(700, 12000)), f"generated seed={ctx.seed}")
        probes = FIXED_PROBES + gen_probes(rng.fork(), ctx.scale(6, 120))
        check_lines(st, [l for _, l in probes], "finding probes + malformed stream")
        check_lines(st, resv_family(), "JavaScript-special words as identifiers (deterministic family)")
        check_lines(st, cov_family(), "coverage-guided whole programs (deterministic family)")
        check_lines(st, streq_family(), "== / != on Str: shared constants, run-time built operands, high-bit bytes (deterministic family)")
        if not ctx.quick:
            check_lines(st, dense_lines(), "dense")
        stats = program_oracle(ctx, st, ctx.scale(60, 1500))
        if st.tie_broken and not ctx.violations:
            if not searched[0]:
                do_search()
            if not any(not v[1] for v in ctx.violations):
                ctx.violation("model/implementation disagreement on protocol `backends` (both real back ends still agree with each other on it): "
                              + st.tie_broken[0]["line"],
                              {"broken": "correspondence `backends` (Model/Backends.lean vs the emitted code): the theorems of Props/C04.lean no longer speak about this code",
                               "cases": st.tie_broken[:10]}, no_input=True)
    ctx.cov.update({
        "evaluations": st.evals + stats.get("programs", 0),
        "distinct_nontrivial": len(st.nontrivial) + stats.get("agree", 0),
        "rule": "micro-operations (bin: 11 source-reachable operators x boundary/random int32 operands in all sign combinations; str: literals over an alphabet with \\\" $ { } ' and, in the probe stream, escapes, CR, back quote, ${, non-ASCII, malformed; i2s/s2i; vec: call sequences on Vec<int>) each compiled by the real compiler and executed on both real back ends and both models; non-trivial = distinct op line that ran on both back ends with non-zero operands / non-empty literal / >= 2 Vec calls / >= 2 digits; plus whole generated programs (ints, bools, strings, enum match, record, closure, recursion, Vec) and tests.AllTests, counted when both back ends ran and agreed",
        "samples": st.samples, "traces_validated_against_impl": st.evals,
        "op_histogram": st.hist, "program_oracle": stats,
        "operator_table_extractor": xlog.strip()[-200:], "runtime_text_tie": pins,
        "partial_theorems": {
            "bin_agree_partial": "DIV: a % b = 0 or operands of equal sign (exact by div_agree_iff); SHR: 0 <= a",
            "i31_roundtrip_partial": "-2^30 <= n < 2^30 (exact by i31_roundtrip_iff)",

            "vec_agree_partial / vec_eq_agree_partial": "all stored ints in i31 range (failing calls included)"},
        "pending": PENDING})
    ctx.assumptions += [
        "V8: for |a|,|b| < 2^31 Math.floor(a / b) on doubles equals the floor of the rational quotient; products compared only below 2^53; -0 prints and compares like 0",
        "operands reach both back ends as run-time values through \"<n>\".toInt() (not constant-folded)",
        "engine limits (stack depth, memory) are not part of the comparison",
        "Str.toInt on input that is not a canonical in-range decimal is implementation-defined by the specification and excluded from the oracle (still compared against the model)"]
    return ctx.finish(res, trusted=common.TRUSTED_COMMON + [
        "extract/c04_reserved.py (TS_RESERVED_WORDS and the `contains` lookup of push_variable_name into Generated/TsReserved.lean); Generated/Keywords.lean (samlang keyword tokens, C05's translator) is imported by Model/BackendsNames.lean only",
        "extract/c04_tsops.py (regex translator of the operator tables of hir.rs/lir.rs/wasm.rs into Generated/TsOps.lean) and extract/c04_strings.py (lexer escape letters, wasm escape table, TypeScript rewrites into Generated/StrEsc.lean), cross-checked by the execution of the same operators / literals",
        "hand-written models of the two runtimes (Model/Backends.lean): JS template-literal cooking, byte-wise decoding in loader.js, Str.fromInt/toInt, Vec with i31 boxing; tied by execution on Node >= 22",
        "Node 22 / V8 as the execution oracle of both emitted programs",
        "not modelled: code generation of whole programs (struct layout, closures, pattern matching, control flow) — reached only by the program oracle; SHL/SHR/LAND/LOR are not producible from source programs and are tied by the extracted table only"])


MAX_REPORTS = 4
PENDING = ["closures, struct field layout beyond the tag field, control flow and the optimiser's effect on emitted code: differential only",
           "type_permit_enum_boxed_optimization (which field types are pointer-only) is an input of the layout model, not modelled"]


def replay(ctx, path):
    common.build_harness(PROP); common.build_lean(["drv-c04"])
    data = json.load(open(path))
    rp = data["replay"]
    if rp.get("protocol") == "program" and isinstance(rp.get("sources"), dict):
        common.build_exec()
        r = common.exec_programs([{"sources": rp["sources"], "entry": rp["entry"], "std": False, "ts": True, "timeout_ms": 20000}])[0]
        print(json.dumps(r, indent=1))
        return 0 if r.get("compile") == "ok" and r["ts"] == r["wasm"] else 1
    line = rp.get("line")
    if not line:
        print(json.dumps(data, indent=1)); return 1
    l = line if line.startswith(("!", "vec")) else "!" + line
    i, m = run_lines([l])
    mo, oo, detail = judge(l, i[0], m[0])
    print("op    :", line); print("impl  :", parse_impl(i[0])); print("model :", m[0])
    print("model == impl:", mo, "  TypeScript == WebAssembly:", oo, detail)
    return 1 if (oo is False or not mo) else 0
